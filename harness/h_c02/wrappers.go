package h_c02

import "github.com/elys-network/elys/zzvrf/h_c12"

// An account that holds committed shares of two pools and leaves one of them: the commitment ledger's step
// (h_c12) must keep the other pool's committed shares, or the sum of committed shares falls below its supply.
//
//vrf:cover uncommit-ok uncommit-refused
//vrf:bound see h_c12.H_Uncommit_TwoShareDenoms
func H_TwoPools_LeaveOne() { h_c12.H_Uncommit_TwoShareDenoms() }

//vrf:cover refused
//vrf:bound see h_c12.H_Messages_CannotReleasePoolShares
func H_CommitmentMessages_CannotReleaseShares() { h_c12.H_Messages_CannotReleasePoolShares() }
