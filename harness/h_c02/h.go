// Package h_c02: LP share supply, pool total shares and committed shares always agree.
// Inductive steps on the real amm keeper (JoinPoolNoSwap, ExitPool) over the real
// commitment, assetprofile, accountedpool and masterchef hook chain. The same steps
// also re-establish C01 (reserves = bank holdings; DenomLiquidity = sum of reserves).
package h_c02

import (
	sdkmath "cosmossdk.io/math"
	sdk "github.com/cosmos/cosmos-sdk/types"
	authtypes "github.com/cosmos/cosmos-sdk/x/auth/types"
	ammtypes "github.com/elys-network/elys/x/amm/types"
	aptypes "github.com/elys-network/elys/x/assetprofile/types"
	ctypes "github.com/elys-network/elys/x/commitment/types"
	vrf "github.com/elys-network/elys/zzvrf"
	"github.com/elys-network/elys/zzvrf/wire"
)

var (
	poolAddr = ammtypes.NewPoolAddress(1)
	treasury = ammtypes.NewPoolRebalanceTreasury(1)
	joiner   = sdk.AccAddress([]byte("joiner______________"))
	commMod  = authtypes.NewModuleAddress(ctypes.ModuleName)
	ammMod   = authtypes.NewModuleAddress(ammtypes.ModuleName)
	share    = ammtypes.GetPoolShareDenom(1)
)

const (
	atom = "uatom"
	usdc = "uusdc"
)

type state struct {
	env         *wire.Env
	ba, bu, T   sdkmath.Int
	mine, other sdkmath.Int // joiner's committed shares, everyone else's
	wa, wu      sdkmath.Int
}

// oraclePool: the pool under test is an oracle pool (set by the harness before setup; package state is reset per path)
var oraclePool bool

// hypothesis: TotalShares = supply = mine + other = custody balance; bank = book; DenomLiquidity = book
func setup(withShareEntry bool) *state {
	env := wire.New(wire.Opts{})
	ctx := env.Ctx
	s := &state{env: env}
	env.Amm.SetParams(ctx, ammtypes.DefaultParams())
	env.Comm.SetParams(ctx, ctypes.DefaultParams())
	s.ba, s.bu, s.T = vrf.Int("bookAtom"), vrf.Int("bookUsdc"), vrf.Int("totalShares")
	s.mine, s.other = vrf.Int("sharesJoiner"), vrf.Int("sharesOthers")
	s.wa, s.wu = vrf.Int("walletAtom"), vrf.Int("walletUsdc")
	vrf.Assume(s.ba.IsPositive())
	vrf.Assume(s.bu.IsPositive())
	vrf.Assume(s.T.IsPositive())
	vrf.Assume(!s.mine.IsNegative())
	vrf.Assume(!s.other.IsNegative())
	vrf.Assume(s.mine.Add(s.other).Equal(s.T))
	vrf.Assume(!s.wa.IsNegative())
	vrf.Assume(!s.wu.IsNegative())
	pool := ammtypes.Pool{
		PoolId: 1, Address: poolAddr.String(), RebalanceTreasury: treasury.String(),
		PoolParams:  ammtypes.PoolParams{UseOracle: oraclePool, SwapFee: sdkmath.LegacyZeroDec(), FeeDenom: usdc},
		TotalShares: sdk.Coin{Denom: share, Amount: s.T},
		PoolAssets: []ammtypes.PoolAsset{
			{Token: sdk.Coin{Denom: atom, Amount: s.ba}, Weight: sdkmath.NewInt(1), ExternalLiquidityRatio: sdkmath.LegacyOneDec()},
			{Token: sdk.Coin{Denom: usdc, Amount: s.bu}, Weight: sdkmath.NewInt(1), ExternalLiquidityRatio: sdkmath.LegacyOneDec()},
		},
		TotalWeight: sdkmath.NewInt(2),
	}
	env.Amm.SetPool(ctx, pool)
	env.Amm.SetDenomLiquidity(ctx, ammtypes.DenomLiquidity{Denom: atom, Liquidity: s.ba})
	env.Amm.SetDenomLiquidity(ctx, ammtypes.DenomLiquidity{Denom: usdc, Liquidity: s.bu})
	env.W.SetBal(poolAddr, atom, s.ba)
	env.W.SetBal(poolAddr, usdc, s.bu)
	env.W.SetBal(joiner, atom, s.wa)
	env.W.SetBal(joiner, usdc, s.wu)
	env.W.Supply[share] = s.T
	env.W.SetBal(commMod, share, s.T)
	// the amm module account is not empty: pool-creation fees (native token) are parked on it
	dust := vrf.Int("ammModuleElys")
	vrf.Assume(!dust.IsNegative())
	env.W.SetBal(ammMod, "uelys", dust)
	env.W.Supply["uelys"] = dust.Add(sdkmath.NewInt(1000000))
	if withShareEntry {
		env.Aprof.SetEntry(ctx, aptypes.Entry{BaseDenom: share, Denom: share, Decimals: 18, CommitEnabled: true, WithdrawEnabled: true})
	}
	if s.mine.IsPositive() {
		c := env.Comm.GetCommitments(ctx, joiner)
		c.AddCommittedTokens(share, s.mine, 0)
		env.Comm.SetCommitments(ctx, c)
	}
	cp := env.Comm.GetParams(ctx)
	cp.TotalCommitted = sdk.Coins{sdk.NewCoin(share, s.T)}
	env.Comm.SetParams(ctx, cp)
	return s
}

func (s *state) check(label string) {
	env, ctx := s.env, s.env.Ctx
	p, found := env.Amm.GetPool(ctx, 1)
	vrf.Assert(found, label+": pool still stored")
	supply := env.W.SupplyOf(share)
	c := env.Comm.GetCommitments(ctx, joiner)
	mine := c.GetCommittedAmountForDenom(share)
	vrf.Observe("supply", supply)
	vrf.Assert(p.TotalShares.Amount.Equal(supply), "C02 "+label+": pool TotalShares == minted supply of the share token")
	vrf.Assert(supply.Equal(mine.Add(s.other)), "C02 "+label+": supply == sum of accounts' committed shares")
	vrf.Assert(env.W.BalOf(commMod, share).Equal(supply), "C02 "+label+": the commitment custody account holds every share")
	vrf.Assert(env.W.BalOf(joiner, share).IsZero(), "C02 "+label+": no liquid (uncommitted) shares are left with the account")
	vrf.Assert(env.W.SupplyOf("uelys").Equal(env.W.BalOf(ammMod, "uelys").Add(sdkmath.NewInt(1000000))), "C15 "+label+": joins and exits leave the native token parked on the amm module account (and its supply) alone")
	for _, a := range p.PoolAssets {
		vrf.Assert(env.W.BalOf(poolAddr, a.Token.Denom).Equal(a.Token.Amount), "C01 "+label+": bank == book for "+a.Token.Denom)
		dl, _ := env.Amm.GetDenomLiquidity(ctx, a.Token.Denom)
		vrf.Assert(dl.Liquidity.Equal(a.Token.Amount), "C01 "+label+": DenomLiquidity == sum of reserves for "+a.Token.Denom)
	}
}

// all-asset join through the real share maths
//
//vrf:cover join-ok
//vrf:bound 1 pool x 2 assets (constant product), all amounts unbounded; joiner + symbolic remainder of share holders
//vrf:assert-ms 120000
func H_JoinPoolNoSwap() {
	s := setup(vrf.Bool("shareEntryExists"))
	want, ma, mu := vrf.Int("shareOut"), vrf.Int("maxAtom"), vrf.Int("maxUsdc")
	vrf.Assume(want.IsPositive())
	vrf.Assume(ma.IsPositive())
	vrf.Assume(mu.IsPositive())
	_, shares, err := s.env.Amm.JoinPoolNoSwap(s.env.Ctx, joiner, 1, want, sdk.Coins{{Denom: atom, Amount: ma}, {Denom: usdc, Amount: mu}})
	if err != nil {
		return
	}
	vrf.Cover("join-ok")
	vrf.Assert(s.env.W.SupplyOf(share).Equal(s.T.Add(shares)), "C02 join: exactly the returned shares are minted")
	s.check("join")
}

// all-asset join of an oracle pool (the keeper's oracle branch: the full offered amounts are handed to the pool,
// which uses only what fits the reserve ratio)
//
//vrf:cover join-ok
//vrf:bound as H_JoinPoolNoSwap with UseOracle = true, both assets offered in an arbitrary ratio
//vrf:assert-ms 120000
func H_JoinPoolNoSwap_OraclePool() {
	oraclePool = true
	H_JoinPoolNoSwap()
}

// all-asset exit
//
//vrf:cover exit-ok
//vrf:bound as the join; exiting share amount symbolic
//vrf:assert-ms 120000
func H_ExitPool() {
	s := setup(true)
	out := vrf.Int("shareIn")
	vrf.Assume(out.IsPositive())
	coins, err := s.env.Amm.ExitPool(s.env.Ctx, joiner, 1, out, sdk.Coins{}, "", false)
	if err != nil {
		return
	}
	vrf.Cover("exit-ok")
	vrf.Assert(out.LTE(s.mine), "C02 exit: an account can exit only with shares committed for it")
	vrf.Assert(s.env.W.SupplyOf(share).Equal(s.T.Sub(out)), "C02 exit: exactly the exited shares are burnt")
	vrf.Assert(s.env.W.BalOf(joiner, atom).Equal(s.wa.Add(coins.AmountOf(atom))), "C01 exit: wallet credited what the pool paid (atom)")
	s.check("exit")
}

// ---- keeper wiring around the pool's share maths (C05 at the keeper level) ----
// The value inequalities of a join are proved on Pool.JoinPool itself (h_c05). Here Pool.JoinPool is a contract
// (any positive share amount, any non-empty part of the offered coins, pool updated accordingly) and the keeper entry
// point must mint for the joiner exactly the shares, and take exactly the coins, that the pool maths returned -
// whatever share amount the message asked for.

var (
	kShares sdkmath.Int
	kJoined sdk.Coins
)

func SumPoolJoin(p *ammtypes.Pool, ctx sdk.Context, snapshot *ammtypes.Pool, o ammtypes.OracleKeeper, acc ammtypes.AccountedPoolKeeper, tokensIn sdk.Coins, params ammtypes.Params) (sdk.Coins, sdkmath.Int, sdkmath.LegacyDec, sdkmath.LegacyDec, error) {
	z := sdkmath.LegacyZeroDec()
	if vrf.Bool("poolJoinFails") {
		return sdk.NewCoins(), sdkmath.Int{}, z, z, ammtypes.ErrAmountTooLow
	}
	shares := vrf.Int("poolSharesOut")
	vrf.Assume(shares.IsPositive())
	joined := sdk.Coins{}
	for i, c := range tokensIn {
		j := vrf.Int("poolJoined" + string(rune('1'+i)))
		vrf.Assume(j.IsPositive())
		vrf.Assume(j.LTE(c.Amount))
		joined = append(joined, sdk.NewCoin(c.Denom, j))
	}
	if err := p.IncreaseLiquidity(shares, joined); err != nil {
		return sdk.NewCoins(), sdkmath.Int{}, z, z, err
	}
	kShares, kJoined = shares, joined
	return joined, shares, z, z, nil
}

func keeperJoin(single bool) {
	oraclePool = vrf.Bool("oraclePool")
	s := setup(true)
	env, ctx := s.env, s.env.Ctx
	want, ma, mu := vrf.Int("shareOut"), vrf.Int("maxAtom"), vrf.Int("maxUsdc")
	vrf.Assume(want.IsPositive())
	vrf.Assume(ma.IsPositive())
	vrf.Assume(mu.IsPositive())
	offered := sdk.Coins{{Denom: atom, Amount: ma}, {Denom: usdc, Amount: mu}}
	if single {
		offered = sdk.Coins{{Denom: usdc, Amount: mu}}
	}
	kShares, kJoined = sdkmath.ZeroInt(), sdk.Coins{}
	coins, shares, err := env.Amm.JoinPoolNoSwap(ctx, joiner, 1, want, offered)
	if err != nil {
		return
	}
	vrf.Cover("join-ok")
	c := env.Comm.GetCommitments(ctx, joiner)
	vrf.Assert(c.GetCommittedAmountForDenom(share).Sub(s.mine).Equal(kShares), "C05 keeper join: the shares committed for the joiner are exactly what the pool's share maths returned (not what the message asked for)")
	vrf.Assert(env.W.SupplyOf(share).Sub(s.T).Equal(kShares), "C05 keeper join: exactly the shares the pool maths returned are minted")
	vrf.Assert(shares.Equal(kShares), "C05 keeper join: the reported share amount is the pool maths' result")
	vrf.Assert(s.wa.Sub(env.W.BalOf(joiner, atom)).Equal(kJoined.AmountOf(atom)), "C05 keeper join: the joiner pays exactly the uatom the pool maths joined")
	vrf.Assert(s.wu.Sub(env.W.BalOf(joiner, usdc)).Equal(kJoined.AmountOf(usdc)), "C05 keeper join: the joiner pays exactly the uusdc the pool maths joined")
	vrf.Assert(coins.AmountOf(usdc).Equal(kJoined.AmountOf(usdc)), "C05 keeper join: the reported coins are the joined coins")
	p, _ := env.Amm.GetPool(ctx, 1)
	vrf.Assert(p.TotalShares.Amount.Equal(s.T.Add(kShares)), "C05 keeper join: the stored pool's total shares grow by exactly the minted shares")
	s.check("keeper join")
}

// all-asset join (constant-product and oracle pool) around a contract of Pool.JoinPool
//
//vrf:summary (*github.com/elys-network/elys/x/amm/types.Pool).JoinPool => SumPoolJoin
//vrf:cover join-ok
//vrf:bound 1 pool x 2 assets, constant-product or oracle (symbolic); requested share amount, offered amounts, reserves, supply unbounded positive; Pool.JoinPool under contract (any shares > 0, any part of the coins it was handed)
func H_K1_KeeperJoin_AllAssets() { keeperJoin(false) }

// single-asset join: the requested share amount is a free input unrelated to the deposit
//
//vrf:summary (*github.com/elys-network/elys/x/amm/types.Pool).JoinPool => SumPoolJoin
//vrf:cover join-ok
//vrf:bound as K1 with one offered coin
func H_K1_KeeperJoin_SingleAsset() { keeperJoin(true) }

// ---- single-asset join of a constant-product pool through the real Pool.JoinPool ----

// contract of powerApproximation (the share ledgers do not depend on its value): any result in [1, base]
func SumPowAny(base, exp sdkmath.LegacyDec) (sdkmath.LegacyDec, error) {
	r := vrf.Dec("powResult")
	vrf.Assume(r.GTE(sdkmath.LegacyOneDec()))
	vrf.Assume(r.LTE(base))
	return r, nil
}

// single-asset join: the share ledgers (pool total, supply, committed, custody) agree afterwards
//
//vrf:summary github.com/elys-network/elys/x/amm/types.powerApproximation => SumPowAny
//vrf:cover join-ok
//vrf:bound 1 constant-product pool x 2 assets, one offered coin of less than the reserve (balance ratio in [1, 2)); reserves, supply, amount symbolic; powerApproximation under contract (any value in [1, base])
//vrf:assert-ms 120000
func H_JoinPoolNoSwap_SingleAsset() {
	s := setup(true)
	mu := vrf.Int("maxUsdc")
	vrf.Assume(mu.IsPositive())
	vrf.Assume(mu.LT(s.bu))
	vrf.Assume(s.bu.LTE(sdkmath.NewIntWithDecimal(1, 30)))
	vrf.Assume(s.T.LTE(sdkmath.NewIntWithDecimal(1, 30)))
	_, shares, err := s.env.Amm.JoinPoolNoSwap(s.env.Ctx, joiner, 1, sdkmath.NewInt(1), sdk.Coins{{Denom: usdc, Amount: mu}})
	if err != nil {
		return
	}
	vrf.Cover("join-ok")
	vrf.Assert(s.env.W.SupplyOf(share).Equal(s.T.Add(shares)), "C02 single-asset join: exactly the returned shares are minted")
	s.check("single-asset join")
}
