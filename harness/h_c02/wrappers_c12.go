package h_c02

import "github.com/elys-network/elys/zzvrf/h_c12"

// shares minted by a join are committed for the joiner through CommitLiquidTokens: however many lock-ups the account
// already holds, every minted share is credited to it (scenario in h_c12, labels "C12/C02 ...")

//vrf:cover commit-ok
//vrf:bound see h_c12.H_Commit_ManyLockups
//vrf:assert-prefix C12/C02
//vrf:unwind 40
func H_Commit_ManyLockups() { h_c12.H_Commit_ManyLockups() }
