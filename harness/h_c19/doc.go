// Package h_c19: the state transition is deterministic. Meta-check: zz_gen.go (generated on
// every run) wraps the scenarios of the other harness packages, observes the whole world they
// leave behind (zzvrf.ObserveWorld) and is run as a two-run product: map iteration order sorted
// vs reversed and wall-clock reads fresh per run; every pair of co-satisfiable paths must agree
// on every observation.
package h_c19
