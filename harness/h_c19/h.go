package h_c19

import (
	sdkmath "cosmossdk.io/math"
	sdk "github.com/cosmos/cosmos-sdk/types"
	ammtypes "github.com/elys-network/elys/x/amm/types"
	aptypes "github.com/elys-network/elys/x/assetprofile/types"
	otypes "github.com/elys-network/elys/x/oracle/types"
	ptypes "github.com/elys-network/elys/x/parameter/types"
	vrf "github.com/elys-network/elys/zzvrf"
	"github.com/elys-network/elys/zzvrf/wire"
)

// Scenarios with several objects of a kind, so that an iteration order can matter at all.

func twoPools(withPrices bool) *wire.Env {
	env := wire.New(wire.Opts{})
	env.Ctx = vrf.SetBlock(env.Ctx, 100, 1700000000)
	ctx := env.Ctx
	env.Amm.SetParams(ctx, ammtypes.DefaultParams())
	env.Aprof.SetEntry(ctx, aptypes.Entry{BaseDenom: ptypes.BaseCurrency, Denom: "uusdc", Decimals: 6})
	env.Aprof.SetEntry(ctx, aptypes.Entry{BaseDenom: "uatom", Denom: "uatom", Decimals: 6})
	env.Oracle.SetAssetInfo(ctx, otypes.AssetInfo{Denom: "uatom", Display: "ATOM", Decimal: 6})
	env.Oracle.SetAssetInfo(ctx, otypes.AssetInfo{Denom: "uusdc", Display: "USDC", Decimal: 6})
	if withPrices {
		env.Oracle.SetPrice(ctx, otypes.Price{Asset: "ATOM", Source: otypes.ELYS, Price: sdkmath.LegacyNewDec(5), Timestamp: 1700000000, BlockHeight: 100})
		env.Oracle.SetPrice(ctx, otypes.Price{Asset: "USDC", Source: otypes.ELYS, Price: sdkmath.LegacyOneDec(), Timestamp: 1700000000, BlockHeight: 100})
	}
	for id := uint64(1); id <= 3; id++ {
		tag := string(rune('0' + id))
		la, lu := vrf.Int("atom"+tag), vrf.Int("usdc"+tag)
		vrf.Assume(la.IsPositive())
		vrf.Assume(lu.IsPositive())
		vrf.Assume(la.LTE(sdkmath.NewIntWithDecimal(1, 15)))
		vrf.Assume(lu.LTE(sdkmath.NewIntWithDecimal(1, 15)))
		addr := ammtypes.NewPoolAddress(id)
		env.Amm.SetPool(ctx, ammtypes.Pool{
			PoolId: id, Address: addr.String(), RebalanceTreasury: ammtypes.NewPoolRebalanceTreasury(id).String(),
			PoolParams:  ammtypes.PoolParams{UseOracle: false, SwapFee: sdkmath.LegacyZeroDec(), FeeDenom: "uusdc"},
			TotalShares: sdk.Coin{Denom: ammtypes.GetPoolShareDenom(id), Amount: sdkmath.NewInt(1000000)},
			PoolAssets: []ammtypes.PoolAsset{
				{Token: sdk.Coin{Denom: "uatom", Amount: la}, Weight: sdkmath.NewInt(1), ExternalLiquidityRatio: sdkmath.LegacyOneDec()},
				{Token: sdk.Coin{Denom: "uusdc", Amount: lu}, Weight: sdkmath.NewInt(1), ExternalLiquidityRatio: sdkmath.LegacyOneDec()},
			},
			TotalWeight: sdkmath.NewInt(2),
		})
		env.W.SetBal(addr, "uatom", la)
		env.W.SetBal(addr, "uusdc", lu)
	}
	return env
}

// Which pool routes a by-denom swap / prices a token when several pools hold the pair (ties in TVL included)
//vrf:product
//vrf:witnesses 0
//vrf:bound 3 constant-product pools with the same two assets, symbolic reserves <= 1e15, oracle prices present (5 and 1) or absent
func H_Amm_BestPoolAmongSeveral() {
	env := twoPools(vrf.Bool("pricesPresent"))
	p, found := env.Amm.GetBestPoolWithDenoms(env.Ctx, []string{"uatom", "uusdc"}, false)
	vrf.Observe("found", found)
	vrf.Observe("bestPool", p.PoolId)
	vrf.ObserveWorld()
}
