package h_c19

import (
	sdkmath "cosmossdk.io/math"
	sdk "github.com/cosmos/cosmos-sdk/types"
	ammtypes "github.com/elys-network/elys/x/amm/types"
	apkeeper "github.com/elys-network/elys/x/assetprofile/keeper"
	aptypes "github.com/elys-network/elys/x/assetprofile/types"
	otypes "github.com/elys-network/elys/x/oracle/types"
	ptypes "github.com/elys-network/elys/x/parameter/types"
	vrf "github.com/elys-network/elys/zzvrf"
	"github.com/elys-network/elys/zzvrf/wire"
)

// Scenarios with several objects of a kind, so that an iteration order can matter at all.

func twoPools(withPrices bool) *wire.Env {
	env := wire.New(wire.Opts{})
	env.Ctx = vrf.SetBlock(env.Ctx, 100, 1700000000)
	ctx := env.Ctx
	env.Amm.SetParams(ctx, ammtypes.DefaultParams())
	env.Aprof.SetEntry(ctx, aptypes.Entry{BaseDenom: ptypes.BaseCurrency, Denom: "uusdc", Decimals: 6})
	env.Aprof.SetEntry(ctx, aptypes.Entry{BaseDenom: "uatom", Denom: "uatom", Decimals: 6})
	env.Oracle.SetAssetInfo(ctx, otypes.AssetInfo{Denom: "uatom", Display: "ATOM", Decimal: 6})
	env.Oracle.SetAssetInfo(ctx, otypes.AssetInfo{Denom: "uusdc", Display: "USDC", Decimal: 6})
	if withPrices {
		env.Oracle.SetPrice(ctx, otypes.Price{Asset: "ATOM", Source: otypes.ELYS, Price: sdkmath.LegacyNewDec(5), Timestamp: 1700000000, BlockHeight: 100})
		env.Oracle.SetPrice(ctx, otypes.Price{Asset: "USDC", Source: otypes.ELYS, Price: sdkmath.LegacyOneDec(), Timestamp: 1700000000, BlockHeight: 100})
	}
	for id := uint64(1); id <= 3; id++ {
		tag := string(rune('0' + id))
		la, lu := vrf.Int("atom"+tag), vrf.Int("usdc"+tag)
		vrf.Assume(la.IsPositive())
		vrf.Assume(lu.IsPositive())
		vrf.Assume(la.LTE(sdkmath.NewIntWithDecimal(1, 15)))
		vrf.Assume(lu.LTE(sdkmath.NewIntWithDecimal(1, 15)))
		addr := ammtypes.NewPoolAddress(id)
		env.Amm.SetPool(ctx, ammtypes.Pool{
			PoolId: id, Address: addr.String(), RebalanceTreasury: ammtypes.NewPoolRebalanceTreasury(id).String(),
			PoolParams:  ammtypes.PoolParams{UseOracle: false, SwapFee: sdkmath.LegacyZeroDec(), FeeDenom: "uusdc"},
			TotalShares: sdk.Coin{Denom: ammtypes.GetPoolShareDenom(id), Amount: sdkmath.NewInt(1000000)},
			PoolAssets: []ammtypes.PoolAsset{
				{Token: sdk.Coin{Denom: "uatom", Amount: la}, Weight: sdkmath.NewInt(1), ExternalLiquidityRatio: sdkmath.LegacyOneDec()},
				{Token: sdk.Coin{Denom: "uusdc", Amount: lu}, Weight: sdkmath.NewInt(1), ExternalLiquidityRatio: sdkmath.LegacyOneDec()},
			},
			TotalWeight: sdkmath.NewInt(2),
		})
		env.W.SetBal(addr, "uatom", la)
		env.W.SetBal(addr, "uusdc", lu)
	}
	return env
}

// Which pool routes a by-denom swap / prices a token when several pools hold the pair (ties in TVL included)
//
//vrf:product
//vrf:witnesses 0
//vrf:bound 3 constant-product pools with the same two assets, symbolic reserves <= 1e15, oracle prices present (5 and 1) or absent
func H_Amm_BestPoolAmongSeveral() {
	env := twoPools(vrf.Bool("pricesPresent"))
	p, found := env.Amm.GetBestPoolWithDenoms(env.Ctx, []string{"uatom", "uusdc"}, false)
	vrf.Observe("found", found)
	vrf.Observe("bestPool", p.PoolId)
	vrf.ObserveWorld()
}

// The amm power function over a table of concrete bases and exponents that takes every branch of the approximation
// code (integer power, square root, Maclaurin series, exp/ln method incl. the base == 2 and base == 1 shortcuts,
// large and tiny bases; exact powers of two >= 4 are left out: the unchanged code cannot compute their logarithm and panics): run twice in the product, and no package-level constant of the module may have changed
// afterwards (a node that has evaluated one of these must compute the next swap like a node that has not).
//
//vrf:product
//vrf:witnesses 0
//vrf:bound 12 concrete (base, exponent) pairs covering the branches of Pow / powerApproximation; the check is on package-level state, not on the numeric results
func H_Amm_PowLeavesNoTrace() {
	tab := [][2]string{{"2", "0.3"}, {"2", "0.5"}, {"2", "1.7"}, {"1", "0.3"}, {"1.5", "0.25"}, {"0.75", "0.6"}, {"3", "0.3"}, {"0.3", "0.7"},
		{"10", "0.25"}, {"0.0001", "0.5"}, {"1000", "2.23"}, {"1.000001", "0.999"}}
	for i, r := range tab {
		b, e := sdkmath.LegacyMustNewDecFromStr(r[0]), sdkmath.LegacyMustNewDecFromStr(r[1])
		vrf.Observe("pow"+string(rune('a'+i)), ammtypes.Pow(b, e))
	}
	// and the same table again: every result must be what it was the first time
	for i, r := range tab {
		b, e := sdkmath.LegacyMustNewDecFromStr(r[0]), sdkmath.LegacyMustNewDecFromStr(r[1])
		vrf.Observe("again"+string(rune('a'+i)), ammtypes.Pow(b, e))
	}
}

// An asset-profile entry is looked up by denom, governance moves the entry to another denom, the old denom is looked
// up again: the answer comes from the store (a node restarted in between answers the same), and no keeper object keeps
// state of its own between the calls.
//
//vrf:product
//vrf:witnesses 0
//vrf:bound 2 asset-profile entries; look-ups by denom before and after a governance MsgUpdateEntry that changes one entry's denom (symbolic choice of which)
func H_Assetprofile_LookupByDenomAcrossUpdate() {
	env := wire.New(wire.Opts{})
	ctx := env.Ctx
	env.Aprof.SetEntry(ctx, aptypes.Entry{Authority: wire.Gov, BaseDenom: "uatom", Denom: "ibc/AAAA", Decimals: 6})
	env.Aprof.SetEntry(ctx, aptypes.Entry{Authority: wire.Gov, BaseDenom: ptypes.BaseCurrency, Denom: "uusdc", Decimals: 6})
	e0, f0 := env.Aprof.GetEntryByDenom(ctx, "ibc/AAAA")
	vrf.Observe("before-found", f0)
	vrf.Observe("before-base", e0.BaseDenom)
	base := "uatom"
	if vrf.Bool("updateUsdc") {
		base = ptypes.BaseCurrency
	}
	srv := apkeeper.NewMsgServerImpl(*env.Aprof)
	_, err := srv.UpdateEntry(ctx, &aptypes.MsgUpdateEntry{Authority: wire.Gov, BaseDenom: base, Denom: "ibc/BBBB", Decimals: 6})
	vrf.Observe("update-ok", err == nil)
	e1, f1 := env.Aprof.GetEntryByDenom(ctx, "ibc/AAAA")
	vrf.Observe("after-found", f1)
	vrf.Observe("after-base", e1.BaseDenom)
	stored, _ := env.Aprof.GetEntry(ctx, "uatom")
	vrf.Assert(f1 == (stored.Denom == "ibc/AAAA"), "C19 restart: a look-up by denom answers from the store (what a restarted node would answer)")
	e2, f2 := env.Aprof.GetEntryByDenom(ctx, "ibc/BBBB")
	vrf.Observe("new-found", f2)
	vrf.Observe("new-base", e2.BaseDenom)
}

// The tier module keys its daily portfolio records by calendar date: the date strings derived from the block time are
// the same on every node, whatever time zone the machine is set to.
//
//vrf:product
//vrf:witnesses 0
//vrf:bound block times 2025-03-10 20:00 UTC, 2025-03-11 02:30 UTC, 2024-02-29 23:59:59 UTC (symbolic choice; calendar arithmetic runs on concrete times); the date of the block and the dates 1 / 8 days before it as the tier keeper computes them
func H_Tier_PortfolioDates() {
	env := wire.New(wire.Opts{})
	now := int64(1741636800)
	switch vrf.I64("blockTimeChoice", 0, 2) {
	case 1:
		now = 1741660200
	case 2:
		now = 1709251199
	}
	env.Ctx = vrf.SetBlock(env.Ctx, 100, now)
	ctx := env.Ctx
	vrf.Observe("today", env.Tier.GetDateFromContext(ctx))
	vrf.Observe("yesterday", env.Tier.GetDateAfterDaysFromContext(ctx, -1))
	vrf.Observe("lastWeek", env.Tier.GetDateAfterDaysFromContext(ctx, -8))
}
