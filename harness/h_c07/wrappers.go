package h_c07

import "github.com/elys-network/elys/zzvrf/h_c08"

// The tier hooks run inside Bond / Unbond (AfterBond / AfterUnbond) and value the user's portfolio; the share-price
// obligations above leave them out under the frame contract that they write the tier store only. The contract is
// discharged on the real valuation code here (scenario in h_c08).

//vrf:cover valued
//vrf:bound see h_c08.H_Tier_PortfolioValuation_ReadOnly
//vrf:assert-prefix C07
//vrf:max-paths 3000
func H_TierHooks_BookNoInterest() { h_c08.H_Tier_PortfolioValuation_ReadOnly() }
