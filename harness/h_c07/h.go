// Package h_c07: vault shares are issued and redeemed at the fair rate and lending is
// capped. The real stablestake message server (Bond, Unbond), Borrow, Repay and
// interest accrual run over the real commitment / assetprofile / masterchef hook chain.
package h_c07

import (
	sdkmath "cosmossdk.io/math"
	sdk "github.com/cosmos/cosmos-sdk/types"
	authtypes "github.com/cosmos/cosmos-sdk/x/auth/types"
	aptypes "github.com/elys-network/elys/x/assetprofile/types"
	ctypes "github.com/elys-network/elys/x/commitment/types"
	sskeeper "github.com/elys-network/elys/x/stablestake/keeper"
	sstypes "github.com/elys-network/elys/x/stablestake/types"
	vrf "github.com/elys-network/elys/zzvrf"
	"github.com/elys-network/elys/zzvrf/wire"
)

var (
	alice   = sdk.AccAddress([]byte("alice_______________"))
	bob     = sdk.AccAddress([]byte("bob_________________"))
	modAddr = authtypes.NewModuleAddress(sstypes.ModuleName)
	commMod = authtypes.NewModuleAddress(ctypes.ModuleName)
)

const usdc = "uusdc"

type vault struct {
	env        *wire.Env
	tv, supply sdkmath.Int
	cash       sdkmath.Int
}

// setup: a vault with symbolic TotalValue, share supply and cash, redemption rate >= 1
// (TotalValue >= supply), all existing shares committed by bob.
func setup(maxSupply, maxTV sdkmath.Int) *vault {
	return setupWith(vrf.Int("TV"), vrf.Int("supply"), maxSupply, maxTV)
}

func setupWith(tv, supply, maxSupply, maxTV sdkmath.Int) *vault {
	env := wire.New(wire.Opts{})
	ctx := env.Ctx
	v := &vault{env: env}
	v.tv, v.supply, v.cash = tv, supply, vrf.Int("cash")
	vrf.Assume(v.supply.IsPositive())
	vrf.Assume(v.tv.GTE(v.supply)) // redemption rate >= 1, as the property states
	vrf.Assume(v.supply.LTE(maxSupply))
	vrf.Assume(v.tv.LTE(maxTV))
	vrf.Assume(!v.cash.IsNegative())
	vrf.Assume(v.cash.LTE(v.tv))
	p := sstypes.DefaultParams()
	p.TotalValue = v.tv
	env.Stable.SetParams(ctx, p)
	env.Comm.SetParams(ctx, ctypes.DefaultParams())
	share := sstypes.GetShareDenom()
	env.Aprof.SetEntry(ctx, aptypes.Entry{BaseDenom: share, Denom: share, Decimals: 6, CommitEnabled: true, WithdrawEnabled: true})
	env.W.Supply[share] = v.supply
	env.W.SetBal(modAddr, usdc, v.cash)
	// bob holds (committed) every existing share
	env.W.SetBal(commMod, share, v.supply)
	c := env.Comm.GetCommitments(ctx, bob)
	c.AddCommittedTokens(share, v.supply, 0)
	env.Comm.SetCommitments(ctx, c)
	return v
}

func big(exp int) sdkmath.Int { return sdkmath.NewIntWithDecimal(1, exp) }

type cfg struct{ tv, supply string }

// the configuration set of (TotalValue, share supply) pairs: rate 1, rates with infinite decimal
// expansion, tiny and huge vaults
var cfgs = []cfg{
	{"1", "1"},
	{"3", "2"},
	{"1000001", "1000000"},
	{"1333333333333333333", "1000000000000000000"},
	{"7000000000000000011", "3000000000000000000"},
	{"1237940039285380274899124225", "1152921504606846976"},
	{"10", "3"},
	{"999999999999999999", "999999999999999998"},
}

func mustInt(s string) sdkmath.Int {
	i, ok := sdkmath.NewIntFromString(s)
	if !ok {
		vrf.Fail("bad constant " + s)
	}
	return i
}

func v1(v *vault) {
	env, ctx := v.env, v.env.Ctx
	amt := vrf.Int("amt")
	vrf.Assume(amt.IsPositive())
	env.W.SetBal(alice, usdc, amt)
	srv := sskeeper.NewMsgServerImpl(*env.Stable)
	_, err := srv.Bond(ctx, &sstypes.MsgBond{Creator: alice.String(), Amount: amt})
	if err != nil {
		return
	}
	vrf.Cover("bond-ok")
	share := sstypes.GetShareDenom()
	minted := env.W.SupplyOf(share).Sub(v.supply)
	vrf.Observe("minted", minted)
	vrf.Assert(!minted.IsNegative(), "V1: bond never burns shares")
	if !minted.IsPositive() {
		return
	}
	_, err = srv.Unbond(ctx, &sstypes.MsgUnbond{Creator: alice.String(), Amount: minted})
	if err != nil {
		return
	}
	vrf.Cover("unbond-ok")
	payout := env.W.BalOf(alice, usdc)
	vrf.Observe("payout", payout)
	// one share's worth = TV'/supply' = (TV+amt)/(supply+minted); payout*S' <= (amt+1)*S' + TV'
	s2 := v.supply.Add(minted)
	tv2 := v.tv.Add(amt)
	vrf.Assert(payout.Mul(s2).LTE(amt.AddRaw(1).Mul(s2).Add(tv2)), "V1: bond->unbond returns <= deposit + one share's worth + 1")
}

func v2(v *vault) {
	env, ctx := v.env, v.env.Ctx
	amt := vrf.Int("amt")
	vrf.Assume(amt.IsPositive())
	env.W.SetBal(alice, usdc, amt)
	srv := sskeeper.NewMsgServerImpl(*env.Stable)
	_, err := srv.Bond(ctx, &sstypes.MsgBond{Creator: alice.String(), Amount: amt})
	if err != nil {
		return
	}
	vrf.Cover("bond-ok")
	share := sstypes.GetShareDenom()
	s2 := env.W.SupplyOf(share)
	tv2 := env.Stable.GetParams(ctx).TotalValue
	// bob's claim before: supply*TV/supply = TV ; after: supply*tv2/s2. Require supply*tv2 + tv2 >= (TV - 1)*s2
	vrf.Assert(v.supply.Mul(tv2).Add(tv2).GTE(v.tv.SubRaw(1).Mul(s2)), "V2: a bond does not dilute the other lenders beyond one share's worth + 1")
	vrf.Assert(tv2.Equal(v.tv.Add(amt)), "V2: the vault's value grows by exactly the deposit")
}

// Share supplies are bounded by 1e18 in the configuration set: the vault's rate has 18 decimal digits, so
// above that the rate's rounding alone is worth more than one base unit per lender (pre-triage: a
// configuration with 3e24 shares gave a genuine arithmetic counter-example to V2).

// V1: bond then immediately unbond the minted shares returns at most the deposit plus one
// share's worth plus one base unit. (TotalValue, supply) range over the configuration set, the
// deposit and the vault's cash are symbolic and unbounded. The fully symbolic form (symbolic
// TotalValue and supply) did not close within 300 s on any installed solver and is not registered.
//
//vrf:cover bond-ok unbond-ok
//vrf:bound (TotalValue, supply) in a configuration set of 8 pairs (rates 1, 1.5, 1.000001, 1.333.., 2.333.., 2^30.., 3.333.., 1+1e-18); deposit and cash symbolic, unbounded
//vrf:assert-ms 300000
func H_V1_BondThenUnbond() {
	i := vrf.I64("config", 0, int64(len(cfgs)-1))
	for k := range cfgs {
		if int64(k) == i {
			v1(setupWith(mustInt(cfgs[k].tv), mustInt(cfgs[k].supply), big(40), big(40)))
			return
		}
	}
}

// V2: a bond by alice does not reduce what bob's shares redeem for (beyond one share's worth + 1).
//
//vrf:cover bond-ok
//vrf:bound as V1 (configuration set); deposit symbolic, unbounded
func H_V2_BondDoesNotDiluteOthers() {
	i := vrf.I64("config", 0, int64(len(cfgs)-1))
	for k := range cfgs {
		if int64(k) == i {
			v2(setupWith(mustInt(cfgs[k].tv), mustInt(cfgs[k].supply), big(40), big(40)))
			return
		}
	}
}

// V2u: an unbond by alice does not reduce what bob's remaining shares redeem for.
//
//vrf:cover unbond-ok
//vrf:bound as V1 (configuration set); alice holds a symbolic part of the supply and unbonds a symbolic amount
func H_V2_UnbondDoesNotDiluteOthers() {
	i := vrf.I64("config", 0, int64(len(cfgs)-1))
	for k := range cfgs {
		if int64(k) != i {
			continue
		}
		v := setupWith(mustInt(cfgs[k].tv), mustInt(cfgs[k].supply), big(40), big(40))
		env, ctx := v.env, v.env.Ctx
		share := sstypes.GetShareDenom()
		// move part of bob's committed shares to alice
		mine := vrf.Int("aliceShares")
		vrf.Assume(mine.IsPositive())
		vrf.Assume(mine.LT(v.supply))
		cb := env.Comm.GetCommitments(ctx, bob)
		cb.CommittedTokens[0].Amount = v.supply.Sub(mine)
		env.Comm.SetCommitments(ctx, cb)
		ca := env.Comm.GetCommitments(ctx, alice)
		ca.AddCommittedTokens(share, mine, 0)
		env.Comm.SetCommitments(ctx, ca)
		out := vrf.Int("unbondShares")
		vrf.Assume(out.IsPositive())
		vrf.Assume(out.LTE(mine))
		vrf.Assume(v.cash.Equal(v.tv)) // enough cash to pay
		srv := sskeeper.NewMsgServerImpl(*env.Stable)
		if _, err := srv.Unbond(ctx, &sstypes.MsgUnbond{Creator: alice.String(), Amount: out}); err != nil {
			vrf.Observe("err", err.Error())
			vrf.Cover("unbond-err")
			return
		}
		vrf.Cover("unbond-ok")
		s2 := env.W.SupplyOf(share)
		tv2 := env.Stable.GetParams(ctx).TotalValue
		vrf.Assert(s2.Equal(v.supply.Sub(out)), "V2u: exactly the unbonded shares are burnt")
		// the remaining s2 shares were worth s2*TV/S and are now worth tv2:
		// tv2 >= s2*TV/S - (TV/S + 1)  <=>  tv2*S + TV + S >= s2*TV
		vrf.Assert(tv2.Mul(v.supply).Add(v.tv).Add(v.supply).GTE(s2.Mul(v.tv)), "V2u: an unbond does not dilute the remaining lenders beyond one share's worth + 1")
		// ... nor may it leave them a claim on value that is no longer there (the redemption rate must not jump up
		// either: the next to leave would be paid with the last lenders' money): tv2*S <= s2*TV + TV + S
		vrf.Assert(tv2.Mul(v.supply).LTE(s2.Mul(v.tv).Add(v.tv).Add(v.supply)), "V2u: an unbond does not inflate the remaining lenders' claim beyond one share's worth + 1")
		vrf.Assert(tv2.Equal(v.tv.Sub(env.W.BalOf(alice, usdc))), "V2u: the vault's value falls by exactly what the unbond pays out")
		return
	}
}

// V3: the redemption value of a share never falls because of accrual, repayment or borrowing
// (supply fixed, TotalValue must not decrease).
//
//vrf:cover accrue-ok repay-ok borrow-ok
//vrf:bound one debt, symbolic times/heights/rate
func H_V3_RateMonotone() {
	v := setup(big(30), big(40))
	env := v.env
	height := vrf.I64("height", 3, 1<<40)
	now := vrf.I64("now", 1000, 1<<40)
	env.Ctx = vrf.SetBlock(env.Ctx, height, now)
	ctx := env.Ctx
	b, is, ip := vrf.Int("borrowed"), vrf.Int("intStacked"), vrf.Int("intPaid")
	vrf.Assume(b.IsPositive())
	vrf.Assume(!is.IsNegative())
	vrf.Assume(!ip.IsNegative())
	vrf.Assume(ip.LTE(is))
	lastT := vrf.U64("lastCalcTime", 1, 1<<40)
	lastB := vrf.U64("lastCalcBlock", 1, 1<<40)
	vrf.Assume(int64(lastT) <= now)
	vrf.Assume(int64(lastB) <= height)
	env.Stable.SetDebt(ctx, sstypes.Debt{Address: alice.String(), Borrowed: b, InterestStacked: is, InterestPaid: ip,
		BorrowTime: lastT, LastInterestCalcTime: lastT, LastInterestCalcBlock: lastB})
	amt := vrf.Int("amt")
	vrf.Assume(amt.IsPositive())
	env.W.SetBal(alice, usdc, amt)
	switch vrf.I64("op", 0, 2) {
	case 0:
		env.Stable.UpdateInterestAndGetDebt(ctx, alice)
		vrf.Cover("accrue-ok")
	case 1:
		if env.Stable.Repay(ctx, alice, sdk.NewCoin(usdc, amt)) != nil {
			return
		}
		vrf.Cover("repay-ok")
	case 2:
		if env.Stable.Borrow(ctx, alice, sdk.NewCoin(usdc, amt)) != nil {
			return
		}
		vrf.Cover("borrow-ok")
	}
	vrf.Assert(env.Stable.GetParams(ctx).TotalValue.GTE(v.tv), "V3: TotalValue (hence the share price) never falls through accrual/repay/borrow")
	vrf.Assert(env.W.SupplyOf(sstypes.GetShareDenom()).Equal(v.supply), "V3: share supply untouched by borrowers")
}

// V4: a successful borrow leaves outstanding loans <= 90% of the vault's value.
//
//vrf:cover borrow-ok refused
//vrf:bound TotalValue, cash, amount unbounded
func H_V4_BorrowCap() {
	v := setup(big(40), big(40))
	env, ctx := v.env, v.env.Ctx
	amt := vrf.Int("amt")
	vrf.Assume(amt.IsPositive())
	err := env.Stable.Borrow(ctx, alice, sdk.NewCoin(usdc, amt))
	outstanding := v.tv.Sub(v.cash).Add(amt)
	if err != nil {
		vrf.Cover("refused")
		return
	}
	vrf.Cover("borrow-ok")
	vrf.Assert(outstanding.MulRaw(10).LTE(v.tv.MulRaw(9)), "V4: outstanding loans after a borrow <= 90% of TotalValue")
}

// V3 over consecutive blocks: a loan taken (or last accrued) in block H0, then the begin blockers of blocks H0+1 and
// H0+2 (epoch length 1..3, so the rate is recomputed in none, one or both of them; the utilisation may have changed in
// between because other users repaid or borrowed), then the lazy accrual at H0+2: the interest booked is never negative,
// so TotalValue (and with it every lender's redemption value) does not fall.
//
//vrf:cover accrued recomputed
//vrf:bound start block H0 symbolic with its interest block stored (cumulative value symbolic >= 0); 2 further blocks; epoch length in [1, 3]; stablestake params symbolic within Params.Validate(); cash after block H0 symbolic (other users' repayments / borrows); one debt
//vrf:max-paths 4000
//vrf:assert-ms 60000
func H_V3_RateMonotone_AcrossBlocks() {
	v := setup(big(30), big(40))
	env := v.env
	h0 := vrf.I64("H0", 3, 1<<40)
	t0 := vrf.I64("t0", 1000, 1<<40)
	env.Ctx = vrf.SetBlock(env.Ctx, h0, t0)
	ctx := env.Ctx
	p := env.Stable.GetParams(ctx)
	p.InterestRate, p.InterestRateMax, p.InterestRateMin = vrf.Dec("rate"), vrf.Dec("rateMax"), vrf.Dec("rateMin")
	p.InterestRateIncrease, p.InterestRateDecrease, p.HealthGainFactor = vrf.Dec("inc"), vrf.Dec("dec"), vrf.Dec("gain")
	p.EpochLength = vrf.I64("epochLength", 1, 3)
	vrf.Assume(p.Validate() == nil)
	vrf.Assume(p.InterestRate.GTE(p.InterestRateMin))
	vrf.Assume(p.InterestRate.LTE(p.InterestRateMax))
	env.Stable.SetParams(ctx, p)
	// the cumulative interest series up to and including H0 (no holes, as every begin blocker so far extended it)
	cum := vrf.Dec("cumulativeAtH0")
	vrf.Assume(cum.GTE(p.InterestRate))
	vrf.Assume(cum.LTE(sdkmath.LegacyNewDec(1 << 40)))
	env.Stable.SetInterest(ctx, uint64(h0), sstypes.InterestBlock{InterestRate: cum, BlockTime: t0, BlockHeight: uint64(h0)})
	b := vrf.Int("borrowed")
	vrf.Assume(b.IsPositive())
	vrf.Assume(b.LTE(v.tv.Sub(v.cash)))
	env.Stable.SetDebt(ctx, sstypes.Debt{Address: alice.String(), Borrowed: b, InterestStacked: sdkmath.ZeroInt(), InterestPaid: sdkmath.ZeroInt(),
		BorrowTime: uint64(t0), LastInterestCalcTime: uint64(t0), LastInterestCalcBlock: uint64(h0)})
	// block H0+1, after other users moved the utilisation
	cash1 := vrf.Int("cashAfterH0")
	vrf.Assume(!cash1.IsNegative())
	vrf.Assume(cash1.LTE(v.tv))
	env.W.SetBal(modAddr, usdc, cash1)
	t1 := vrf.I64("t1", 1000, 1<<40)
	t2 := vrf.I64("t2", 1000, 1<<40)
	vrf.Assume(t0 <= t1)
	vrf.Assume(t1 <= t2)
	env.Ctx = vrf.SetBlock(env.Ctx, h0+1, t1)
	env.Stable.BeginBlocker(env.Ctx)
	env.Ctx = vrf.SetBlock(env.Ctx, h0+2, t2)
	env.Stable.BeginBlocker(env.Ctx)
	if !env.Stable.GetParams(env.Ctx).InterestRate.Equal(p.InterestRate) {
		vrf.Cover("recomputed")
	}
	tv := env.Stable.GetParams(env.Ctx).TotalValue
	d := env.Stable.UpdateInterestAndGetDebt(env.Ctx, alice)
	vrf.Cover("accrued")
	vrf.Assert(!d.InterestStacked.IsNegative(), "V3: interest accrued over consecutive blocks is never negative")
	vrf.Assert(env.Stable.GetParams(env.Ctx).TotalValue.GTE(tv), "V3: TotalValue (hence the share price) never falls through interest accrual across blocks and epochs")
}
