// Package h_selftest: conformance of the engine's model of cosmossdk.io/math with
// the real library. The same function runs inside the interpreter (engine model,
// concrete inputs) and natively (real library); every observation must agree.
package h_selftest

import (
	sdkmath "cosmossdk.io/math"
	vrf "github.com/elys-network/elys/zzvrf"
)

func safeDec(name string, f func() sdkmath.LegacyDec) {
	defer func() {
		if r := recover(); r != nil {
			vrf.Observe(name, "panic")
		}
	}()
	vrf.Observe(name, f())
}

func safeInt(name string, f func() sdkmath.Int) {
	defer func() {
		if r := recover(); r != nil {
			vrf.Observe(name, "panic")
		}
	}()
	vrf.Observe(name, f())
}

func H_MathConformance() {
	a, b := vrf.Int("a"), vrf.Int("b")
	x, y := vrf.Dec("x"), vrf.Dec("y")
	vrf.Cover("ran")
	safeInt("int.add", func() sdkmath.Int { return a.Add(b) })
	safeInt("int.sub", func() sdkmath.Int { return a.Sub(b) })
	safeInt("int.mul", func() sdkmath.Int { return a.Mul(b) })
	safeInt("int.quo", func() sdkmath.Int { return a.Quo(b) })
	safeInt("int.neg", func() sdkmath.Int { return a.Neg() })
	safeInt("int.abs", func() sdkmath.Int { return a.Abs() })
	safeInt("int.min", func() sdkmath.Int { return sdkmath.MinInt(a, b) })
	safeInt("int.max", func() sdkmath.Int { return sdkmath.MaxInt(a, b) })
	safeInt("int.mulraw", func() sdkmath.Int { return a.MulRaw(7) })
	safeInt("int.quoraw", func() sdkmath.Int { return a.QuoRaw(7) })
	safeInt("int.addraw", func() sdkmath.Int { return a.AddRaw(-3) })
	vrf.Observe("int.lt", a.LT(b))
	vrf.Observe("int.lte", a.LTE(b))
	vrf.Observe("int.gt", a.GT(b))
	vrf.Observe("int.gte", a.GTE(b))
	vrf.Observe("int.eq", a.Equal(b))
	vrf.Observe("int.zero", a.IsZero())
	vrf.Observe("int.pos", a.IsPositive())
	vrf.Observe("int.neg?", a.IsNegative())
	vrf.Observe("int.sign", a.Sign())
	safeDec("int.todec", func() sdkmath.LegacyDec { return a.ToLegacyDec() })
	safeDec("dec.fromint", func() sdkmath.LegacyDec { return sdkmath.LegacyNewDecFromInt(a) })
	safeDec("dec.add", func() sdkmath.LegacyDec { return x.Add(y) })
	safeDec("dec.sub", func() sdkmath.LegacyDec { return x.Sub(y) })
	safeDec("dec.mul", func() sdkmath.LegacyDec { return x.Mul(y) })
	safeDec("dec.multrunc", func() sdkmath.LegacyDec { return x.MulTruncate(y) })
	safeDec("dec.quo", func() sdkmath.LegacyDec { return x.Quo(y) })
	safeDec("dec.quotrunc", func() sdkmath.LegacyDec { return x.QuoTruncate(y) })
	safeDec("dec.quoint", func() sdkmath.LegacyDec { return x.QuoInt(b) })
	safeDec("dec.quoint64", func() sdkmath.LegacyDec { return x.QuoInt64(-7) })
	safeDec("dec.mulint", func() sdkmath.LegacyDec { return x.MulInt(a) })
	safeDec("dec.mulint64", func() sdkmath.LegacyDec { return x.MulInt64(9) })
	safeDec("dec.neg", func() sdkmath.LegacyDec { return x.Neg() })
	safeDec("dec.abs", func() sdkmath.LegacyDec { return x.Abs() })
	safeDec("dec.ceil", func() sdkmath.LegacyDec { return x.Ceil() })
	safeDec("dec.truncdec", func() sdkmath.LegacyDec { return x.TruncateDec() })
	safeDec("dec.min", func() sdkmath.LegacyDec { return sdkmath.LegacyMinDec(x, y) })
	safeDec("dec.max", func() sdkmath.LegacyDec { return sdkmath.LegacyMaxDec(x, y) })
	safeDec("dec.power3", func() sdkmath.LegacyDec { return y.Power(3) })
	safeDec("dec.power0", func() sdkmath.LegacyDec { return y.Power(0) })
	safeDec("dec.sqrt", func() sdkmath.LegacyDec { r, _ := x.Abs().ApproxSqrt(); return r })
	safeDec("dec.root3", func() sdkmath.LegacyDec { r, _ := y.Abs().ApproxRoot(3); return r })
	safeDec("dec.sqrt1p", func() sdkmath.LegacyDec { r, _ := sdkmath.LegacyOneDec().Add(x.Abs().QuoInt64(1000000007)).ApproxSqrt(); return r })
	safeDec("dec.addmut", func() sdkmath.LegacyDec { c := x.Clone(); c.AddMut(y); return c })
	safeDec("dec.mulmut", func() sdkmath.LegacyDec { c := x.Clone(); c.MulMut(y); return c })
	safeInt("dec.truncint", func() sdkmath.Int { return x.TruncateInt() })
	safeInt("dec.roundint", func() sdkmath.Int { return x.RoundInt() })
	vrf.Observe("dec.lt", x.LT(y))
	vrf.Observe("dec.gte", x.GTE(y))
	vrf.Observe("dec.eq", x.Equal(y))
	vrf.Observe("dec.zero", x.IsZero())
	vrf.Observe("dec.pos", x.IsPositive())
	vrf.Observe("dec.isint", x.IsInteger())
}
