// Package h_c05: joining and exiting a pool cannot extract value from the other
// liquidity providers. Numeric obligations on the real share maths of
// x/amm/types; nothing about the function under check is summarised.
package h_c05

import (
	sdkmath "cosmossdk.io/math"
	sdk "github.com/cosmos/cosmos-sdk/types"
	ammtypes "github.com/elys-network/elys/x/amm/types"
	vrf "github.com/elys-network/elys/zzvrf"
)

type noAcc struct{}

func (noAcc) GetAccountedBalance(ctx sdk.Context, poolId uint64, denom string) sdkmath.Int {
	return sdkmath.ZeroInt()
}

type oracle struct {
	ammtypes.OracleKeeper
	pa, pu sdkmath.LegacyDec
}

func (o oracle) GetAssetPriceFromDenom(ctx sdk.Context, denom string) sdkmath.LegacyDec {
	if denom == "uatom" {
		return o.pa
	}
	return o.pu
}

func mkPool(la, lu, T sdkmath.Int, useOracle bool) ammtypes.Pool {
	return ammtypes.Pool{
		PoolId:      1,
		PoolParams:  ammtypes.PoolParams{UseOracle: useOracle, SwapFee: sdkmath.LegacyZeroDec()},
		TotalShares: sdk.Coin{Denom: "amm/pool/1", Amount: T},
		PoolAssets: []ammtypes.PoolAsset{
			{Token: sdk.Coin{Denom: "uatom", Amount: la}, Weight: sdkmath.NewInt(1), ExternalLiquidityRatio: sdkmath.LegacyOneDec()},
			{Token: sdk.Coin{Denom: "uusdc", Amount: lu}, Weight: sdkmath.NewInt(1), ExternalLiquidityRatio: sdkmath.LegacyOneDec()},
		},
		TotalWeight: sdkmath.NewInt(2),
	}
}

func symPool(useOracle bool) (ammtypes.Pool, sdkmath.Int, sdkmath.Int, sdkmath.Int) {
	la, lu, T := vrf.Int("Latom"), vrf.Int("Lusdc"), vrf.Int("T")
	vrf.Assume(la.IsPositive())
	vrf.Assume(lu.IsPositive())
	vrf.Assume(T.IsPositive())
	return mkPool(la, lu, T, useOracle), la, lu, T
}

// J1/X3 all-asset join: minted shares are at most pro-rata to what is actually used of every
// asset (shares*L_i <= used_i*T), never more is used than offered, and therefore the per-share
// backing of every asset does not decrease.
//
//vrf:cover join-ok
//vrf:bound 2 assets; reserves, share supply and offered amounts unbounded positive
func H_J1_AllAssetJoin() {
	pool, la, lu, T := symPool(false)
	ia, iu := vrf.Int("inAtom"), vrf.Int("inUsdc")
	vrf.Assume(ia.IsPositive())
	vrf.Assume(iu.IsPositive())
	shares, joined, err := pool.CalcJoinPoolNoSwapShares(sdk.Coins{{Denom: "uatom", Amount: ia}, {Denom: "uusdc", Amount: iu}})
	if err != nil {
		return
	}
	vrf.Cover("join-ok")
	ja, ju := joined.AmountOf("uatom"), joined.AmountOf("uusdc")
	vrf.Observe("shares", shares)
	vrf.Assert(ja.LTE(ia), "J1: used atom <= offered")
	vrf.Assert(ju.LTE(iu), "J1: used usdc <= offered")
	vrf.Assert(!shares.IsNegative(), "J1: shares >= 0")
	vrf.Assert(shares.Mul(la).LTE(ja.Mul(T)), "J1: shares*L_atom <= used_atom*T")
	vrf.Assert(shares.Mul(lu).LTE(ju.Mul(T)), "J1: shares*L_usdc <= used_usdc*T")
}

// X1/X3 all-asset exit: what is paid is at most the pro-rata claim of the exiting shares, every
// reserve stays positive and not all shares can be burnt.
//
//vrf:cover exit-ok
//vrf:bound 2 assets; reserves, supply, exiting shares unbounded positive
func H_X1_AllAssetExit() {
	pool, la, lu, T := symPool(false)
	s := vrf.Int("exitShares")
	vrf.Assume(s.IsPositive())
	var ctx sdk.Context
	coins, _, err := ammtypes.CalcExitPool(ctx, nil, pool, noAcc{}, s, "", ammtypes.DefaultParams())
	if err != nil {
		return
	}
	vrf.Cover("exit-ok")
	ea, eu := coins.AmountOf("uatom"), coins.AmountOf("uusdc")
	vrf.Observe("exitAtom", ea)
	vrf.Assert(s.LT(T), "X4: an exit never burns all shares")
	vrf.Assert(ea.Mul(T).LTE(s.Mul(la)), "X1: exit_atom*T <= s*L_atom")
	vrf.Assert(eu.Mul(T).LTE(s.Mul(lu)), "X1: exit_usdc*T <= s*L_usdc")
	vrf.Assert(ea.LT(la), "X4: atom reserve stays positive")
	vrf.Assert(eu.LT(lu), "X4: usdc reserve stays positive")
}

// X2 join then exit of the minted shares returns at most what was used, per asset.
//
//vrf:cover roundtrip-ok
//vrf:bound 2 assets; all amounts unbounded positive; real Pool.JoinPool (all-asset) then real Pool.ExitPool
//vrf:assert-ms 120000
func H_X2_JoinThenExit() {
	pool, _, _, _ := symPool(false)
	ia, iu := vrf.Int("inAtom"), vrf.Int("inUsdc")
	vrf.Assume(ia.IsPositive())
	vrf.Assume(iu.IsPositive())
	var ctx sdk.Context
	snap := pool
	joined, shares, _, _, err := pool.JoinPool(ctx, &snap, nil, noAcc{}, sdk.Coins{{Denom: "uatom", Amount: ia}, {Denom: "uusdc", Amount: iu}}, ammtypes.DefaultParams())
	if err != nil {
		return
	}
	out, err := pool.ExitPool(ctx, nil, noAcc{}, shares, "", ammtypes.DefaultParams())
	if err != nil {
		return
	}
	vrf.Cover("roundtrip-ok")
	vrf.Assert(out.AmountOf("uatom").LTE(joined.AmountOf("uatom")), "X2: join->exit returns <= used atom")
	vrf.Assert(out.AmountOf("uusdc").LTE(joined.AmountOf("uusdc")), "X2: join->exit returns <= used usdc")
}

// contract of GetWeightBreakingFee (clamped to [0, 0.99] by the code)
func sumWBF(a, b, c, d, e, f, g sdkmath.LegacyDec, params ammtypes.Params) sdkmath.LegacyDec {
	w := vrf.Dec("wbf")
	vrf.Assume(!w.IsNegative())
	vrf.Assume(w.LTE(sdkmath.LegacyNewDecWithPrec(99, 2)))
	return w
}

// X4 oracle pool, single-asset exit through the real Pool.ExitPool: the book reserve drops by
// exactly what is paid and stays positive.
//
//vrf:summary github.com/elys-network/elys/x/amm/types.GetWeightBreakingFee => sumWBF
//vrf:cover exit-ok
//vrf:bound oracle pool, 2 assets, symbolic oracle prices > 0, weight-breaking fee havocked in [0, 0.99]
//vrf:assert-ms 120000
func H_X4_OracleSingleAssetExit() {
	pool, _, lu, T := symPool(true)
	s := vrf.Int("exitShares")
	pa, pu := vrf.Dec("pAtom"), vrf.Dec("pUsdc")
	vrf.Assume(s.IsPositive())
	vrf.Assume(s.LT(T))
	vrf.Assume(pa.IsPositive())
	vrf.Assume(pu.IsPositive())
	ctx := vrf.NewCtx(vrf.NewWorld())
	coins, err := pool.ExitPool(ctx, oracle{pa: pa, pu: pu}, noAcc{}, s, "uusdc", ammtypes.DefaultParams())
	if err != nil {
		return
	}
	vrf.Cover("exit-ok")
	paid := coins.AmountOf("uusdc")
	after, _ := pool.GetAmmPoolBalance("uusdc")
	vrf.Observe("paid", paid)
	vrf.Assert(after.Equal(lu.Sub(paid)), "C05/C01: book reserve drops by exactly what is paid out")
	vrf.Assert(after.IsPositive(), "X4: an exit never takes a reserve to zero")
}

// X5 oracle pool, single-asset exit: what is paid out is worth, at the oracle prices, at most the exiting shares'
// pro-rata claim on the pool's value, up to one base unit of the paid asset (the weight-breaking fee can only lower it;
// an exit earns no weight-recovery bonus - nothing would fund it but the remaining liquidity providers):
// paid*pOut*T <= shares*(L_atom*pAtom + L_usdc*pUsdc) + pOut*T
//
//vrf:summary github.com/elys-network/elys/x/amm/types.GetWeightBreakingFee => sumWBF
//vrf:cover exit-ok
//vrf:bound oracle pool, 2 assets, reserves / supply <= 1e30, oracle prices in [1e-9, 1e9], weight-breaking fee havocked in [0, 0.99]
//vrf:assert-ms 120000
func H_X5_OracleSingleAssetExit_Value() {
	pool, la, lu, T := symPool(true)
	s := vrf.Int("exitShares")
	pa, pu := vrf.Dec("pAtom"), vrf.Dec("pUsdc")
	vrf.Assume(s.IsPositive())
	vrf.Assume(s.LT(T))
	big := sdkmath.NewIntWithDecimal(1, 30)
	for _, x := range []sdkmath.Int{la, lu, T} {
		vrf.Assume(x.LTE(big))
	}
	for _, p := range []sdkmath.LegacyDec{pa, pu} {
		vrf.Assume(p.GTE(sdkmath.LegacyNewDecWithPrec(1, 9)))
		vrf.Assume(p.LTE(sdkmath.LegacyNewDec(1_000_000_000)))
	}
	ctx := vrf.NewCtx(vrf.NewWorld())
	coins, err := pool.ExitPool(ctx, oracle{pa: pa, pu: pu}, noAcc{}, s, "uusdc", ammtypes.DefaultParams())
	if err != nil {
		return
	}
	vrf.Cover("exit-ok")
	paid := coins.AmountOf("uusdc")
	vrf.Observe("paid", paid)
	PA, PU := mant(pa), mant(pu)
	lhs := paid.Mul(PU).Mul(T)
	rhs := s.Mul(la.Mul(PA).Add(lu.Mul(PU))).Add(PU.Mul(T))
	vrf.Assert(lhs.LTE(rhs), "X5: an oracle single-asset exit pays at most the exiting shares' pro-rata claim at oracle prices (+ one base unit)")
}

// ---- J2: single-asset join of a constant-product pool ----

var (
	powCalls            int
	memoB, memoE, memoR sdkmath.LegacyDec // the contract is a function: same arguments, same result
	memoSet             bool
)

func e18i() sdkmath.Int { return sdkmath.NewIntWithDecimal(1, 18) }

// mant: the 18-digit mantissa of a LegacyDec as an Int (exact)
func mant(d sdkmath.LegacyDec) sdkmath.Int { return d.MulInt(e18i()).TruncateInt() }

// contract of powerApproximation(b, e) for the fractional exponent of a single-asset join.
// e = 1/2 (equal weights) takes LegacyDec.ApproxSqrt (Newton iteration on the 18-digit mantissa): the contract
// admits every r within 1e-16 of the real square root ((R-100)^2 <= B*1e18 <= (R+100)^2 on mantissas). Other
// fractional exponents get the Bernoulli enclosure of the real power within 1e-6. This is the "power
// approximation's precision" allowance of the property's statement, taken as an assumption about the series
// code (which loops on its input and is out of reach of the engine).
func sumPowApprox(base, exp sdkmath.LegacyDec) (sdkmath.LegacyDec, error) {
	if memoSet && base.Equal(memoB) && exp.Equal(memoE) {
		return memoR, nil
	}
	powCalls++
	r := vrf.Dec("powApprox" + string(rune('0'+powCalls)))
	memoB, memoE, memoR, memoSet = base, exp, r, true
	one := sdkmath.LegacyOneDec()
	vrf.Assume(r.IsPositive())
	if exp.Equal(sdkmath.LegacyNewDecWithPrec(5, 1)) {
		R, B := mant(r), mant(base)
		lo, hi := R.SubRaw(100), R.AddRaw(100)
		vrf.Assume(lo.IsPositive())
		vrf.Assume(lo.Mul(lo).LTE(B.Mul(e18i())))
		vrf.Assume(hi.Mul(hi).GTE(B.Mul(e18i())))
		return r, nil
	}
	tol := sdkmath.LegacyNewDecWithPrec(1, 6)
	if base.GTE(one) {
		x := base.Sub(one)
		vrf.Assume(r.LTE(one.Add(exp.Mul(x)).Add(tol)))
		vrf.Assume(r.Sub(one).Add(tol).Mul(base).GTE(exp.Mul(x)))
	} else {
		x := one.Sub(base)
		vrf.Assume(r.LTE(one.Sub(exp.Mul(x)).Add(tol)))
		vrf.Assume(one.Sub(r).Sub(tol).Mul(base).LTE(exp.Mul(x)))
	}
	return r, nil
}

// J2 single-asset join, equal weights, swap fee in [0, 2%]: the pool's invariant per share does not decrease,
// counting only the fee-reduced deposit a' = a*(1 - fee/2) (the other half of the fee stays with the pool):
// (T + s)^2 * L <= T^2 * (L + a'), up to the square root's precision (T*1e-15 + 2 share units).
//
//vrf:cover join-ok
//vrf:summary-rr github.com/elys-network/elys/x/amm/types.powerApproximation => sumPowApprox
//vrf:bound 2 assets, weights 1:1, constant-product pool; reserve and share supply symbolic <= 1e30, deposit <= 100 x reserve; fee in [0, 2%]; assumes ApproxSqrt is within 1e-16 of the real square root
//vrf:assert-ms 120000
func H_J2_SingleAssetJoin_1to1() {
	pool, la, _, T := symPool(false)
	j2(pool, la, T)
}

// J2 on a configuration set of (reserve, share supply) pairs, deposit and fee symbolic: the same obligations with
// fewer symbolic factors, so that a violation is found (and confirmed against the real square root) quickly
//
//vrf:cover join-ok
//vrf:summary-rr github.com/elys-network/elys/x/amm/types.powerApproximation => sumPowApprox
//vrf:bound as J2 with (L, T) in {(1e12, 1e18), (1e6, 1e20), (3e9, 7e18)}; deposit in [1, 100*L], fee in [0, 2%]
//vrf:assert-ms 60000
func H_J2_SingleAssetJoin_Configs() {
	cfgs := [][2]string{{"1000000000000", "1000000000000000000"}, {"1000000", "100000000000000000000"}, {"3000000000", "7000000000000000000"}}
	i := vrf.I64("config", 0, int64(len(cfgs)-1))
	for k := range cfgs {
		if int64(k) != i {
			continue
		}
		la, _ := sdkmath.NewIntFromString(cfgs[k][0])
		T, _ := sdkmath.NewIntFromString(cfgs[k][1])
		pool := mkPool(la, la, T, false)
		j2(pool, la, T)
		return
	}
}

func j2(pool ammtypes.Pool, la, T sdkmath.Int) {
	fee := vrf.Dec("fee")
	vrf.Assume(!fee.IsNegative())
	vrf.Assume(fee.LTE(sdkmath.LegacyNewDecWithPrec(2, 2)))
	pool.PoolParams.SwapFee = fee
	a := vrf.Int("inAtom")
	vrf.Assume(a.IsPositive())
	vrf.Assume(a.LTE(sdkmath.NewIntWithDecimal(1, 30)))
	vrf.Assume(la.LTE(sdkmath.NewIntWithDecimal(1, 30)))
	vrf.Assume(T.LTE(sdkmath.NewIntWithDecimal(1, 30)))
	vrf.Assume(a.LTE(la.MulRaw(100))) // y <= 101
	s, joined, err := pool.CalcSingleAssetJoinPoolShares(sdk.Coins{sdk.Coin{Denom: "uatom", Amount: a}})
	if err != nil {
		return
	}
	vrf.Cover("join-ok")
	vrf.Observe("shares", s)
	vrf.Assert(joined.AmountOf("uatom").Equal(a), "J2: exactly the offered amount is joined")
	// Obligations (all on 18-digit mantissas, sized so that nothing overflows natively):
	//   A1  (T + s - slack) * 1e18 <= T * (R - 1000)     the implementation mints at most T*(r - 1) shares, where
	//                                                     r = Pow((L + a')/L, 1/2) is what the real Pow returns
	//   A5  (R - 1000)^2 * L <= X * 1e18                  r (less 1000 ulp) is not above the true root of (L + a')/L
	// Squaring A1 and multiplying by A5 gives (T + s - slack)^2 * L <= T^2 * (L + a'): the invariant per share
	// does not decrease. slack = T*2e-15 + 2 share units covers the 1000 ulp taken off r.
	slack := T.QuoRaw(500_000_000_000_000).AddRaw(2)
	n := T.Add(s).Sub(slack)
	E := e18i()
	// the quantities the real code computed on the way, recomputed with the same operations (same operands give
	// the same rounded results): y = (L + a')/L and r = y^(1/2)
	half := sdkmath.LegacyOneDec().Quo(sdkmath.LegacyNewDec(2))
	fr := sdkmath.LegacyOneDec().Sub(sdkmath.LegacyOneDec().Sub(half).Mul(fee))
	ldec := sdkmath.LegacyNewDecFromInt(la)
	after := sdkmath.LegacyNewDecFromInt(a).Mul(fr)
	y := ldec.Add(after).Quo(ldec)
	R, Y := mant(ammtypes.Pow(y, half)), mant(y)
	X := mant(ldec.Add(after)) // mantissa of L + a'
	rho := R.SubRaw(1000)
	vrf.Assert(n.Mul(E).LTE(T.Mul(rho)), "J2 A1: minted shares <= T*(r - 1) up to the stated slack, r the real Pow of (L+a')/L (fee-reduced deposit)")
	vrf.Lemma(rho.Mul(rho).LTE(Y.Mul(E).Sub(R.MulRaw(899))), "J2 lemma 3: (R-1000)^2 <= Y*1e18 - 899*R   [from (R-100)^2 <= Y*1e18]")
	vrf.Lemma(Y.Mul(la).LTE(X.Add(la)), "J2 lemma 4: y = (L+a')/L rounded: Y*L <= X + L")
	vrf.Assert(rho.Mul(rho).Mul(la).LTE(X.Mul(E)), "J2 A5: (r - 1000 ulp)^2 <= (L+a')/L, so A1 squared gives (T+s)^2*L <= T^2*(L+a') up to the slack")
}

// J1 with an arbitrary list of two offered coins: each coin's denom is either pool asset (so the list may name the
// same asset twice, which per-coin message validation lets through). Whatever the list, minted shares are at most
// pro-rata to what is actually used of EVERY pool asset.
//
//vrf:cover join-ok refused
//vrf:bound 2 assets; a list of 2 offered coins whose denoms are chosen freely among the pool's assets (duplicates included); amounts, reserves, supply unbounded positive
func H_J1_AnyCoinList() {
	pool, la, lu, T := symPool(false)
	pick := func(tag string) string {
		if vrf.Bool("coin" + tag + "IsUsdc") {
			return "uusdc"
		}
		return "uatom"
	}
	d1, d2 := pick("1"), pick("2")
	i1, i2 := vrf.Int("in1"), vrf.Int("in2")
	vrf.Assume(i1.IsPositive())
	vrf.Assume(i2.IsPositive())
	shares, joined, err := pool.CalcJoinPoolNoSwapShares(sdk.Coins{{Denom: d1, Amount: i1}, {Denom: d2, Amount: i2}})
	if err != nil {
		vrf.Cover("refused")
		return
	}
	vrf.Cover("join-ok")
	ja, ju := joined.AmountOf("uatom"), joined.AmountOf("uusdc")
	vrf.Assert(shares.Mul(la).LTE(ja.Mul(T)), "J1 any list: shares*L_atom <= used_atom*T (every asset is contributed pro rata)")
	vrf.Assert(shares.Mul(lu).LTE(ju.Mul(T)), "J1 any list: shares*L_usdc <= used_usdc*T (every asset is contributed pro rata)")
}

// J3 oracle pool, single-asset join through the real Pool.JoinPool, priced against the pool's CURRENT value while the
// start-of-block snapshot it is handed (used for weights) is an arbitrary different state: the minted shares are worth
// at most the deposit at oracle prices, shares * TVL(pool now) <= T * value(deposit) + TVL (half a share unit of rounding).
//
//vrf:cover join-ok
//vrf:summary github.com/elys-network/elys/x/amm/types.GetWeightBreakingFee => sumWBF
//vrf:bound oracle pool, 2 assets, symbolic oracle prices > 0; current reserves / supply and the snapshot's reserves independent symbolic values; weight-breaking fee havocked in [0, 0.99]
//vrf:assert-ms 120000
func H_J3_OracleSingleAssetJoin() {
	pool, _, _, T := symPool(true)
	sa, su := vrf.Int("snapAtom"), vrf.Int("snapUsdc")
	vrf.Assume(sa.IsPositive())
	vrf.Assume(su.IsPositive())
	snap := mkPool(sa, su, T, true)
	a := vrf.Int("inAtom")
	vrf.Assume(a.IsPositive())
	pa, pu := vrf.Dec("pAtom"), vrf.Dec("pUsdc")
	vrf.Assume(pa.IsPositive())
	vrf.Assume(pu.IsPositive())
	ctx := vrf.NewCtx(vrf.NewWorld())
	o := oracle{pa: pa, pu: pu}
	tvl, terr := pool.TVL(ctx, o, noAcc{})
	if terr != nil {
		return
	}
	_, shares, _, _, err := pool.JoinPool(ctx, &snap, o, noAcc{}, sdk.Coins{sdk.Coin{Denom: "uatom", Amount: a}}, ammtypes.DefaultParams())
	if err != nil {
		return
	}
	vrf.Cover("join-ok")
	vrf.Observe("shares", shares)
	value := pa.MulInt(a)
	vrf.Assert(tvl.MulInt(shares).LTE(value.MulInt(T).Add(tvl)), "J3: shares minted by an oracle-pool single-asset join are worth at most the deposit at oracle prices (priced on the pool's current value)")
}
