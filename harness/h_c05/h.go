// Package h_c05: joining and exiting a pool cannot extract value from the other
// liquidity providers. Numeric obligations on the real share maths of
// x/amm/types; nothing about the function under check is summarised.
package h_c05

import (
	sdkmath "cosmossdk.io/math"
	sdk "github.com/cosmos/cosmos-sdk/types"
	ammtypes "github.com/elys-network/elys/x/amm/types"
	vrf "github.com/elys-network/elys/zzvrf"
)

type noAcc struct{}

func (noAcc) GetAccountedBalance(ctx sdk.Context, poolId uint64, denom string) sdkmath.Int {
	return sdkmath.ZeroInt()
}

type oracle struct {
	ammtypes.OracleKeeper
	pa, pu sdkmath.LegacyDec
}

func (o oracle) GetAssetPriceFromDenom(ctx sdk.Context, denom string) sdkmath.LegacyDec {
	if denom == "uatom" {
		return o.pa
	}
	return o.pu
}

func mkPool(la, lu, T sdkmath.Int, useOracle bool) ammtypes.Pool {
	return ammtypes.Pool{
		PoolId:      1,
		PoolParams:  ammtypes.PoolParams{UseOracle: useOracle, SwapFee: sdkmath.LegacyZeroDec()},
		TotalShares: sdk.Coin{Denom: "amm/pool/1", Amount: T},
		PoolAssets: []ammtypes.PoolAsset{
			{Token: sdk.Coin{Denom: "uatom", Amount: la}, Weight: sdkmath.NewInt(1), ExternalLiquidityRatio: sdkmath.LegacyOneDec()},
			{Token: sdk.Coin{Denom: "uusdc", Amount: lu}, Weight: sdkmath.NewInt(1), ExternalLiquidityRatio: sdkmath.LegacyOneDec()},
		},
		TotalWeight: sdkmath.NewInt(2),
	}
}

func symPool(useOracle bool) (ammtypes.Pool, sdkmath.Int, sdkmath.Int, sdkmath.Int) {
	la, lu, T := vrf.Int("Latom"), vrf.Int("Lusdc"), vrf.Int("T")
	vrf.Assume(la.IsPositive())
	vrf.Assume(lu.IsPositive())
	vrf.Assume(T.IsPositive())
	return mkPool(la, lu, T, useOracle), la, lu, T
}

// J1/X3 all-asset join: minted shares are at most pro-rata to what is actually used of every
// asset (shares*L_i <= used_i*T), never more is used than offered, and therefore the per-share
// backing of every asset does not decrease.
//vrf:cover join-ok
//vrf:bound 2 assets; reserves, share supply and offered amounts unbounded positive
func H_J1_AllAssetJoin() {
	pool, la, lu, T := symPool(false)
	ia, iu := vrf.Int("inAtom"), vrf.Int("inUsdc")
	vrf.Assume(ia.IsPositive())
	vrf.Assume(iu.IsPositive())
	shares, joined, err := pool.CalcJoinPoolNoSwapShares(sdk.Coins{{Denom: "uatom", Amount: ia}, {Denom: "uusdc", Amount: iu}})
	if err != nil {
		return
	}
	vrf.Cover("join-ok")
	ja, ju := joined.AmountOf("uatom"), joined.AmountOf("uusdc")
	vrf.Observe("shares", shares)
	vrf.Assert(ja.LTE(ia), "J1: used atom <= offered")
	vrf.Assert(ju.LTE(iu), "J1: used usdc <= offered")
	vrf.Assert(!shares.IsNegative(), "J1: shares >= 0")
	vrf.Assert(shares.Mul(la).LTE(ja.Mul(T)), "J1: shares*L_atom <= used_atom*T")
	vrf.Assert(shares.Mul(lu).LTE(ju.Mul(T)), "J1: shares*L_usdc <= used_usdc*T")
}

// X1/X3 all-asset exit: what is paid is at most the pro-rata claim of the exiting shares, every
// reserve stays positive and not all shares can be burnt.
//vrf:cover exit-ok
//vrf:bound 2 assets; reserves, supply, exiting shares unbounded positive
func H_X1_AllAssetExit() {
	pool, la, lu, T := symPool(false)
	s := vrf.Int("exitShares")
	vrf.Assume(s.IsPositive())
	var ctx sdk.Context
	coins, _, err := ammtypes.CalcExitPool(ctx, nil, pool, noAcc{}, s, "", ammtypes.DefaultParams())
	if err != nil {
		return
	}
	vrf.Cover("exit-ok")
	ea, eu := coins.AmountOf("uatom"), coins.AmountOf("uusdc")
	vrf.Observe("exitAtom", ea)
	vrf.Assert(s.LT(T), "X4: an exit never burns all shares")
	vrf.Assert(ea.Mul(T).LTE(s.Mul(la)), "X1: exit_atom*T <= s*L_atom")
	vrf.Assert(eu.Mul(T).LTE(s.Mul(lu)), "X1: exit_usdc*T <= s*L_usdc")
	vrf.Assert(ea.LT(la), "X4: atom reserve stays positive")
	vrf.Assert(eu.LT(lu), "X4: usdc reserve stays positive")
}

// X2 join then exit of the minted shares returns at most what was used, per asset.
//vrf:cover roundtrip-ok
//vrf:bound 2 assets; all amounts unbounded positive; real Pool.JoinPool (all-asset) then real Pool.ExitPool
//vrf:assert-ms 120000
func H_X2_JoinThenExit() {
	pool, _, _, _ := symPool(false)
	ia, iu := vrf.Int("inAtom"), vrf.Int("inUsdc")
	vrf.Assume(ia.IsPositive())
	vrf.Assume(iu.IsPositive())
	var ctx sdk.Context
	snap := pool
	joined, shares, _, _, err := pool.JoinPool(ctx, &snap, nil, noAcc{}, sdk.Coins{{Denom: "uatom", Amount: ia}, {Denom: "uusdc", Amount: iu}}, ammtypes.DefaultParams())
	if err != nil {
		return
	}
	out, err := pool.ExitPool(ctx, nil, noAcc{}, shares, "", ammtypes.DefaultParams())
	if err != nil {
		return
	}
	vrf.Cover("roundtrip-ok")
	vrf.Assert(out.AmountOf("uatom").LTE(joined.AmountOf("uatom")), "X2: join->exit returns <= used atom")
	vrf.Assert(out.AmountOf("uusdc").LTE(joined.AmountOf("uusdc")), "X2: join->exit returns <= used usdc")
}

// contract of GetWeightBreakingFee (clamped to [0, 0.99] by the code)
func sumWBF(a, b, c, d, e, f, g sdkmath.LegacyDec, params ammtypes.Params) sdkmath.LegacyDec {
	w := vrf.Dec("wbf")
	vrf.Assume(!w.IsNegative())
	vrf.Assume(w.LTE(sdkmath.LegacyNewDecWithPrec(99, 2)))
	return w
}

// X4 oracle pool, single-asset exit through the real Pool.ExitPool: the book reserve drops by
// exactly what is paid and stays positive.
//vrf:summary github.com/elys-network/elys/x/amm/types.GetWeightBreakingFee => sumWBF
//vrf:cover exit-ok
//vrf:bound oracle pool, 2 assets, symbolic oracle prices > 0, weight-breaking fee havocked in [0, 0.99]
//vrf:assert-ms 120000
func H_X4_OracleSingleAssetExit() {
	pool, _, lu, T := symPool(true)
	s := vrf.Int("exitShares")
	pa, pu := vrf.Dec("pAtom"), vrf.Dec("pUsdc")
	vrf.Assume(s.IsPositive())
	vrf.Assume(s.LT(T))
	vrf.Assume(pa.IsPositive())
	vrf.Assume(pu.IsPositive())
	ctx := vrf.NewCtx(vrf.NewWorld())
	coins, err := pool.ExitPool(ctx, oracle{pa: pa, pu: pu}, noAcc{}, s, "uusdc", ammtypes.DefaultParams())
	if err != nil {
		return
	}
	vrf.Cover("exit-ok")
	paid := coins.AmountOf("uusdc")
	after, _ := pool.GetAmmPoolBalance("uusdc")
	vrf.Observe("paid", paid)
	vrf.Assert(after.Equal(lu.Sub(paid)), "C05/C01: book reserve drops by exactly what is paid out")
	vrf.Assert(after.IsPositive(), "X4: an exit never takes a reserve to zero")
}
