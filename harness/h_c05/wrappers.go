package h_c05

import "github.com/elys-network/elys/zzvrf/h_c02"

// The keeper entry point around the pool's share maths: whatever share amount a join message asks for, the keeper
// mints what Pool.JoinPool returned and takes what it joined (scenarios in h_c02, labels "C05 keeper join").

//vrf:summary (*github.com/elys-network/elys/x/amm/types.Pool).JoinPool => h_c02.SumPoolJoin
//vrf:cover join-ok
//vrf:bound see h_c02.H_K1_KeeperJoin_AllAssets
//vrf:assert-prefix C05
func H_K1_KeeperJoin_AllAssets() { h_c02.H_K1_KeeperJoin_AllAssets() }

//vrf:summary (*github.com/elys-network/elys/x/amm/types.Pool).JoinPool => h_c02.SumPoolJoin
//vrf:cover join-ok
//vrf:bound see h_c02.H_K1_KeeperJoin_SingleAsset
//vrf:assert-prefix C05
func H_K1_KeeperJoin_SingleAsset() { h_c02.H_K1_KeeperJoin_SingleAsset() }
