// Package h_c13: every credited liquidity-provider reward can be paid. Decomposed into
// (R1) the accrual algebra — what a credit adds to all holders' claimable amounts never
// exceeds the credited amount, a deposit made after a credit earns nothing from it, a claim
// pays what is pending and zeroes it — and (R2) funds versus credit — the coins that reach
// the masterchef account in a block are at least what is credited to LPs for it.
package h_c13

import (
	sdkmath "cosmossdk.io/math"
	sdk "github.com/cosmos/cosmos-sdk/types"
	authtypes "github.com/cosmos/cosmos-sdk/x/auth/types"
	ammkeeper "github.com/elys-network/elys/x/amm/keeper"
	ammtypes "github.com/elys-network/elys/x/amm/types"
	aptypes "github.com/elys-network/elys/x/assetprofile/types"
	ctypes "github.com/elys-network/elys/x/commitment/types"
	estypes "github.com/elys-network/elys/x/estaking/types"
	mckeeper "github.com/elys-network/elys/x/masterchef/keeper"
	mctypes "github.com/elys-network/elys/x/masterchef/types"
	ptypes "github.com/elys-network/elys/x/parameter/types"
	perptypes "github.com/elys-network/elys/x/perpetual/types"
	sskeeper "github.com/elys-network/elys/x/stablestake/keeper"
	sstypes "github.com/elys-network/elys/x/stablestake/types"
	vrf "github.com/elys-network/elys/zzvrf"
	"github.com/elys-network/elys/zzvrf/wire"
)

var (
	alice    = sdk.AccAddress([]byte("alice_______________"))
	bob      = sdk.AccAddress([]byte("bob_________________"))
	mcAddr   = authtypes.NewModuleAddress(mctypes.ModuleName)
	feeColl  = authtypes.NewModuleAddress(authtypes.FeeCollectorName)
	perpAddr = authtypes.NewModuleAddress(perptypes.ModuleName)
	revenue1 = ammtypes.NewPoolRevenueAddress(1)
)

const usdc = "uusdc"

func base() *wire.Env {
	env := wire.New(wire.Opts{})
	ctx := env.Ctx
	env.Aprof.SetEntry(ctx, aptypes.Entry{BaseDenom: ptypes.BaseCurrency, Denom: usdc, Decimals: 6, CommitEnabled: true, WithdrawEnabled: true})
	env.Comm.SetParams(ctx, ctypes.DefaultParams())
	env.Amm.SetParams(ctx, ammtypes.DefaultParams())
	return env
}

// symbolic masterchef and estaking parameters, constrained only by their own Validate()
func symParams(env *wire.Env) mctypes.Params {
	p := mctypes.DefaultParams()
	p.RewardPortionForLps = vrf.Dec("portionLps")
	p.RewardPortionForStakers = vrf.Dec("portionStakers")
	vrf.Assume(p.Validate() == nil)
	env.Mc.SetParams(env.Ctx, p)
	ep := estypes.DefaultParams()
	ep.ProviderStakingRewardsPortion = vrf.Dec("providerPortion")
	vrf.Assume(ep.Validate() == nil)
	env.Estaking.SetParams(env.Ctx, ep)
	return p
}

func pool1(env *wire.Env) {
	pool := ammtypes.Pool{
		PoolId: 1, Address: ammtypes.NewPoolAddress(1).String(), RebalanceTreasury: ammtypes.NewPoolRebalanceTreasury(1).String(),
		PoolParams:  ammtypes.PoolParams{UseOracle: false, SwapFee: sdkmath.LegacyZeroDec(), FeeDenom: usdc},
		TotalShares: sdk.Coin{Denom: ammtypes.GetPoolShareDenom(1), Amount: sdkmath.NewInt(1000000)},
		PoolAssets: []ammtypes.PoolAsset{
			{Token: sdk.Coin{Denom: "uatom", Amount: sdkmath.NewInt(1000)}, Weight: sdkmath.NewInt(1)},
			{Token: sdk.Coin{Denom: usdc, Amount: sdkmath.NewInt(1000)}, Weight: sdkmath.NewInt(1)},
		},
		TotalWeight: sdkmath.NewInt(2),
	}
	env.Amm.SetPool(env.Ctx, pool)
}

// R2a: CollectDEXRevenue — what stays in the masterchef account is at least the LP portion it records
// for the pool, and it neither errors nor panics for any validated parameter setting.
//
//vrf:cover collected
//vrf:bound 1 amm pool; pool revenue (uusdc) symbolic >= 0; LP/staker/provider portions symbolic within Params.Validate()
func H_R2_CollectDEXRevenue() {
	env := base()
	ctx := env.Ctx
	symParams(env)
	pool1(env)
	rev := vrf.Int("poolRevenue")
	vrf.Assume(!rev.IsNegative())
	env.W.SetBal(revenue1, usdc, rev)
	m0 := vrf.Int("masterchefBefore")
	vrf.Assume(!m0.IsNegative())
	env.W.SetBal(mcAddr, usdc, m0)
	panicked := true
	var err error
	var perPool map[uint64]sdkmath.LegacyDec
	func() {
		defer func() { recover() }()
		_, _, perPool, err = env.Mc.CollectDEXRevenue(ctx)
		panicked = false
	}()
	vrf.Assert(!panicked, "C18/C13: CollectDEXRevenue never panics (it runs in the end blocker)")
	if panicked {
		return
	}
	vrf.Assert(err == nil, "C18/C13: CollectDEXRevenue never fails (its error is returned by the end blocker)")
	if err != nil {
		return
	}
	vrf.Cover("collected")
	gain := env.W.BalOf(mcAddr, usdc).Sub(m0)
	credited, ok := perPool[1]
	if !ok {
		credited = sdkmath.LegacyZeroDec()
	}
	vrf.Observe("gain", gain)
	vrf.Assert(sdkmath.LegacyNewDecFromInt(gain).GTE(credited), "C13-R2: funds kept by masterchef >= LP portion credited for the pool")
}

// R2a over two pools with revenue: what is recorded for the pools adds up to at most what masterchef keeps, and each
// pool's figure is its own LP portion (not a running total over the pools iterated before it).
//
//vrf:cover collected
//vrf:bound 2 amm pools with symbolic revenue (uusdc) >= 0 at their revenue addresses; LP/staker/provider portions symbolic within Params.Validate()
//vrf:assert-ms 60000
func H_R2_CollectDEXRevenue_TwoPools() {
	env := base()
	ctx := env.Ctx
	mp := symParams(env)
	pool1(env)
	p2, _ := env.Amm.GetPool(ctx, 1)
	p2.PoolId, p2.Address, p2.RebalanceTreasury = 2, ammtypes.NewPoolAddress(2).String(), ammtypes.NewPoolRebalanceTreasury(2).String()
	p2.TotalShares.Denom = ammtypes.GetPoolShareDenom(2)
	env.Amm.SetPool(ctx, p2)
	r1, r2 := vrf.Int("poolRevenue"), vrf.Int("poolRevenue2")
	vrf.Assume(!r1.IsNegative())
	vrf.Assume(!r2.IsNegative())
	vrf.Assume(r1.LTE(sdkmath.NewIntWithDecimal(1, 30)))
	vrf.Assume(r2.LTE(sdkmath.NewIntWithDecimal(1, 30)))
	env.W.SetBal(revenue1, usdc, r1)
	env.W.SetBal(ammtypes.NewPoolRevenueAddress(2), usdc, r2)
	env.W.SetBal(mcAddr, usdc, sdkmath.ZeroInt())
	panicked := true
	var err error
	var perPool map[uint64]sdkmath.LegacyDec
	func() {
		defer func() { recover() }()
		_, _, perPool, err = env.Mc.CollectDEXRevenue(ctx)
		panicked = false
	}()
	vrf.Assert(!panicked, "C18/C13: CollectDEXRevenue never panics (it runs in the end blocker)")
	if panicked || err != nil {
		vrf.Assert(err == nil, "C18/C13: CollectDEXRevenue never fails (its error is returned by the end blocker)")
		return
	}
	vrf.Cover("collected")
	get := func(id uint64) sdkmath.LegacyDec {
		if v, ok := perPool[id]; ok {
			return v
		}
		return sdkmath.LegacyZeroDec()
	}
	gain := env.W.BalOf(mcAddr, usdc)
	vrf.Assert(sdkmath.LegacyNewDecFromInt(gain).GTE(get(1).Add(get(2))), "C13-R2: funds kept by masterchef >= the LP portions recorded for all pools together")
	// each pool's figure is at most the LP portion of its own revenue
	vrf.Assert(get(1).LTE(mp.RewardPortionForLps.MulInt(r1)), "C13-R2: pool 1 is credited at most the LP portion of its own revenue")
	vrf.Assert(get(2).LTE(mp.RewardPortionForLps.MulInt(r2)), "C13-R2: pool 2 is credited at most the LP portion of its own revenue")
}

// R2b: CollectGasFees (fee collector holds uusdc).
//
//vrf:cover collected
//vrf:bound gas fees in uusdc only (no conversion swap); portions symbolic within Validate()
func H_R2_CollectGasFees() {
	env := base()
	ctx := env.Ctx
	symParams(env)
	fees := vrf.Int("gasFees")
	vrf.Assume(!fees.IsNegative())
	env.W.SetBal(feeColl, usdc, fees)
	m0 := vrf.Int("masterchefBefore")
	vrf.Assume(!m0.IsNegative())
	env.W.SetBal(mcAddr, usdc, m0)
	panicked := true
	var err error
	var forLps sdk.DecCoins
	func() {
		defer func() { recover() }()
		forLps, err = env.Mc.CollectGasFees(ctx, usdc)
		panicked = false
	}()
	vrf.Assert(!panicked, "C18/C13: CollectGasFees never panics")
	if panicked {
		return
	}
	vrf.Assert(err == nil, "C18/C13: CollectGasFees never fails")
	if err != nil {
		return
	}
	vrf.Cover("collected")
	gain := env.W.BalOf(mcAddr, usdc).Sub(m0)
	// what UpdateLPRewards later credits is the truncated LP share
	vrf.Assert(gain.GTE(forLps.AmountOf(usdc).TruncateInt()), "C13-R2: funds kept by masterchef >= LP share of gas fees")
}

// R2c: CollectPerpRevenue (perpetual module account holds uusdc).
//
//vrf:cover collected
//vrf:bound perpetual revenue in uusdc only; portions symbolic within Validate()
func H_R2_CollectPerpRevenue() {
	env := base()
	ctx := env.Ctx
	symParams(env)
	fees := vrf.Int("perpRevenue")
	vrf.Assume(!fees.IsNegative())
	env.W.SetBal(perpAddr, usdc, fees)
	m0 := vrf.Int("masterchefBefore")
	vrf.Assume(!m0.IsNegative())
	env.W.SetBal(mcAddr, usdc, m0)
	panicked := true
	var err error
	var forLps sdk.DecCoins
	func() {
		defer func() { recover() }()
		forLps, err = env.Mc.CollectPerpRevenue(ctx, usdc)
		panicked = false
	}()
	vrf.Assert(!panicked, "C18/C13: CollectPerpRevenue never panics")
	if panicked {
		return
	}
	// with an empty masterchef account the staker transfer may fail: that is the defect the next assertion is about
	if err != nil {
		vrf.Cover("failed")
		return
	}
	vrf.Cover("collected")
	gain := env.W.BalOf(mcAddr, usdc).Sub(m0)
	vrf.Assert(gain.GTE(forLps.AmountOf(usdc).TruncateInt()), "C13-R2: funds kept by masterchef >= LP share of perpetual revenue")
}

// ---- R1 accrual algebra ----

type lp struct {
	env       *wire.Env
	a, b, tot sdkmath.Int
}

// two explicit holders plus a symbolic remainder: committed_a + committed_b <= TotalCommitted
func lpSetup() *lp {
	env := base()
	ctx := env.Ctx
	env.Mc.SetParams(ctx, mctypes.DefaultParams())
	pool1(env)
	env.Mc.InitPoolParams(ctx, 1)
	share := ammtypes.GetPoolShareDenom(1)
	s := &lp{env: env, a: vrf.Int("committedA"), b: vrf.Int("committedB"), tot: vrf.Int("totalCommitted")}
	vrf.Assume(s.a.IsPositive())
	vrf.Assume(s.b.IsPositive())
	vrf.Assume(s.a.Add(s.b).LTE(s.tot))
	vrf.Assume(s.tot.LTE(sdkmath.NewIntWithDecimal(1, 30)))
	ca := env.Comm.GetCommitments(ctx, alice)
	ca.AddCommittedTokens(share, s.a, 0)
	env.Comm.SetCommitments(ctx, ca)
	cb := env.Comm.GetCommitments(ctx, bob)
	cb.AddCommittedTokens(share, s.b, 0)
	env.Comm.SetCommitments(ctx, cb)
	cp := env.Comm.GetParams(ctx)
	cp.TotalCommitted = sdk.Coins{sdk.NewCoin(share, s.tot)}
	env.Comm.SetParams(ctx, cp)
	// both holders are checkpointed at the current accumulator (arbitrary value)
	acc0 := vrf.Dec("acc0")
	vrf.Assume(!acc0.IsNegative())
	env.Mc.SetPoolRewardInfo(ctx, mctypes.PoolRewardInfo{PoolId: 1, RewardDenom: usdc, PoolAccRewardPerShare: acc0, LastUpdatedBlock: 1})
	env.Mc.UpdateUserRewardDebt(ctx, 1, usdc, alice)
	env.Mc.UpdateUserRewardDebt(ctx, 1, usdc, bob)
	return s
}

// R1a: one credit adds at most the credited amount to the holders' claimable rewards, and both claims succeed
// when the masterchef account holds the credited amount.
//
//vrf:cover claimed
//vrf:bound 2 holders + symbolic remainder, TotalCommitted <= 1e30, credit amount and accumulator symbolic
//vrf:assert-ms 120000
func H_R1_CreditBoundsClaims() {
	s := lpSetup()
	env, ctx := s.env, s.env.Ctx
	amt := vrf.Int("credit")
	vrf.Assume(amt.IsPositive())
	env.W.SetBal(mcAddr, usdc, amt) // exactly what was collected for this credit
	env.Mc.UpdateAccPerShare(ctx, 1, usdc, amt)
	// (alice names the pool twice in her claim: it is paid once)
	errA := env.Mc.ClaimRewards(ctx, alice, []uint64{1, 1}, alice)
	errB := env.Mc.ClaimRewards(ctx, bob, []uint64{1}, bob)
	vrf.Assert(errA == nil, "C13-R1: first claim succeeds")
	vrf.Assert(errB == nil, "C13-R1: second claim succeeds whatever the order")
	vrf.Cover("claimed")
	paid := env.W.BalOf(alice, usdc).Add(env.W.BalOf(bob, usdc))
	vrf.Observe("paid", paid)
	vrf.Assert(paid.LTE(amt), "C13-R1: total claimed from one credit <= credited amount")
	// a second claim pays nothing
	before := env.W.BalOf(alice, usdc)
	_ = env.Mc.ClaimRewards(ctx, alice, []uint64{1}, alice)
	vrf.Assert(env.W.BalOf(alice, usdc).Equal(before), "C13-R1: a claim zeroes what was pending")
}

// R1b: shares committed after a credit earn nothing from it.
//
//vrf:cover claimed
//vrf:bound as R1a; alice deposits a symbolic amount after the credit (commitment + AfterDeposit hook)
//vrf:assert-ms 120000
func H_R1_LateDepositEarnsNothing() {
	s := lpSetup()
	env, ctx := s.env, s.env.Ctx
	amt, extra := vrf.Int("credit"), vrf.Int("lateDeposit")
	vrf.Assume(amt.IsPositive())
	vrf.Assume(extra.IsPositive())
	env.W.SetBal(mcAddr, usdc, amt)
	env.Mc.UpdateAccPerShare(ctx, 1, usdc, amt)
	info, _ := env.Mc.GetPoolRewardInfo(ctx, 1, usdc)
	acc0 := vrf.Dec("acc0_again") // unused: keeps names distinct in the model
	_ = acc0
	// late deposit: the committed balance grows, then the hook runs
	share := ammtypes.GetPoolShareDenom(1)
	ca := env.Comm.GetCommitments(ctx, alice)
	ca.AddCommittedTokens(share, extra, 0)
	env.Comm.SetCommitments(ctx, ca)
	env.Mc.AfterDeposit(ctx, 1, alice, extra)
	if env.Mc.ClaimRewards(ctx, alice, []uint64{1}, alice) != nil {
		return
	}
	vrf.Cover("claimed")
	paid := env.W.BalOf(alice, usdc)
	// alice's entitlement from the credit is at most a/tot of it
	vrf.Assert(paid.Mul(s.tot).LTE(amt.Mul(s.a)), "C13-R1: a deposit made after a credit earns nothing from it")
	_ = info
}

// ---- R1 through the real stablestake entry points (hook arguments included) ----

type vaultLp struct {
	env        *wire.Env
	a, tot, tv sdkmath.Int
	credit     sdkmath.Int
}

// a vault whose shares are all committed (alice a, the others tot-a), redemption rate >= 1, the masterchef
// stable pool credited once with `credit` uusdc that sit in the masterchef account; alice checkpointed before it
func vaultSetup() *vaultLp {
	env := base()
	ctx := env.Ctx
	env.Mc.SetParams(ctx, mctypes.DefaultParams())
	env.Mc.InitStableStakePoolParams(ctx, sstypes.PoolId)
	share := sstypes.GetShareDenom()
	env.Aprof.SetEntry(ctx, aptypes.Entry{BaseDenom: share, Denom: share, Decimals: 6, CommitEnabled: true, WithdrawEnabled: true})
	s := &vaultLp{env: env, a: vrf.Int("committedA"), tot: vrf.Int("totalCommitted"), tv: vrf.Int("TV"), credit: vrf.Int("credit")}
	vrf.Assume(s.a.IsPositive())
	vrf.Assume(s.a.LTE(s.tot))
	vrf.Assume(s.tot.LTE(sdkmath.NewIntWithDecimal(1, 18)))
	vrf.Assume(s.tv.GTE(s.tot)) // redemption rate >= 1
	vrf.Assume(s.tv.LTE(sdkmath.NewIntWithDecimal(1, 24)))
	vrf.Assume(s.credit.IsPositive())
	p := sstypes.DefaultParams()
	p.TotalValue = s.tv
	env.Stable.SetParams(ctx, p)
	env.W.Supply[share] = s.tot
	env.W.SetBal(authtypes.NewModuleAddress(ctypes.ModuleName), share, s.tot)
	env.W.SetBal(authtypes.NewModuleAddress(sstypes.ModuleName), usdc, s.tv) // fully liquid vault
	ca := env.Comm.GetCommitments(ctx, alice)
	ca.AddCommittedTokens(share, s.a, 0)
	env.Comm.SetCommitments(ctx, ca)
	cp := env.Comm.GetParams(ctx)
	cp.TotalCommitted = sdk.Coins{sdk.NewCoin(share, s.tot)}
	env.Comm.SetParams(ctx, cp)
	acc0 := vrf.Dec("acc0")
	vrf.Assume(!acc0.IsNegative())
	env.Mc.SetPoolRewardInfo(ctx, mctypes.PoolRewardInfo{PoolId: sstypes.PoolId, RewardDenom: usdc, PoolAccRewardPerShare: acc0, LastUpdatedBlock: 1})
	env.Mc.UpdateUserRewardDebt(ctx, sstypes.PoolId, usdc, alice)
	env.W.SetBal(mcAddr, usdc, s.credit)
	env.Mc.UpdateAccPerShare(ctx, sstypes.PoolId, usdc, s.credit)
	return s
}

// R1c: a holder who unbonds after a credit (at any redemption rate >= 1) has earned from that credit at most the
// pro-rata share of the shares she held when it was made: paid * total <= credit * a.
//
//vrf:cover claimed
//vrf:bound vault with share supply <= 1e18 all committed, TotalValue in [supply, 1e24]; 1 holder + symbolic remainder; symbolic credit, accumulator and unbond amount
//vrf:assert-ms 120000
func H_R1_UnbondAfterCredit() {
	s := vaultSetup()
	env, ctx := s.env, s.env.Ctx
	x := vrf.Int("unbondShares")
	vrf.Assume(x.IsPositive())
	vrf.Assume(x.LTE(s.a))
	srv := sskeeper.NewMsgServerImpl(*env.Stable)
	w0 := env.W.BalOf(alice, usdc)
	if _, err := srv.Unbond(ctx, &sstypes.MsgUnbond{Creator: alice.String(), Amount: x}); err != nil {
		return
	}
	redeemed := env.W.BalOf(alice, usdc).Sub(w0)
	if env.Mc.ClaimRewards(ctx, alice, []uint64{sstypes.PoolId}, alice) != nil {
		return
	}
	vrf.Cover("claimed")
	paid := env.W.BalOf(alice, usdc).Sub(w0).Sub(redeemed)
	vrf.Observe("paid", paid)
	vrf.Assert(paid.Mul(s.tot).LTE(s.credit.Mul(s.a)), "C13-R1: an unbond after a credit earns at most the pro-rata share of the shares held at the credit")
	vrf.Assert(paid.LTE(s.credit), "C13-R1: never more than the credited amount is claimable")
}

// R1d: shares bonded after a credit earn nothing from it.
//
//vrf:cover claimed
//vrf:bound as R1c; a bond of a symbolic amount after the credit
//vrf:assert-ms 120000
func H_R1_BondAfterCredit() {
	s := vaultSetup()
	env, ctx := s.env, s.env.Ctx
	amt := vrf.Int("bondAmount")
	vrf.Assume(amt.IsPositive())
	env.W.SetBal(alice, usdc, amt)
	srv := sskeeper.NewMsgServerImpl(*env.Stable)
	if _, err := srv.Bond(ctx, &sstypes.MsgBond{Creator: alice.String(), Amount: amt}); err != nil {
		return
	}
	w0 := env.W.BalOf(alice, usdc)
	if env.Mc.ClaimRewards(ctx, alice, []uint64{sstypes.PoolId}, alice) != nil {
		return
	}
	vrf.Cover("claimed")
	paid := env.W.BalOf(alice, usdc).Sub(w0)
	vrf.Observe("paid", paid)
	vrf.Assert(paid.Mul(s.tot).LTE(s.credit.Mul(s.a)), "C13-R1: a bond made after a credit earns nothing from it")
}

// ---- R1 through the amm join / exit state changes (hook arguments included) ----

// R1e: LP shares minted by a join after a credit earn nothing from it (the amm's real join state change: bank move,
// share mint + commit, AfterJoinPool hook chain with the amounts the amm passes)
//
//vrf:cover claimed
//vrf:bound as R1a; a join of a symbolic share amount after the credit through amm.ApplyJoinPoolStateChange
//vrf:assert-ms 120000
func H_R1_JoinAfterCredit() {
	s := lpSetup()
	env, ctx := s.env, s.env.Ctx
	share := ammtypes.GetPoolShareDenom(1)
	env.Aprof.SetEntry(ctx, aptypes.Entry{BaseDenom: share, Denom: share, Decimals: 18, CommitEnabled: true, WithdrawEnabled: true})
	env.W.Supply[share] = s.tot
	env.W.SetBal(authtypes.NewModuleAddress(ctypes.ModuleName), share, s.tot)
	amt, shares, in := vrf.Int("credit"), vrf.Int("sharesMinted"), vrf.Int("joinUsdc")
	vrf.Assume(amt.IsPositive())
	vrf.Assume(shares.IsPositive())
	vrf.Assume(in.IsPositive())
	env.W.SetBal(mcAddr, usdc, amt)
	env.Mc.UpdateAccPerShare(ctx, 1, usdc, amt)
	env.W.SetBal(alice, usdc, in)
	pool, _ := env.Amm.GetPool(ctx, 1)
	coins := sdk.Coins{sdk.NewCoin(usdc, in)}
	if err := pool.IncreaseLiquidity(shares, coins); err != nil {
		return
	}
	if err := env.Amm.ApplyJoinPoolStateChange(ctx, pool, alice, shares, coins, sdkmath.LegacyZeroDec()); err != nil {
		return
	}
	w0 := env.W.BalOf(alice, usdc)
	if env.Mc.ClaimRewards(ctx, alice, []uint64{1}, alice) != nil {
		return
	}
	vrf.Cover("claimed")
	paid := env.W.BalOf(alice, usdc).Sub(w0)
	vrf.Observe("paid", paid)
	vrf.Assert(paid.Mul(s.tot).LTE(amt.Mul(s.a)), "C13-R1: shares minted by a join after a credit earn nothing from it")
}

// R1f: an exit after a credit earns at most the pro-rata share of the shares held at the credit
//
//vrf:cover claimed
//vrf:bound as R1a; an exit of a symbolic share amount after the credit through amm.ApplyExitPoolStateChange
//vrf:assert-ms 120000
func H_R1_ExitAfterCredit() {
	s := lpSetup()
	env, ctx := s.env, s.env.Ctx
	share := ammtypes.GetPoolShareDenom(1)
	env.Aprof.SetEntry(ctx, aptypes.Entry{BaseDenom: share, Denom: share, Decimals: 18, CommitEnabled: true, WithdrawEnabled: true})
	env.W.Supply[share] = s.tot
	env.W.SetBal(authtypes.NewModuleAddress(ctypes.ModuleName), share, s.tot)
	amt, x := vrf.Int("credit"), vrf.Int("sharesBurnt")
	vrf.Assume(amt.IsPositive())
	vrf.Assume(x.IsPositive())
	vrf.Assume(x.LTE(s.a))
	env.W.SetBal(mcAddr, usdc, amt)
	env.Mc.UpdateAccPerShare(ctx, 1, usdc, amt)
	pool, _ := env.Amm.GetPool(ctx, 1)
	vrf.Assume(x.LT(pool.TotalShares.Amount))
	pool.TotalShares.Amount = pool.TotalShares.Amount.Sub(x)
	if err := env.Amm.ApplyExitPoolStateChange(ctx, pool, alice, x, sdk.Coins{}, false); err != nil {
		return
	}
	w0 := env.W.BalOf(alice, usdc)
	if env.Mc.ClaimRewards(ctx, alice, []uint64{1}, alice) != nil {
		return
	}
	vrf.Cover("claimed")
	paid := env.W.BalOf(alice, usdc).Sub(w0)
	vrf.Observe("paid", paid)
	vrf.Assert(paid.Mul(s.tot).LTE(amt.Mul(s.a)), "C13-R1: an exit after a credit earns at most the pro-rata share of the shares held at the credit")
}

// ---- R3: external incentives ----

func sumPoolTVL(k mckeeper.Keeper, ctx sdk.Context, poolId uint64) sdkmath.LegacyDec {
	t := vrf.Dec("poolTVL")
	vrf.Assume(!t.IsNegative())
	return t
}

func sumTokenPrice(k ammkeeper.Keeper, ctx sdk.Context, denom, baseCurrency string) sdkmath.LegacyDec {
	p := vrf.Dec("tokenPrice")
	vrf.Assume(!p.IsNegative())
	return p
}

// R3: one end-block distribution of an external incentive in a denom not yet registered on the pool, with the pool's
// TVL arbitrary (zero during an oracle outage): a deposit made right after it earns nothing from it, i.e. the denom
// is registered so that the depositor is checkpointed.
//
//vrf:cover credited claimed
//vrf:summary (github.com/elys-network/elys/x/masterchef/keeper.Keeper).GetPoolTVL => sumPoolTVL
//vrf:summary (github.com/elys-network/elys/x/amm/keeper.Keeper).GetTokenPrice => sumTokenPrice
//vrf:bound 1 pool, 1 external incentive in a new denom (symbolic amount per block, block window), pool TVL and token price havocked >= 0; 2 holders + symbolic remainder, then a deposit by a third account
//vrf:assert-ms 120000
func H_R3_ExternalIncentive_NewDenom() {
	s := lpSetup()
	env := s.env
	h := vrf.I64("height", 2, 1<<40)
	env.Ctx = vrf.SetBlock(env.Ctx, h, 1000)
	ctx := env.Ctx
	env.Param.SetParams(ctx, ptypes.DefaultParams())
	from, to := vrf.I64("fromBlock", 0, 1<<40), vrf.I64("toBlock", 1, 1<<40)
	per := vrf.Int("amountPerBlock")
	vrf.Assume(per.IsPositive())
	vrf.Assume(per.LTE(sdkmath.NewIntWithDecimal(1, 30)))
	env.Mc.SetExternalIncentive(ctx, mctypes.ExternalIncentive{Id: 0, RewardDenom: "uinc", PoolId: 1, FromBlock: from, ToBlock: to, AmountPerBlock: per, Apr: sdkmath.LegacyZeroDec()})
	env.W.SetBal(mcAddr, "uinc", per) // this block's instalment is funded
	env.Mc.ProcessExternalRewardsDistribution(ctx)
	info, found := env.Mc.GetPoolRewardInfo(ctx, 1, "uinc")
	if !found || !info.PoolAccRewardPerShare.IsPositive() {
		return // outside the window: nothing credited
	}
	vrf.Cover("credited")
	registered := false
	for _, d := range env.Mc.GetRewardDenoms(ctx, 1) {
		if d == "uinc" {
			registered = true
		}
	}
	vrf.Assert(registered, "C13-R3: a denom that has been credited to a pool is one of its reward denoms (later deposits get checkpointed)")
	// carol, who held nothing, deposits after the credit and claims
	carol := sdk.AccAddress([]byte("carol_______________"))
	extra := vrf.Int("lateDeposit")
	vrf.Assume(extra.IsPositive())
	share := ammtypes.GetPoolShareDenom(1)
	cc := env.Comm.GetCommitments(ctx, carol)
	cc.AddCommittedTokens(share, extra, 0)
	env.Comm.SetCommitments(ctx, cc)
	env.Mc.AfterDeposit(ctx, 1, carol, extra)
	if env.Mc.ClaimRewards(ctx, carol, []uint64{1}, carol) != nil {
		return
	}
	vrf.Cover("claimed")
	vrf.Assert(env.W.BalOf(carol, "uinc").IsZero(), "C13-R3: a deposit made after an external-incentive credit earns nothing from it")
}

// R1g: a claim on behalf of another recipient (what leveragelp does when it closes a position: sender = the
// position's address with no shares left, recipient = the owner): the sender's pending amount is paid once and its
// record is settled; the RECIPIENT's own accrual record (he is an LP of the same pool) is not touched, so his later
// claim is still bounded by his pro-rata share.
//
//vrf:cover claimed
//vrf:bound as R1a; alice is the sender with a symbolic positive pending amount and no committed shares, bob the recipient with committed shares and a checkpoint
//vrf:assert-ms 120000
func H_R1_ClaimForAnotherRecipient() {
	s := lpSetup()
	env, ctx := s.env, s.env.Ctx
	amt := vrf.Int("credit")
	vrf.Assume(amt.IsPositive())
	env.W.SetBal(mcAddr, usdc, amt.MulRaw(2))
	env.Mc.UpdateAccPerShare(ctx, 1, usdc, amt)
	// alice has left the pool since (her shares went through the withdraw hook): pending is what she accrued
	share := ammtypes.GetPoolShareDenom(1)
	ca := env.Comm.GetCommitments(ctx, alice)
	ca.CommittedTokens = nil
	env.Comm.SetCommitments(ctx, ca)
	env.Mc.AfterWithdraw(ctx, 1, alice, s.a)
	_ = share
	bobBefore, foundB := env.Mc.GetUserRewardInfo(ctx, bob, 1, usdc)
	vrf.Assert(foundB, "setup: the recipient has an accrual record")
	if err := env.Mc.ClaimRewards(ctx, alice, []uint64{1}, bob); err != nil {
		return
	}
	vrf.Cover("claimed")
	paidToBob := env.W.BalOf(bob, usdc)
	vrf.Assert(paidToBob.Mul(s.tot).LTE(amt.Mul(s.a)), "C13-R1: a claim for another recipient pays at most the sender's pro-rata share")
	bobAfter, stillThere := env.Mc.GetUserRewardInfo(ctx, bob, 1, usdc)
	vrf.Assert(stillThere, "C13-R1: the recipient's own accrual record survives a claim made on his behalf")
	if stillThere {
		vrf.Assert(bobAfter.RewardDebt.Equal(bobBefore.RewardDebt), "C13-R1: the recipient's checkpoint is unchanged by a claim made on his behalf")
	}
	// the sender's pending amount cannot be claimed a second time
	before := env.W.BalOf(bob, usdc)
	_ = env.Mc.ClaimRewards(ctx, alice, []uint64{1}, bob)
	vrf.Assert(env.W.BalOf(bob, usdc).Equal(before), "C13-R1: the sender's pending amount is paid once")
	// and bob's own claim is still bounded by his share
	if env.Mc.ClaimRewards(ctx, bob, []uint64{1}, bob) == nil {
		own := env.W.BalOf(bob, usdc).Sub(before)
		vrf.Assert(own.Mul(s.tot).LTE(amt.Mul(s.b)), "C13-R1: the recipient's own claim is still at most his pro-rata share")
	}
}
