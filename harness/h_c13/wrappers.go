package h_c13

import "github.com/elys-network/elys/zzvrf/h_c18"

// the masterchef end blocker's distribution over two pools: the total credited for a block is bounded by what the
// collectors reported for it (scenario in h_c18, labels "C13 ...")

//vrf:summary (github.com/elys-network/elys/x/masterchef/keeper.Keeper).CollectGasFees => h_c18.SumCollectDecRec
//vrf:summary (github.com/elys-network/elys/x/masterchef/keeper.Keeper).CollectPerpRevenue => h_c18.SumCollectDecRec
//vrf:summary (github.com/elys-network/elys/x/masterchef/keeper.Keeper).CollectDEXRevenue => h_c18.SumCollectDexRec
//vrf:summary (github.com/elys-network/elys/x/masterchef/keeper.Keeper).GetPoolTVL => h_c18.SumPoolTVL
//vrf:summary (github.com/elys-network/elys/x/masterchef/keeper.Keeper).UpdateAccPerShare => h_c18.SumRecordCredit
//vrf:summary (github.com/elys-network/elys/x/amm/keeper.Keeper).GetEdenDenomPrice => h_c18.SumEdenPricePositive
//vrf:summary (github.com/elys-network/elys/x/amm/keeper.Keeper).GetTokenPrice => h_c18.SumTokenPrice
//vrf:cover done credited
//vrf:bound see h_c18.H_Masterchef_Distribution_CreditBounded
//vrf:max-paths 4000
//vrf:assert-ms 60000
//vrf:assert-prefix C13
func H_R2_Distribution_CreditBounded() { h_c18.H_Masterchef_Distribution_CreditBounded() }
