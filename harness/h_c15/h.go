package h_c15

import (
	sdkmath "cosmossdk.io/math"
	sdk "github.com/cosmos/cosmos-sdk/types"
	ammtypes "github.com/elys-network/elys/x/amm/types"
	vrf "github.com/elys-network/elys/zzvrf"
	"github.com/elys-network/elys/zzvrf/wire"
)

// The amm v8 -> v9 store migration (x/amm/migrations.V9Migration -> Keeper.MatchAmmBalances),
// run on a non-oracle pool whose book and bank holding are arbitrary.
//vrf:cover book-above-bank book-below-bank book-equals-bank
//vrf:bound 1 non-oracle pool x 2 assets, book and bank amounts unbounded
func H_AmmMigration_MatchAmmBalances() {
	env := wire.New(wire.Opts{})
	ctx := env.Ctx
	poolAddr := ammtypes.NewPoolAddress(1)
	ba, bu := vrf.Int("bookAtom"), vrf.Int("bookUsdc")
	ha, hu := vrf.Int("bankAtom"), vrf.Int("bankUsdc")
	for _, x := range []sdkmath.Int{ba, bu, ha, hu} {
		vrf.Assume(x.IsPositive())
	}
	env.Amm.SetPool(ctx, ammtypes.Pool{
		PoolId: 1, Address: poolAddr.String(), RebalanceTreasury: ammtypes.NewPoolRebalanceTreasury(1).String(),
		PoolParams:  ammtypes.PoolParams{UseOracle: false, SwapFee: sdkmath.LegacyZeroDec(), FeeDenom: "uusdc"},
		TotalShares: sdk.Coin{Denom: ammtypes.GetPoolShareDenom(1), Amount: sdkmath.NewInt(1000)},
		PoolAssets: []ammtypes.PoolAsset{
			{Token: sdk.Coin{Denom: "uatom", Amount: ba}, Weight: sdkmath.NewInt(1)},
			{Token: sdk.Coin{Denom: "uusdc", Amount: bu}, Weight: sdkmath.NewInt(1)},
		},
		TotalWeight: sdkmath.NewInt(2),
	})
	env.W.SetBal(poolAddr, "uatom", ha)
	env.W.SetBal(poolAddr, "uusdc", hu)
	env.W.Supply["uatom"] = ha
	env.W.Supply["uusdc"] = hu
	if err := env.Amm.MatchAmmBalances(ctx); err != nil {
		return
	}
	switch {
	case bu.GT(hu):
		vrf.Cover("book-above-bank")
	case bu.LT(hu):
		vrf.Cover("book-below-bank")
	default:
		vrf.Cover("book-equals-bank")
	}
	vrf.CheckSupply()
	vrf.AssertExcept(env.W.SupplyOf("uusdc").Equal(hu), "C15: the supply of the base stablecoin is unchanged by the amm migration", "C15-amm-migration-mints", true)
	vrf.AssertExcept(env.W.SupplyOf("uatom").Equal(ha), "C15: the supply of a traded asset is unchanged by the amm migration", "C15-amm-migration-mints", true)
}
