package h_c15

import (
	sdkmath "cosmossdk.io/math"
	sdk "github.com/cosmos/cosmos-sdk/types"
	authtypes "github.com/cosmos/cosmos-sdk/x/auth/types"
	ammkeeper "github.com/elys-network/elys/x/amm/keeper"
	ammtypes "github.com/elys-network/elys/x/amm/types"
	aptypes "github.com/elys-network/elys/x/assetprofile/types"
	ctypes "github.com/elys-network/elys/x/commitment/types"
	vrf "github.com/elys-network/elys/zzvrf"
	"github.com/elys-network/elys/zzvrf/wire"
)

// The amm v8 -> v9 store migration (x/amm/migrations.V9Migration -> Keeper.MatchAmmBalances),
// run on a non-oracle pool whose book and bank holding are arbitrary.
//
//vrf:cover book-above-bank book-below-bank book-equals-bank
//vrf:bound 1 non-oracle pool x 2 assets, book and bank amounts unbounded
func H_AmmMigration_MatchAmmBalances() {
	env := wire.New(wire.Opts{})
	ctx := env.Ctx
	poolAddr := ammtypes.NewPoolAddress(1)
	ba, bu := vrf.Int("bookAtom"), vrf.Int("bookUsdc")
	ha, hu := vrf.Int("bankAtom"), vrf.Int("bankUsdc")
	for _, x := range []sdkmath.Int{ba, bu, ha, hu} {
		vrf.Assume(x.IsPositive())
	}
	env.Amm.SetPool(ctx, ammtypes.Pool{
		PoolId: 1, Address: poolAddr.String(), RebalanceTreasury: ammtypes.NewPoolRebalanceTreasury(1).String(),
		PoolParams:  ammtypes.PoolParams{UseOracle: false, SwapFee: sdkmath.LegacyZeroDec(), FeeDenom: "uusdc"},
		TotalShares: sdk.Coin{Denom: ammtypes.GetPoolShareDenom(1), Amount: sdkmath.NewInt(1000)},
		PoolAssets: []ammtypes.PoolAsset{
			{Token: sdk.Coin{Denom: "uatom", Amount: ba}, Weight: sdkmath.NewInt(1)},
			{Token: sdk.Coin{Denom: "uusdc", Amount: bu}, Weight: sdkmath.NewInt(1)},
		},
		TotalWeight: sdkmath.NewInt(2),
	})
	env.W.SetBal(poolAddr, "uatom", ha)
	env.W.SetBal(poolAddr, "uusdc", hu)
	env.W.Supply["uatom"] = ha
	env.W.Supply["uusdc"] = hu
	if err := env.Amm.MatchAmmBalances(ctx); err != nil {
		return
	}
	switch {
	case bu.GT(hu):
		vrf.Cover("book-above-bank")
	case bu.LT(hu):
		vrf.Cover("book-below-bank")
	default:
		vrf.Cover("book-equals-bank")
	}
	vrf.CheckSupply()
	vrf.AssertExcept(env.W.SupplyOf("uusdc").Equal(hu), "C15: the supply of the base stablecoin is unchanged by the amm migration", "C15-amm-migration-mints", true)
	vrf.AssertExcept(env.W.SupplyOf("uatom").Equal(ha), "C15: the supply of a traded asset is unchanged by the amm migration", "C15-amm-migration-mints", true)
}

// A claim that releases both the native token and a non-native vesting denom (a second vesting
// program whose payout the module was pre-funded with): only the native part may be minted.
//
//vrf:cover claimed
//vrf:bound 2 vesting entries (uelys and uusdc vesting denoms), totals, claimed amounts, heights symbolic
func H_ClaimVesting_MixedDenoms() {
	env := wire.New(wire.Opts{})
	h := vrf.I64("height", 1, 1<<40)
	env.Ctx = vrf.SetBlock(env.Ctx, h, 1000)
	ctx := env.Ctx
	env.Comm.SetParams(ctx, ctypes.DefaultParams())
	alice := sdk.AccAddress([]byte("alice_______________"))
	mod := authtypes.NewModuleAddress(ctypes.ModuleName)
	var toks []*ctypes.VestingTokens
	for _, d := range []string{"uelys", "uusdc"} {
		tot, cl := vrf.Int("total_"+d), vrf.Int("claimed_"+d)
		start, n := vrf.I64("start_"+d, 1, 1<<40), vrf.I64("numBlocks_"+d, 1, 1<<40)
		vrf.Assume(tot.IsPositive())
		vrf.Assume(!cl.IsNegative())
		vrf.Assume(cl.LT(tot))
		vrf.Assume(h >= start)
		toks = append(toks, &ctypes.VestingTokens{Denom: d, TotalAmount: tot, ClaimedAmount: cl, StartBlock: start, NumBlocks: n, VestStartedTimestamp: 1})
		if d == "uusdc" {
			env.W.SetBal(mod, d, tot) // the program's payout was funded up front
			env.W.Supply[d] = tot
		}
	}
	c := env.Comm.GetCommitments(ctx, alice)
	c.VestingTokens = toks
	env.Comm.SetCommitments(ctx, c)
	s0 := env.W.SupplyOf("uusdc")
	if _, err := env.Comm.ClaimVesting(ctx, &ctypes.MsgClaimVesting{Sender: alice.String()}); err != nil {
		return
	}
	vrf.Cover("claimed")
	vrf.CheckSupply()
	vrf.Assert(env.W.SupplyOf("uusdc").Equal(s0), "C15: a vesting claim does not change the supply of a non-native vesting denom")
}

// Governance changes a pool's parameters (oracle pricing switched on or off included) while the pool account holds more
// than the recorded reserves (tokens sent straight to the pool address): no asset is minted or burnt to reconcile them.
//
//vrf:cover updated
//vrf:bound 1 pool x 2 assets, UseOracle before / after symbolic, recorded reserves and bank balances symbolic with bank >= book; MsgUpdatePoolParams from the governance authority
func H_UpdatePoolParams_SupplyUnchanged() {
	env := wire.New(wire.Opts{})
	ctx := env.Ctx
	env.Amm.SetParams(ctx, ammtypes.DefaultParams())
	env.Aprof.SetEntry(ctx, aptypes.Entry{BaseDenom: "uusdc", Denom: "uusdc", Decimals: 6})
	poolAddr := ammtypes.NewPoolAddress(1)
	ba, bu := vrf.Int("bookAtom"), vrf.Int("bookUsdc")
	da, du := vrf.Int("donatedAtom"), vrf.Int("donatedUsdc")
	for _, x := range []sdkmath.Int{ba, bu} {
		vrf.Assume(x.IsPositive())
	}
	for _, x := range []sdkmath.Int{da, du} {
		vrf.Assume(!x.IsNegative())
	}
	env.Amm.SetPool(ctx, ammtypes.Pool{
		PoolId: 1, Address: poolAddr.String(), RebalanceTreasury: ammtypes.NewPoolRebalanceTreasury(1).String(),
		PoolParams:  ammtypes.PoolParams{UseOracle: vrf.Bool("oracleBefore"), SwapFee: sdkmath.LegacyZeroDec(), FeeDenom: "uusdc"},
		TotalShares: sdk.Coin{Denom: ammtypes.GetPoolShareDenom(1), Amount: sdkmath.NewInt(1000)},
		PoolAssets: []ammtypes.PoolAsset{
			{Token: sdk.Coin{Denom: "uatom", Amount: ba}, Weight: sdkmath.NewInt(1), ExternalLiquidityRatio: sdkmath.LegacyOneDec()},
			{Token: sdk.Coin{Denom: "uusdc", Amount: bu}, Weight: sdkmath.NewInt(1), ExternalLiquidityRatio: sdkmath.LegacyOneDec()},
		},
		TotalWeight: sdkmath.NewInt(2),
	})
	env.W.SetBal(poolAddr, "uatom", ba.Add(da))
	env.W.SetBal(poolAddr, "uusdc", bu.Add(du))
	env.W.Supply["uatom"] = ba.Add(da)
	env.W.Supply["uusdc"] = bu.Add(du)
	srv := ammkeeper.NewMsgServerImpl(*env.Amm)
	np := ammtypes.PoolParams{UseOracle: vrf.Bool("oracleAfter"), SwapFee: sdkmath.LegacyNewDecWithPrec(1, 2), FeeDenom: "uusdc"}
	if _, err := srv.UpdatePoolParams(ctx, &ammtypes.MsgUpdatePoolParams{Authority: wire.Gov, PoolId: 1, PoolParams: np}); err != nil {
		return
	}
	vrf.Cover("updated")
	vrf.CheckSupply()
	vrf.Assert(env.W.SupplyOf("uusdc").Equal(bu.Add(du)), "C15: the supply of the base stablecoin is unchanged by a governance update of pool parameters")
	vrf.Assert(env.W.SupplyOf("uatom").Equal(ba.Add(da)), "C15: the supply of a traded asset is unchanged by a governance update of pool parameters")
}
