// Package h_c15: users' assets are never minted or destroyed by the protocol. Meta-check:
// zz_gen.go (generated on every run by engine/cmd/gosymx/genmeta.go) wraps every scenario of
// the other harness packages and asserts afterwards, on every symbolic path, that each bank
// mint / burn it performed is one the protocol is entitled to (zzvrf.CheckSupply).
package h_c15
