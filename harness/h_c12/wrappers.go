package h_c12

import "github.com/elys-network/elys/zzvrf/h_c08"

// The lock-up clause through the leveraged-LP entry point (the position's shares are committed at its own address).
//
//vrf:cover refused
//vrf:bound see h_c08.H_Close_ByOwner_WhileLocked
//vrf:max-paths 3000
func H_LeveragedLp_OwnerCloseRespectsLock() { h_c08.H_Close_ByOwner_WhileLocked() }
