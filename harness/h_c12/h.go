// Package h_c12: the commitment ledger's totals, custody and lock-ups are exact.
// Inductive steps on the real commitment keeper (with the real estaking hook chain)
// from a symbolic ledger state: one explicit account + a symbolic remainder.
package h_c12

import (
	sdkmath "cosmossdk.io/math"
	sdk "github.com/cosmos/cosmos-sdk/types"
	authtypes "github.com/cosmos/cosmos-sdk/x/auth/types"
	ammtypes "github.com/elys-network/elys/x/amm/types"
	aptypes "github.com/elys-network/elys/x/assetprofile/types"
	ckeeper "github.com/elys-network/elys/x/commitment/keeper"
	ctypes "github.com/elys-network/elys/x/commitment/types"
	vrf "github.com/elys-network/elys/zzvrf"
	"github.com/elys-network/elys/zzvrf/wire"
)

var (
	alice   = sdk.AccAddress([]byte("alice_______________"))
	commMod = authtypes.NewModuleAddress(ctypes.ModuleName)
	share   = ammtypes.GetPoolShareDenom(1)
)

const maxT = 1 << 40

type ledger struct {
	env              *wire.Env
	a, rest, surplus sdkmath.Int // alice's committed, everyone else's, custody surplus (donations)
	wallet           sdkmath.Int
	l1, l2           sdkmath.Int // lock-up amounts
	u1, u2           uint64      // unlock times
	now              int64
}

// setup: hypothesis TotalCommitted[share] = a + rest, custody = a + rest + surplus, alice's lock-ups
// (0..2) have amounts whose sum does not exceed her committed amount.
func setup(lockups int) *ledger {
	env := wire.New(wire.Opts{})
	s := &ledger{env: env}
	s.now = vrf.I64("now", 1, maxT)
	env.Ctx = vrf.SetBlock(env.Ctx, 10, s.now)
	ctx := env.Ctx
	env.Aprof.SetEntry(ctx, aptypes.Entry{BaseDenom: share, Denom: share, Decimals: 18, CommitEnabled: true, WithdrawEnabled: true})
	s.a, s.rest, s.surplus, s.wallet = vrf.Int("committedA"), vrf.Int("committedRest"), vrf.Int("custodySurplus"), vrf.Int("walletA")
	vrf.Assume(!s.a.IsNegative())
	vrf.Assume(!s.rest.IsNegative())
	vrf.Assume(!s.surplus.IsNegative())
	vrf.Assume(!s.wallet.IsNegative())
	c := env.Comm.GetCommitments(ctx, alice)
	if s.a.IsPositive() {
		tok := &ctypes.CommittedTokens{Denom: share, Amount: s.a, Lockups: []ctypes.Lockup{}}
		if lockups >= 1 {
			s.l1, s.u1 = vrf.Int("lock1"), vrf.U64("unlock1", 1, maxT)
			vrf.Assume(s.l1.IsPositive())
			tok.Lockups = append(tok.Lockups, ctypes.Lockup{Amount: s.l1, UnlockTimestamp: s.u1})
		}
		if lockups >= 2 {
			s.l2, s.u2 = vrf.Int("lock2"), vrf.U64("unlock2", 1, maxT)
			vrf.Assume(s.l2.IsPositive())
			tok.Lockups = append(tok.Lockups, ctypes.Lockup{Amount: s.l2, UnlockTimestamp: s.u2})
		}
		locked := sdkmath.ZeroInt()
		for _, l := range tok.Lockups {
			locked = locked.Add(l.Amount)
		}
		vrf.Assume(locked.LTE(s.a))
		c.CommittedTokens = []*ctypes.CommittedTokens{tok}
	}
	env.Comm.SetCommitments(ctx, c)
	p := ctypes.DefaultParams()
	tot := s.a.Add(s.rest)
	if tot.IsPositive() {
		p.TotalCommitted = sdk.Coins{sdk.NewCoin(share, tot)}
	}
	env.Comm.SetParams(ctx, p)
	env.W.SetBal(commMod, share, tot.Add(s.surplus))
	env.W.SetBal(alice, share, s.wallet)
	return s
}

func (s *ledger) committed() sdkmath.Int {
	c := s.env.Comm.GetCommitments(s.env.Ctx, alice)
	return c.GetCommittedAmountForDenom(share)
}

func (s *ledger) stillLocked() sdkmath.Int {
	c := s.env.Comm.GetCommitments(s.env.Ctx, alice)
	locked := sdkmath.ZeroInt()
	for _, l := range c.GetCommittedLockUpsForDenom(share) {
		if l.UnlockTimestamp > uint64(s.now) {
			locked = locked.Add(l.Amount)
		}
	}
	return locked
}

func (s *ledger) checkCustody(label string) {
	sum := s.committed().Add(s.rest)
	vrf.Assert(s.env.W.BalOf(commMod, share).GTE(sum), "C12 "+label+": custody account holds at least the sum of committed amounts")
}

//vrf:cover commit-ok
//vrf:bound 1 explicit account + symbolic remainder, share denom (bank-backed), amounts unbounded, lock time symbolic
func H_Commit() {
	s := setup(1)
	amt := vrf.Int("amt")
	vrf.Assume(amt.IsPositive())
	lockUntil := vrf.U64("lockUntil", 0, maxT)
	locked0 := s.stillLocked()
	err := s.env.Comm.CommitLiquidTokens(s.env.Ctx, alice, share, amt, lockUntil)
	if err != nil {
		return
	}
	vrf.Cover("commit-ok")
	// a commit with a lock time in the future puts exactly its amount under lock (also when an earlier
	// lock-up of the account has the very same unlock time); every other lock-up is kept
	if lockUntil > uint64(s.now) {
		vrf.Assert(s.stillLocked().Equal(locked0.Add(amt)), "C12 commit: a time-locked commit adds exactly its amount to the account's locked tokens")
	} else {
		vrf.Assert(s.stillLocked().Equal(locked0), "C12 commit: an unlocked commit leaves the account's locked tokens unchanged")
	}
	p := s.env.Comm.GetParams(s.env.Ctx)
	vrf.Assert(s.committed().Equal(s.a.Add(amt)), "C12 commit: account's committed amount grows by the amount")
	vrf.Assert(p.TotalCommitted.AmountOf(share).Equal(s.committed().Add(s.rest)), "C12 commit: TotalCommitted == sum of committed amounts")
	vrf.Assert(s.env.W.BalOf(alice, share).Equal(s.wallet.Sub(amt)), "C12 commit: wallet debited exactly the amount")
	s.checkCustody("commit")
}

func uncommit(liquidation bool) {
	s := setup(2)
	vrf.Assume(s.a.IsPositive())
	amt := vrf.Int("amt")
	vrf.Assume(amt.IsPositive())
	locked0 := s.stillLocked()
	err := s.env.Comm.UncommitTokens(s.env.Ctx, alice, share, amt, liquidation)
	if err != nil {
		vrf.Cover("uncommit-refused")
		if liquidation {
			vrf.Assert(amt.GT(s.a), "C12 uncommit: a liquidation is refused only for more than the committed amount")
		}
		return
	}
	vrf.Cover("uncommit-ok")
	p := s.env.Comm.GetParams(s.env.Ctx)
	vrf.Assert(amt.LTE(s.a), "C12 uncommit: an account can never uncommit more than it has")
	vrf.Assert(s.committed().Equal(s.a.Sub(amt)), "C12 uncommit: committed amount drops by exactly the amount")
	vrf.Assert(s.env.W.BalOf(alice, share).Equal(s.wallet.Add(amt)), "C12 uncommit: wallet credited exactly the amount")
	if !liquidation {
		vrf.Assert(s.committed().GTE(locked0), "C12 uncommit: tokens under an unexpired lock cannot be withdrawn by their owner")
		vrf.Assert(s.stillLocked().Equal(locked0), "C12 uncommit: unexpired lock-ups are kept")
	}
	// known finding: UncommitTokens ADDS the amount to TotalCommitted instead of subtracting it
	tot := p.TotalCommitted.AmountOf(share)
	vrf.AssertExcept(tot.Equal(s.committed().Add(s.rest)), "C12 uncommit: TotalCommitted == sum of committed amounts (goes down on uncommit)",
		"C12-uncommit-adds-total", tot.Equal(s.a.Add(s.rest).Add(amt)))
	s.checkCustody("uncommit")
}

//vrf:cover uncommit-ok uncommit-refused
//vrf:bound as H_Commit with 2 lock-ups (symbolic amounts and unlock times vs symbolic block time); owner's uncommit
func H_Uncommit_Owner() { uncommit(false) }

//vrf:cover uncommit-ok uncommit-refused
//vrf:bound as above; liquidation (overrides lock-ups)
func H_Uncommit_Liquidation() { uncommit(true) }

// ---- accounts with several committed denoms ----

var share2 = ammtypes.GetPoolShareDenom(2)

// An account holding two committed denoms (in either list order) uncommits part or all of one of them: the other
// denom's record is untouched, no entry is duplicated or lost, custody still covers every commitment.
// noHooks: the commitment hooks' contract for Eden steps (the estaking implementation keeps SDK staking /
// distribution records and does not touch the commitment ledger)
type noHooks struct{}

func (noHooks) CommitmentChanged(ctx sdk.Context, creator sdk.AccAddress, amount sdk.Coins) error {
	return nil
}
func (noHooks) EdenUncommitted(ctx sdk.Context, creator sdk.AccAddress, amount sdk.Coin) error {
	return nil
}
func (noHooks) BeforeEdenInitialCommit(ctx sdk.Context, addr sdk.AccAddress) error  { return nil }
func (noHooks) BeforeEdenBInitialCommit(ctx sdk.Context, addr sdk.AccAddress) error { return nil }
func (noHooks) BeforeEdenCommitChange(ctx sdk.Context, addr sdk.AccAddress) error   { return nil }
func (noHooks) BeforeEdenBCommitChange(ctx sdk.Context, addr sdk.AccAddress) error  { return nil }

func twoDenoms(first, second string) {
	opts := wire.Opts{}
	if first == "ueden" || second == "ueden" {
		opts.CommHooks = noHooks{}
	}
	env := wire.New(opts)
	now := vrf.I64("now", 1, maxT)
	env.Ctx = vrf.SetBlock(env.Ctx, 10, now)
	ctx := env.Ctx
	for _, d := range []string{first, second} {
		env.Aprof.SetEntry(ctx, aptypes.Entry{BaseDenom: d, Denom: d, Decimals: 18, CommitEnabled: true, WithdrawEnabled: true})
	}
	a1, a2 := vrf.Int("committedFirst"), vrf.Int("committedSecond")
	vrf.Assume(a1.IsPositive())
	vrf.Assume(a2.IsPositive())
	c := env.Comm.GetCommitments(ctx, alice)
	c.CommittedTokens = []*ctypes.CommittedTokens{{Denom: first, Amount: a1, Lockups: []ctypes.Lockup{}}, {Denom: second, Amount: a2, Lockups: []ctypes.Lockup{}}}
	env.Comm.SetCommitments(ctx, c)
	p := ctypes.DefaultParams()
	p.TotalCommitted = sdk.Coins{}
	for _, x := range []struct {
		d string
		a sdkmath.Int
	}{{first, a1}, {second, a2}} {
		p.TotalCommitted = p.TotalCommitted.Add(sdk.NewCoin(x.d, x.a))
		if x.d != "ueden" && x.d != "uedenb" {
			env.W.SetBal(commMod, x.d, x.a) // bank-backed denoms sit in custody
		}
	}
	env.Comm.SetParams(ctx, p)
	which, other, have, keep := first, second, a1, a2
	if vrf.Bool("uncommitSecond") {
		which, other, have, keep = second, first, a2, a1
	}
	amt := vrf.Int("amt")
	vrf.Assume(amt.IsPositive())
	if err := env.Comm.UncommitTokens(ctx, alice, which, amt, false); err != nil {
		vrf.Cover("uncommit-refused")
		vrf.Assert(amt.GT(have), "C12 two denoms: an uncommit within the committed amount (no locks) is not refused")
		return
	}
	vrf.Cover("uncommit-ok")
	c2 := env.Comm.GetCommitments(ctx, alice)
	n := map[string]int{}
	for _, t := range c2.CommittedTokens {
		n[t.Denom]++
	}
	vrf.Assert(n[first] <= 1 && n[second] <= 1, "C12 two denoms: the record holds at most one entry per denom")
	vrf.Assert(c2.GetCommittedAmountForDenom(which).Equal(have.Sub(amt)), "C12 two denoms: the uncommitted denom drops by exactly the amount")
	vrf.Assert(c2.GetCommittedAmountForDenom(other).Equal(keep), "C12 two denoms: the other committed denom of the account is untouched")
	if other != "ueden" && other != "uedenb" {
		vrf.Assert(env.W.BalOf(commMod, other).GTE(c2.GetCommittedAmountForDenom(other)), "C12 two denoms: custody still covers the other denom")
	}
	if which != "ueden" && which != "uedenb" {
		vrf.Assert(env.W.BalOf(commMod, which).GTE(c2.GetCommittedAmountForDenom(which)), "C12 two denoms: custody still covers the uncommitted denom")
	}
}

//vrf:cover uncommit-ok uncommit-refused
//vrf:bound 1 account with two committed LP-share denoms (pool 1, pool 2), symbolic amounts, uncommit of either (partial, full or too much)
func H_Uncommit_TwoShareDenoms() { twoDenoms(share, share2) }

//vrf:cover uncommit-ok uncommit-refused
//vrf:bound 1 account with committed Eden followed by an LP-share denom; uncommit of either
func H_Uncommit_EdenThenShare() { twoDenoms("ueden", share) }

//vrf:cover uncommit-ok uncommit-refused
//vrf:bound 1 account with an LP-share denom followed by committed Eden; uncommit of either
func H_Uncommit_ShareThenEden() { twoDenoms(share, "ueden") }

// ---- the commitment module's own messages cannot take LP shares out of custody ----

// An account with committed LP shares sends one of the commitment messages that name a denom and an amount
// (uncommit, unstake, vest, vest-liquid? no: those that could release committed tokens): whatever the handler answers,
// the account's committed shares and the custody balance are what they were (shares leave custody only through the
// amm's exit, which burns them).
//
//vrf:cover refused
//vrf:bound 1 account with committed LP shares (no lock-ups); MsgUncommitTokens or MsgUnstake naming the share denom with a symbolic amount
func H_Messages_CannotReleasePoolShares() {
	s := setup(0)
	vrf.Assume(s.a.IsPositive())
	env, ctx := s.env, s.env.Ctx
	srv := ckeeper.NewMsgServerImpl(*env.Comm)
	amt := vrf.Int("amt")
	vrf.Assume(amt.IsPositive())
	custody0 := env.W.BalOf(commMod, share)
	var err error
	if vrf.Bool("viaUnstake") {
		_, err = srv.Unstake(ctx, &ctypes.MsgUnstake{Creator: alice.String(), Asset: share, Amount: amt, ValidatorAddress: ""})
	} else {
		_, err = srv.UncommitTokens(ctx, &ctypes.MsgUncommitTokens{Creator: alice.String(), Denom: share, Amount: amt})
	}
	if err != nil {
		vrf.Cover("refused")
	}
	vrf.Assert(s.committed().Equal(s.a), "C12/C02: a commitment message cannot lower an account's committed LP shares")
	vrf.Assert(env.W.BalOf(commMod, share).Equal(custody0), "C12/C02: a commitment message cannot move LP shares out of custody")
	vrf.Assert(env.W.BalOf(alice, share).Equal(s.wallet), "C12/C02: no liquid LP shares appear in the account")
}

// ---- committing claimed rewards (Eden / EdenB): the chain-wide total moves with the ledger ----

// MsgCommitClaimedRewards (also reached by MsgStake for ueden / uedenb): whatever amount is asked for and whatever the
// handler decides to commit, the account's committed amount grows by exactly what leaves its claimed balance, and the
// chain-wide committed total grows by exactly the same.
//
//vrf:cover commit-ok refused
//vrf:bound 1 account with symbolic claimed and committed Eden / EdenB (symbolic choice) + symbolic remainder in the total; requested amount symbolic (below, equal to, above the claimed balance); through MsgCommitClaimedRewards or MsgStake
func H_CommitClaimedRewards_TotalTracksLedger() {
	env := wire.New(wire.Opts{CommHooks: noHooks{}})
	now := vrf.I64("now", 1, maxT)
	env.Ctx = vrf.SetBlock(env.Ctx, 10, now)
	ctx := env.Ctx
	denom := "ueden"
	if vrf.Bool("edenB") {
		denom = "uedenb"
	}
	env.Aprof.SetEntry(ctx, aptypes.Entry{BaseDenom: denom, Denom: denom, Decimals: 6, CommitEnabled: true, WithdrawEnabled: true})
	claimed, committed, rest, amt := vrf.Int("claimed"), vrf.Int("committedA"), vrf.Int("committedRest"), vrf.Int("amt")
	for _, x := range []sdkmath.Int{claimed, committed, rest} {
		vrf.Assume(!x.IsNegative())
	}
	vrf.Assume(amt.IsPositive())
	c := env.Comm.GetCommitments(ctx, alice)
	if claimed.IsPositive() {
		c.AddClaimed(sdk.NewCoin(denom, claimed))
	}
	if committed.IsPositive() {
		c.AddCommittedTokens(denom, committed, 0)
	}
	env.Comm.SetCommitments(ctx, c)
	p := ctypes.DefaultParams()
	if committed.Add(rest).IsPositive() {
		p.TotalCommitted = sdk.Coins{sdk.NewCoin(denom, committed.Add(rest))}
	}
	env.Comm.SetParams(ctx, p)
	srv := ckeeper.NewMsgServerImpl(*env.Comm)
	var err error
	if vrf.Bool("viaStake") {
		_, err = srv.Stake(ctx, &ctypes.MsgStake{Creator: alice.String(), Asset: denom, Amount: amt, ValidatorAddress: ""})
	} else {
		_, err = srv.CommitClaimedRewards(ctx, &ctypes.MsgCommitClaimedRewards{Creator: alice.String(), Denom: denom, Amount: amt})
	}
	if err != nil {
		vrf.Cover("refused")
		return // failed transaction: rolled back by baseapp
	}
	vrf.Cover("commit-ok")
	c2 := env.Comm.GetCommitments(ctx, alice)
	moved := claimed.Sub(c2.GetClaimedForDenom(denom))
	vrf.Assert(!moved.IsNegative() && moved.LTE(amt), "C12 commit claimed: between nothing and the requested amount leaves the claimed balance")
	vrf.Assert(c2.GetCommittedAmountForDenom(denom).Equal(committed.Add(moved)), "C12 commit claimed: the committed amount grows by exactly what left the claimed balance")
	tot := env.Comm.GetParams(ctx).TotalCommitted.AmountOf(denom)
	vrf.Assert(tot.Equal(c2.GetCommittedAmountForDenom(denom).Add(rest)), "C12 commit claimed: TotalCommitted == sum of accounts' committed amounts (it goes up by exactly what was committed)")
}

// Governance's commitment messages (vesting info, vest-now switch) rewrite the module's Params record, which also
// carries the chain-wide committed totals: those stay what the ledger made them.
//
//vrf:cover done
//vrf:bound 1 account + symbolic remainder with committed LP shares; MsgUpdateVestingInfo (existing or new denom, symbolic values) or MsgUpdateEnableVestNow from the governance authority
func H_Gov_Messages_KeepTotalCommitted() {
	s := setup(1)
	env, ctx := s.env, s.env.Ctx
	srv := ckeeper.NewMsgServerImpl(*env.Comm)
	tot0 := env.Comm.GetParams(ctx).TotalCommitted.AmountOf(share)
	switch vrf.I64("message", 0, 2) {
	case 0:
		srv.UpdateEnableVestNow(ctx, &ctypes.MsgUpdateEnableVestNow{Authority: wire.Gov, EnableVestNow: vrf.Bool("enable")})
	case 1:
		info := ctypes.DefaultParams().VestingInfos[0]
		srv.UpdateVestingInfo(ctx, &ctypes.MsgUpdateVestingInfo{Authority: wire.Gov, BaseDenom: info.BaseDenom, VestingDenom: info.VestingDenom,
			NumBlocks: vrf.I64("numBlocks", 1, maxT), VestNowFactor: vrf.I64("factor", 1, maxT), NumMaxVestings: vrf.I64("maxVestings", 1, 1000)})
	case 2:
		srv.UpdateVestingInfo(ctx, &ctypes.MsgUpdateVestingInfo{Authority: wire.Gov, BaseDenom: "unew", VestingDenom: "uelys",
			NumBlocks: vrf.I64("numBlocks", 1, maxT), VestNowFactor: vrf.I64("factor", 1, maxT), NumMaxVestings: vrf.I64("maxVestings", 1, 1000)})
	}
	vrf.Cover("done")
	vrf.Assert(env.Comm.GetParams(ctx).TotalCommitted.AmountOf(share).Equal(tot0), "C12: a governance message of the commitment module leaves the chain-wide committed total as the ledger made it")
	vrf.Assert(s.committed().Equal(s.a), "C12: a governance message of the commitment module leaves accounts' committed amounts alone")
	s.checkCustody("governance message")
}

// A commit onto an account that already holds many lock-ups of the denom (an LP that joined an oracle pool again and
// again without leaving): however long the lock-up list is, the committed amount and the locked amount grow by exactly
// the committed amount and the chain-wide total follows.
//
//vrf:cover commit-ok
//vrf:bound 1 account with 0, 1, 9, 10, 11 or 16 existing lock-ups of one share denom (one base unit each, all still running), symbolic committed amount above them; one commit of a symbolic amount with a symbolic lock time
//vrf:unwind 40
func H_Commit_ManyLockups() {
	env := wire.New(wire.Opts{})
	now := vrf.I64("now", 1, maxT)
	env.Ctx = vrf.SetBlock(env.Ctx, 10, now)
	ctx := env.Ctx
	env.Aprof.SetEntry(ctx, aptypes.Entry{BaseDenom: share, Denom: share, Decimals: 18, CommitEnabled: true, WithdrawEnabled: true})
	n := 0
	switch vrf.I64("existingLockups", 0, 5) {
	case 1:
		n = 1
	case 2:
		n = 9
	case 3:
		n = 10
	case 4:
		n = 11
	case 5:
		n = 16
	}
	free := vrf.Int("unlockedPart")
	vrf.Assume(!free.IsNegative())
	a := free.Add(sdkmath.NewInt(int64(n)))
	c := env.Comm.GetCommitments(ctx, alice)
	if a.IsPositive() {
		tok := &ctypes.CommittedTokens{Denom: share, Amount: a, Lockups: []ctypes.Lockup{}}
		for i := 0; i < n; i++ {
			tok.Lockups = append(tok.Lockups, ctypes.Lockup{Amount: sdkmath.NewInt(1), UnlockTimestamp: uint64(now) + uint64(100+i)})
		}
		c.CommittedTokens = []*ctypes.CommittedTokens{tok}
	}
	env.Comm.SetCommitments(ctx, c)
	p := ctypes.DefaultParams()
	if a.IsPositive() {
		p.TotalCommitted = sdk.Coins{sdk.NewCoin(share, a)}
	}
	env.Comm.SetParams(ctx, p)
	env.W.SetBal(commMod, share, a)
	amt := vrf.Int("amt")
	vrf.Assume(amt.IsPositive())
	env.W.SetBal(alice, share, amt)
	lockUntil := vrf.U64("lockUntil", 0, maxT)
	if err := env.Comm.CommitLiquidTokens(ctx, alice, share, amt, lockUntil); err != nil {
		return
	}
	vrf.Cover("commit-ok")
	c2 := env.Comm.GetCommitments(ctx, alice)
	vrf.Assert(c2.GetCommittedAmountForDenom(share).Equal(a.Add(amt)), "C12/C02 commit: the account's committed amount grows by exactly the committed amount, however many lock-ups it already holds")
	locked := sdkmath.ZeroInt()
	for _, l := range c2.GetCommittedLockUpsForDenom(share) {
		if l.UnlockTimestamp > uint64(now) {
			locked = locked.Add(l.Amount)
		}
	}
	want := sdkmath.NewInt(int64(n))
	if lockUntil > uint64(now) {
		want = want.Add(amt)
	}
	vrf.Assert(locked.Equal(want), "C12 commit: the account's locked amount is the old lock-ups plus exactly the new one")
	vrf.Assert(env.Comm.GetParams(ctx).TotalCommitted.AmountOf(share).Equal(a.Add(amt)), "C12/C02 commit: TotalCommitted == sum of committed amounts")
	vrf.Assert(env.W.BalOf(commMod, share).Equal(a.Add(amt)), "C12/C02 commit: custody holds exactly the committed shares")
}
