// Package h_c14: a vesting schedule releases exactly its total, monotonically, never
// more; claiming what has vested always succeeds; a partial cancel returns exactly the
// cancelled amount as claimable Eden; vest-now pays amount / factor. The real
// commitment keeper (Vest, ClaimVesting, CancelVest, VestNow) runs.
package h_c14

import (
	sdkmath "cosmossdk.io/math"
	sdk "github.com/cosmos/cosmos-sdk/types"
	ckeeper "github.com/elys-network/elys/x/commitment/keeper"
	ctypes "github.com/elys-network/elys/x/commitment/types"
	ptypes "github.com/elys-network/elys/x/parameter/types"
	vrf "github.com/elys-network/elys/zzvrf"
	"github.com/elys-network/elys/zzvrf/wire"
)

var alice = sdk.AccAddress([]byte("alice_______________"))

const maxH = 1 << 40

type entry struct {
	total, claimed sdkmath.Int
	start, n       int64
}

// symEntry is an arbitrary stored vesting entry: 0 <= claimed <= total (what every
// operation maintains), schedule of n >= 1 blocks starting at a symbolic height.
func symEntry(tag string) entry {
	e := entry{total: vrf.Int("total" + tag), claimed: vrf.Int("claimed" + tag), start: vrf.I64("start"+tag, 1, maxH), n: vrf.I64("numBlocks"+tag, 1, maxH)}
	vrf.Assume(e.total.IsPositive())
	vrf.Assume(!e.claimed.IsNegative())
	vrf.Assume(e.claimed.LT(e.total)) // fully claimed entries are removed
	return e
}

func (e entry) tokens() *ctypes.VestingTokens {
	return &ctypes.VestingTokens{Denom: ptypes.Elys, TotalAmount: e.total, ClaimedAmount: e.claimed, StartBlock: e.start, NumBlocks: e.n, VestStartedTimestamp: 1}
}

func newEnv(height int64) *wire.Env {
	env := wire.New(wire.Opts{})
	env.Ctx = vrf.SetBlock(env.Ctx, height, 1000)
	env.Comm.SetParams(env.Ctx, ctypes.DefaultParams())
	return env
}

func unreleased(c ctypes.Commitments) sdkmath.Int {
	s := sdkmath.ZeroInt()
	for _, v := range c.VestingTokens {
		s = s.Add(v.TotalAmount.Sub(v.ClaimedAmount))
	}
	return s
}

// A1: from any stored entry whose claimed amount does not exceed what the schedule has released
// at the last claim, and from any entry left behind by a partial cancel (claimed <= total only),
// a claim at any later height succeeds, releases a non-negative amount, never more than the total.
//
//vrf:cover claim-ok removed kept
//vrf:bound 1 entry; total, claimed unbounded with 0 <= claimed < total; heights, schedule length < 2^40, numBlocks >= 1
func H_A1_ClaimAlwaysSucceeds() {
	e := symEntry("")
	h := vrf.I64("height", 1, maxH)
	vrf.Assume(h >= e.start)
	env := newEnv(h)
	ctx := env.Ctx
	c := env.Comm.GetCommitments(ctx, alice)
	c.VestingTokens = []*ctypes.VestingTokens{e.tokens()}
	env.Comm.SetCommitments(ctx, c)
	supply0 := env.W.SupplyOf(ptypes.Elys)
	panicked := true
	var err error
	func() {
		defer func() {
			if r := recover(); r != nil {
				_ = r
			}
		}()
		_, err = env.Comm.ClaimVesting(ctx, &ctypes.MsgClaimVesting{Sender: alice.String()})
		panicked = false
	}()
	vrf.Assert(!panicked, "A1: claiming what has vested never panics")
	if panicked {
		return
	}
	vrf.Assert(err == nil, "A1: claiming what has vested never fails")
	if err != nil {
		return
	}
	vrf.Cover("claim-ok")
	got := env.W.BalOf(alice, ptypes.Elys)
	vrf.Observe("released", got)
	vrf.Assert(!got.IsNegative(), "A1: a claim releases a non-negative amount")
	vrf.Assert(env.W.SupplyOf(ptypes.Elys).Sub(supply0).Equal(got), "A1: exactly what is released is minted")
	vrf.Assert(env.W.SupplyOf(ptypes.Elys).Sub(supply0).Equal(got), "C15: the native token's supply grows by exactly what the vesting claim releases")
	c2 := env.Comm.GetCommitments(ctx, alice)
	if len(c2.VestingTokens) == 0 {
		vrf.Cover("removed")
		vrf.Assert(e.claimed.Add(got).Equal(e.total), "A1: an entry is removed only when its whole total has been released")
		return
	}
	vrf.Cover("kept")
	v := c2.VestingTokens[0]
	vrf.Assert(v.ClaimedAmount.Equal(e.claimed.Add(got)), "A1: claimed amount grows by exactly what was released")
	vrf.Assert(v.ClaimedAmount.LTE(v.TotalAmount), "A1: cumulative release never exceeds the total")
	vrf.Assert(v.TotalAmount.Equal(e.total), "A1: a claim does not change the total")
	// linear schedule: cumulative release is floor(total * elapsed / n) (or unchanged if a cancel put the entry ahead of schedule)
	elapsed := h - e.start
	if elapsed > e.n {
		elapsed = e.n
	}
	sched := e.total.Mul(sdkmath.NewInt(elapsed)).Quo(sdkmath.NewInt(e.n))
	vrf.Assert(v.ClaimedAmount.Equal(sdkmath.MaxInt(sched, e.claimed)), "A1: cumulative release follows the linear block schedule")
}

// A2: once the schedule has elapsed the whole remaining total is released and the entry is gone.
//
//vrf:cover done
//vrf:bound as A1 with height >= start + numBlocks
func H_A2_CompleteAfterSchedule() {
	e := symEntry("")
	h := vrf.I64("height", 1, maxH)
	vrf.Assume(h >= e.start+e.n)
	env := newEnv(h)
	ctx := env.Ctx
	c := env.Comm.GetCommitments(ctx, alice)
	c.VestingTokens = []*ctypes.VestingTokens{e.tokens()}
	env.Comm.SetCommitments(ctx, c)
	_, err := env.Comm.ClaimVesting(ctx, &ctypes.MsgClaimVesting{Sender: alice.String()})
	vrf.Assert(err == nil, "A2: final claim succeeds")
	vrf.Cover("done")
	vrf.Assert(env.W.BalOf(alice, ptypes.Elys).Equal(e.total.Sub(e.claimed)), "A2: after the schedule elapsed the whole remainder is released")
	vrf.Assert(len(env.Comm.GetCommitments(ctx, alice).VestingTokens) == 0, "A2: a fully released entry is removed")
}

// A3: a partial cancel returns exactly the cancelled, not-yet-released amount as claimable Eden:
// unreleased total drops by the amount, claimable Eden rises by the amount, nothing is minted,
// and every surviving entry still has claimed <= total.
//
//vrf:cover cancel-ok cancel-refused
//vrf:bound 2 entries, symbolic totals/claimed/schedules; cancel amount symbolic
func H_A3_CancelConserves() {
	e1, e2 := symEntry("1"), symEntry("2")
	h := vrf.I64("height", 1, maxH)
	env := newEnv(h)
	ctx := env.Ctx
	eden0 := vrf.Int("claimedEden")
	vrf.Assume(!eden0.IsNegative())
	c := env.Comm.GetCommitments(ctx, alice)
	c.VestingTokens = []*ctypes.VestingTokens{e1.tokens(), e2.tokens()}
	if eden0.IsPositive() {
		c.AddClaimed(sdk.NewCoin(ptypes.Eden, eden0))
	}
	env.Comm.SetCommitments(ctx, c)
	before := unreleased(c)
	amt := vrf.Int("cancel")
	vrf.Assume(amt.IsPositive())
	sends := env.W.Sends
	srv := ckeeper.NewMsgServerImpl(*env.Comm)
	_, err := srv.CancelVest(ctx, &ctypes.MsgCancelVest{Creator: alice.String(), Denom: ptypes.Eden, Amount: amt})
	c2 := env.Comm.GetCommitments(ctx, alice)
	if err != nil {
		vrf.Cover("cancel-refused")
		vrf.Assert(amt.GT(before), "A3: a cancel of at most the unreleased amount is accepted")
		vrf.Assert(unreleased(c2).Equal(before), "A3: a refused cancel changes nothing")
		return
	}
	vrf.Cover("cancel-ok")
	vrf.Assert(unreleased(c2).Equal(before.Sub(amt)), "A3: unreleased total drops by exactly the cancelled amount")
	vrf.Assert(c2.GetClaimedForDenom(ptypes.Eden).Equal(eden0.Add(amt)), "A3: exactly the cancelled amount comes back as claimable Eden")
	vrf.Assert(env.W.Sends == sends, "A3: a cancel moves and mints no coins")
	for _, v := range c2.VestingTokens {
		vrf.Assert(v.ClaimedAmount.LT(v.TotalAmount), "A3: surviving entries keep claimed < total")
	}
}

// A4: vest creates an entry for exactly the amount taken from claimable Eden.
//
//vrf:cover vest-ok
func H_A4_VestConserves() {
	h := vrf.I64("height", 1, maxH)
	env := newEnv(h)
	ctx := env.Ctx
	eden0, amt := vrf.Int("claimedEden"), vrf.Int("amt")
	vrf.Assume(eden0.IsPositive())
	vrf.Assume(amt.IsPositive())
	c := env.Comm.GetCommitments(ctx, alice)
	c.AddClaimed(sdk.NewCoin(ptypes.Eden, eden0))
	env.Comm.SetCommitments(ctx, c)
	srv := ckeeper.NewMsgServerImpl(*env.Comm)
	_, err := srv.Vest(ctx, &ctypes.MsgVest{Creator: alice.String(), Denom: ptypes.Eden, Amount: amt})
	if err != nil {
		vrf.Assert(amt.GT(eden0), "A4: vesting at most the claimable Eden is accepted")
		return
	}
	vrf.Cover("vest-ok")
	c2 := env.Comm.GetCommitments(ctx, alice)
	vrf.Assert(c2.GetClaimedForDenom(ptypes.Eden).Equal(eden0.Sub(amt)), "A4: exactly the vested amount leaves claimable Eden")
	vrf.Assert(unreleased(c2).Equal(amt), "A4: the new entry's total is exactly the vested amount")
	vrf.Assert(c2.VestingTokens[0].StartBlock == h, "A4: schedule starts at the current height")
}

// A5: vest-now pays exactly amount / factor (truncated) and consumes exactly amount.
//
//vrf:cover vestnow-ok
//vrf:bound factor symbolic in [1, 2^40]
func H_A5_VestNow() {
	env := newEnv(10)
	ctx := env.Ctx
	p := ctypes.DefaultParams()
	p.EnableVestNow = true
	f := vrf.I64("factor", 1, maxH)
	p.VestingInfos[0].VestNowFactor = sdkmath.NewInt(f)
	env.Comm.SetParams(ctx, p)
	eden0, amt := vrf.Int("claimedEden"), vrf.Int("amt")
	vrf.Assume(eden0.IsPositive())
	vrf.Assume(amt.IsPositive())
	c := env.Comm.GetCommitments(ctx, alice)
	c.AddClaimed(sdk.NewCoin(ptypes.Eden, eden0))
	env.Comm.SetCommitments(ctx, c)
	srv := ckeeper.NewMsgServerImpl(*env.Comm)
	_, err := srv.VestNow(ctx, &ctypes.MsgVestNow{Creator: alice.String(), Denom: ptypes.Eden, Amount: amt})
	if err != nil {
		return
	}
	vrf.Cover("vestnow-ok")
	got := env.W.BalOf(alice, ptypes.Elys)
	// got = floor(amt / f):  got*f <= amt < (got+1)*f
	vrf.Assert(got.MulRaw(1).Mul(sdkmath.NewInt(f)).LTE(amt), "A5: vest-now pays at most amount/factor")
	vrf.Assert(got.AddRaw(1).Mul(sdkmath.NewInt(f)).GT(amt), "A5: vest-now pays at least floor(amount/factor)")
	c3 := env.Comm.GetCommitments(ctx, alice)
	vrf.Assert(c3.GetClaimedForDenom(ptypes.Eden).Equal(eden0.Sub(amt)), "A5: exactly the amount is consumed")
	vrf.Assert(c3.GetClaimedForDenom(ptypes.Eden).Equal(eden0.Sub(amt)), "C15: the native tokens a vest-now mints are paid for with consumed Eden (the release cannot be repeated)")
}

// A4 with entries already on the list (full or not): whatever a successful vest does besides adding the new schedule -
// a future version may release what has vested first to free a slot - tokens released plus Eden still scheduled plus
// claimable Eden is conserved; and so it is through the claim that follows once every schedule has elapsed.
//
//vrf:cover vest-ok vest-refused list-full
//vrf:bound 2 existing entries (symbolic totals / claimed / schedules), NumMaxVestings symbolic in [1, 3] (list full or not), symbolic claimable Eden and vest amount; then one claim at a symbolic later height
func H_A4_VestOntoExistingEntries() {
	e1, e2 := symEntry("1"), symEntry("2")
	h := vrf.I64("height", 1, maxH)
	env := newEnv(h)
	ctx := env.Ctx
	p := ctypes.DefaultParams()
	max := vrf.I64("numMaxVestings", 1, 3)
	p.VestingInfos[0].NumMaxVestings = max
	env.Comm.SetParams(ctx, p)
	eden0, amt := vrf.Int("claimedEden"), vrf.Int("amt")
	vrf.Assume(eden0.IsPositive())
	vrf.Assume(amt.IsPositive())
	c := env.Comm.GetCommitments(ctx, alice)
	c.VestingTokens = []*ctypes.VestingTokens{e1.tokens(), e2.tokens()}
	c.AddClaimed(sdk.NewCoin(ptypes.Eden, eden0))
	env.Comm.SetCommitments(ctx, c)
	before := unreleased(c)
	if max <= 2 {
		vrf.Cover("list-full")
	}
	srv := ckeeper.NewMsgServerImpl(*env.Comm)
	_, err := srv.Vest(ctx, &ctypes.MsgVest{Creator: alice.String(), Denom: ptypes.Eden, Amount: amt})
	if err != nil {
		vrf.Cover("vest-refused")
		return // failed transaction: rolled back by baseapp
	}
	vrf.Cover("vest-ok")
	c2 := env.Comm.GetCommitments(ctx, alice)
	released := env.W.BalOf(alice, ptypes.Elys)
	vrf.Assert(int64(len(c2.VestingTokens)) <= max, "A4: the list never holds more than the maximum number of vestings")
	vrf.Assert(c2.GetClaimedForDenom(ptypes.Eden).Equal(eden0.Sub(amt)), "A4: exactly the vested amount leaves claimable Eden")
	vrf.Assert(released.Add(unreleased(c2)).Equal(before.Add(amt)), "A4: tokens released + Eden still scheduled == Eden put into vesting (existing entries + the new one)")
	// every schedule elapses, then one claim
	h2 := vrf.I64("laterHeight", 1, maxH)
	vrf.Assume(h2 >= h)
	ctx2 := vrf.SetBlock(ctx, h2, 2000)
	if _, err := env.Comm.ClaimVesting(ctx2, &ctypes.MsgClaimVesting{Sender: alice.String()}); err != nil {
		vrf.Assert(false, "A4: claiming what has vested succeeds")
		return
	}
	c3 := env.Comm.GetCommitments(ctx2, alice)
	vrf.Assert(env.W.BalOf(alice, ptypes.Elys).Add(unreleased(c3)).Equal(before.Add(amt)), "A4: after the next claim, tokens released + Eden still scheduled == Eden put into vesting")
}

// A6: the configured factor and schedule length are the ones in force: after governance updates the vesting
// parameters, vest-now pays amount / the NEW factor and a new vesting runs over the NEW number of blocks.
//
//vrf:cover updated vestnow-ok vest-ok
//vrf:bound Eden vesting info with symbolic old and new factor / schedule length in [1, 2^40]; governance MsgUpdateVestingInfo, then a vest-now and a vest of symbolic amounts
func H_A6_GovernanceUpdateThenVest() {
	h := vrf.I64("height", 1, maxH)
	env := newEnv(h)
	ctx := env.Ctx
	p := ctypes.DefaultParams()
	p.EnableVestNow = true
	f0, n0 := vrf.I64("oldFactor", 1, maxH), vrf.I64("oldNumBlocks", 1, maxH)
	p.VestingInfos[0].VestNowFactor = sdkmath.NewInt(f0)
	p.VestingInfos[0].NumBlocks = n0
	env.Comm.SetParams(ctx, p)
	f1, n1 := vrf.I64("newFactor", 1, maxH), vrf.I64("newNumBlocks", 1, maxH)
	srv := ckeeper.NewMsgServerImpl(*env.Comm)
	info := p.VestingInfos[0]
	_, err := srv.UpdateVestingInfo(ctx, &ctypes.MsgUpdateVestingInfo{Authority: wire.Gov, BaseDenom: info.BaseDenom, VestingDenom: info.VestingDenom,
		NumBlocks: n1, VestNowFactor: f1, NumMaxVestings: info.NumMaxVestings})
	if err != nil {
		return
	}
	vrf.Cover("updated")
	eden0, a1, a2 := vrf.Int("claimedEden"), vrf.Int("vestNowAmount"), vrf.Int("vestAmount")
	vrf.Assume(a1.IsPositive())
	vrf.Assume(a2.IsPositive())
	vrf.Assume(eden0.GTE(a1.Add(a2)))
	c := env.Comm.GetCommitments(ctx, alice)
	c.AddClaimed(sdk.NewCoin(ptypes.Eden, eden0))
	env.Comm.SetCommitments(ctx, c)
	if _, err := srv.VestNow(ctx, &ctypes.MsgVestNow{Creator: alice.String(), Denom: ptypes.Eden, Amount: a1}); err == nil {
		vrf.Cover("vestnow-ok")
		got := env.W.BalOf(alice, ptypes.Elys)
		vrf.Assert(got.Mul(sdkmath.NewInt(f1)).LTE(a1) && got.AddRaw(1).Mul(sdkmath.NewInt(f1)).GT(a1), "A6: vest-now pays amount / the factor currently configured (after a governance update: the new one)")
	}
	if _, err := srv.Vest(ctx, &ctypes.MsgVest{Creator: alice.String(), Denom: ptypes.Eden, Amount: a2}); err == nil {
		vrf.Cover("vest-ok")
		c2 := env.Comm.GetCommitments(ctx, alice)
		vrf.Assert(len(c2.VestingTokens) == 1 && c2.VestingTokens[0].NumBlocks == n1, "A6: a new vesting runs over the number of blocks currently configured (after a governance update: the new one)")
	}
}
