// Package h_c20: funds escrowed for pending orders are safe and only the owner
// controls them. The real tradeshield message server runs over the bank/store
// models; the amm and perpetual keepers it talks to (through its expected-keeper
// interfaces) are contracts written here: a swap / an open either fails without
// effect or succeeds debiting exactly the order amount from the owner, and market
// prices are arbitrary.
package h_c20

import (
	sdkmath "cosmossdk.io/math"
	storetypes "cosmossdk.io/store/types"
	"github.com/cosmos/cosmos-sdk/runtime"
	sdk "github.com/cosmos/cosmos-sdk/types"
	"github.com/cosmos/cosmos-sdk/types/query"
	ammtypes "github.com/elys-network/elys/x/amm/types"
	perptypes "github.com/elys-network/elys/x/perpetual/types"
	tskeeper "github.com/elys-network/elys/x/tradeshield/keeper"
	tstypes "github.com/elys-network/elys/x/tradeshield/types"
	vrf "github.com/elys-network/elys/zzvrf"
	"github.com/elys-network/elys/zzvrf/wire"
)

var (
	owner = sdk.AccAddress([]byte("owner_______________"))
	other = sdk.AccAddress([]byte("someone_else________"))
)

const (
	atom = "uatom"
	usdc = "uusdc"
)

// ---- contracts of the keepers tradeshield depends on ----

type ammStub struct {
	w            *vrf.World
	pAtom, pUsdc sdkmath.LegacyDec
	swapFails    bool
	out          sdkmath.Int
	swaps        int
}

func (a *ammStub) CalculateUSDValue(ctx sdk.Context, denom string, amount sdkmath.Int) sdkmath.LegacyDec {
	if denom == atom {
		return a.pAtom.MulInt(amount)
	}
	return a.pUsdc.MulInt(amount)
}
func (a *ammStub) CalcAmmPrice(ctx sdk.Context, denom string, decimal uint64) sdkmath.LegacyDec {
	return sdkmath.LegacyZeroDec()
}

// SwapByDenom: fails without effect, or debits exactly msg.Amount from the sender and credits the output
func (a *ammStub) SwapByDenom(ctx sdk.Context, msg *ammtypes.MsgSwapByDenom) (*ammtypes.MsgSwapByDenomResponse, error) {
	if a.swapFails {
		return nil, ammtypes.ErrAmountTooLow
	}
	w := vrf.WorldOf(ctx) // the (possibly cached) world of the calling context
	sender := sdk.MustAccAddressFromBech32(msg.Sender)
	if w.BalOf(sender, msg.Amount.Denom).LT(msg.Amount.Amount) {
		return nil, ammtypes.ErrAmountTooLow
	}
	a.swaps++
	w.SetBal(sender, msg.Amount.Denom, w.BalOf(sender, msg.Amount.Denom).Sub(msg.Amount.Amount))
	rcp := sdk.MustAccAddressFromBech32(msg.Recipient)
	w.SetBal(rcp, msg.DenomOut, w.BalOf(rcp, msg.DenomOut).Add(a.out))
	return &ammtypes.MsgSwapByDenomResponse{}, nil
}

type perpStub struct {
	w                   *vrf.World
	price               sdkmath.LegacyDec
	openFails, estFails bool
	opens               int
}

func (p *perpStub) Open(ctx sdk.Context, msg *perptypes.MsgOpen) (*perptypes.MsgOpenResponse, error) {
	if p.openFails {
		return nil, perptypes.ErrInvalidLeverage
	}
	w := vrf.WorldOf(ctx)
	c := sdk.MustAccAddressFromBech32(msg.Creator)
	if w.BalOf(c, msg.Collateral.Denom).LT(msg.Collateral.Amount) {
		return nil, perptypes.ErrInvalidLeverage
	}
	p.opens++
	w.SetBal(c, msg.Collateral.Denom, w.BalOf(c, msg.Collateral.Denom).Sub(msg.Collateral.Amount))
	return &perptypes.MsgOpenResponse{Id: 1}, nil
}
func (p *perpStub) Close(ctx sdk.Context, msg *perptypes.MsgClose) (*perptypes.MsgCloseResponse, error) {
	return nil, perptypes.ErrInvalidLeverage
}
func (p *perpStub) GetMTP(ctx sdk.Context, a sdk.AccAddress, id uint64) (perptypes.MTP, error) {
	return perptypes.MTP{}, perptypes.ErrMTPDoesNotExist
}
func (p *perpStub) GetPool(ctx sdk.Context, poolId uint64) (perptypes.Pool, bool) {
	return perptypes.Pool{AmmPoolId: poolId}, true
}
func (p *perpStub) GetParams(ctx sdk.Context) perptypes.Params { return perptypes.DefaultParams() }
func (p *perpStub) HandleOpenEstimation(ctx sdk.Context, req *perptypes.QueryOpenEstimationRequest) (*perptypes.QueryOpenEstimationResponse, error) {
	if p.estFails {
		return nil, perptypes.ErrInvalidLeverage
	}
	return &perptypes.QueryOpenEstimationResponse{}, nil
}
func (p *perpStub) HandleCloseEstimation(ctx sdk.Context, req *perptypes.QueryCloseEstimationRequest) (*perptypes.QueryCloseEstimationResponse, error) {
	return nil, perptypes.ErrInvalidLeverage
}
func (p *perpStub) GetAssetPrice(ctx sdk.Context, asset string) (sdkmath.LegacyDec, error) {
	return p.price, nil
}
func (p *perpStub) GetMTPsForAddressWithPagination(ctx sdk.Context, a sdk.AccAddress, pg *query.PageRequest) ([]*perptypes.MtpAndPrice, *query.PageResponse, error) {
	return nil, nil, nil
}

// concrete case split over the limit order types / position sides
func pickType() tstypes.SpotOrderType {
	switch vrf.I64("orderType", 0, 2) {
	case 0:
		return tstypes.SpotOrderType_STOPLOSS
	case 1:
		return tstypes.SpotOrderType_LIMITSELL
	}
	return tstypes.SpotOrderType_LIMITBUY
}

func pickPosition() tstypes.PerpetualPosition {
	if vrf.I64("position", 1, 2) == 1 {
		return tstypes.PerpetualPosition_LONG
	}
	return tstypes.PerpetualPosition_SHORT
}

type world struct {
	w    *vrf.World
	ctx  sdk.Context
	k    *tskeeper.Keeper
	srv  tstypes.MsgServer
	amm  *ammStub
	perp *perpStub
}

func setup() *world {
	w := vrf.NewWorld()
	ctx := vrf.SetBlock(vrf.NewCtx(w), 10, 1000)
	s := &world{w: w, ctx: ctx}
	pa, pu := vrf.Dec("priceAtom"), vrf.Dec("priceUsdc")
	vrf.Assume(!pa.IsNegative())
	vrf.Assume(!pu.IsNegative())
	out := vrf.Int("swapOut")
	vrf.Assume(!out.IsNegative())
	s.amm = &ammStub{w: w, pAtom: pa, pUsdc: pu, swapFails: vrf.Bool("swapFails"), out: out}
	mp := vrf.Dec("perpMarketPrice")
	vrf.Assume(!mp.IsNegative())
	s.perp = &perpStub{w: w, price: mp, openFails: vrf.Bool("openFails"), estFails: vrf.Bool("estimationFails")}
	s.k = tskeeper.NewKeeper(vrf.Codec{}, runtime.NewKVStoreService(storetypes.NewKVStoreKey(tstypes.StoreKey)), wire.Gov, vrf.Bank{}, s.amm, s.perp)
	s.srv = tskeeper.NewMsgServerImpl(*s.k)
	return s
}

func (s *world) total(a sdk.AccAddress, escrow sdk.AccAddress, denom string) sdkmath.Int {
	return s.w.BalOf(a, denom).Add(s.w.BalOf(escrow, denom))
}

// a pending limit order of the given type owned by `owner`, escrow funded
func (s *world) pendingSpot(t tstypes.SpotOrderType) (tstypes.SpotOrder, sdkmath.Int) {
	amt, rate := vrf.Int("orderAmount"), vrf.Dec("orderPrice")
	vrf.Assume(amt.IsPositive())
	vrf.Assume(rate.IsPositive())
	o := tstypes.SpotOrder{OrderType: t, OrderPrice: tstypes.OrderPrice{BaseDenom: atom, QuoteDenom: usdc, Rate: rate},
		OrderAmount: sdk.Coin{Denom: atom, Amount: amt}, OwnerAddress: owner.String(), OrderTargetDenom: usdc,
		Date: &tstypes.Date{Height: 5, Timestamp: 500}}
	id := s.k.AppendPendingSpotOrder(s.ctx, o)
	o.OrderId = id
	s.w.SetBal(o.GetOrderAddress(), atom, amt)
	wal := vrf.Int("ownerWallet")
	vrf.Assume(!wal.IsNegative())
	s.w.SetBal(owner, atom, wal)
	return o, wal
}

// create: wallet + escrow conserved, escrow = order amount, order stored for the owner
//
//vrf:cover created refused
//vrf:bound limit order types (stop-loss, limit-sell, limit-buy), symbolic amount / price / wallet
func H_Spot_Create() {
	s := setup()
	t := pickType()
	amt, rate, wal := vrf.Int("orderAmount"), vrf.Dec("orderPrice"), vrf.Int("ownerWallet")
	vrf.Assume(amt.IsPositive())
	vrf.Assume(rate.IsPositive())
	vrf.Assume(!wal.IsNegative())
	s.w.SetBal(owner, atom, wal)
	res, err := s.srv.CreateSpotOrder(s.ctx, &tstypes.MsgCreateSpotOrder{OrderType: t, OrderPrice: tstypes.OrderPrice{BaseDenom: atom, QuoteDenom: usdc, Rate: rate},
		OrderAmount: sdk.Coin{Denom: atom, Amount: amt}, OwnerAddress: owner.String(), OrderTargetDenom: usdc})
	if err != nil {
		vrf.Cover("refused")
		return // failed transaction: rolled back by baseapp
	}
	vrf.Cover("created")
	esc := tstypes.GetSpotOrderAddress(res.OrderId)
	vrf.Assert(s.w.BalOf(esc, atom).Equal(amt), "C20 create: escrow holds exactly the order amount")
	vrf.Assert(s.total(owner, esc, atom).Equal(wal), "C20 create: owner's wallet + escrow is conserved")
	o, found := s.k.GetPendingSpotOrder(s.ctx, res.OrderId)
	vrf.Assert(found, "C20 create: order is pending")
	vrf.Assert(o.OwnerAddress == owner.String(), "C20 create: order belongs to its creator")
}

// update / cancel by someone else: refused, nothing changes; by the owner: cancel returns the full escrow
//
//vrf:cover other-refused owner-cancelled owner-updated
//vrf:bound 1 pending order of any limit type; sender is the owner or someone else (symbolic); update or cancel (single and batch form)
func H_Spot_UpdateCancel() {
	s := setup()
	o, wal := s.pendingSpot(pickType())
	esc := o.GetOrderAddress()
	byOwner := vrf.Bool("byOwner")
	sender := other
	if byOwner {
		sender = owner
	}
	before := s.w.TotalWrites()
	op := vrf.I64("op", 0, 2)
	var err error
	switch op {
	case 0:
		_, err = s.srv.UpdateSpotOrder(s.ctx, &tstypes.MsgUpdateSpotOrder{OwnerAddress: sender.String(), OrderId: o.OrderId, OrderPrice: tstypes.OrderPrice{BaseDenom: atom, QuoteDenom: usdc, Rate: vrf.Dec("newPrice")}})
	case 1:
		_, err = s.srv.CancelSpotOrder(s.ctx, &tstypes.MsgCancelSpotOrder{OwnerAddress: sender.String(), OrderId: o.OrderId})
	case 2:
		_, err = s.srv.CancelSpotOrders(s.ctx, &tstypes.MsgCancelSpotOrders{Creator: sender.String(), SpotOrderIds: []uint64{o.OrderId}})
	}
	if !byOwner {
		vrf.Cover("other-refused")
		vrf.Assert(err != nil, "C20/C17: only the owner can update or cancel an order")
		vrf.Assert(s.w.TotalWrites() == before, "C20/C17: a refused update/cancel changes nothing")
		return
	}
	vrf.Assert(err == nil, "C20: the owner can always update / cancel")
	if op == 0 {
		vrf.Cover("owner-updated")
		vrf.Assert(s.w.BalOf(esc, atom).Equal(o.OrderAmount.Amount), "C20 update: escrow untouched")
		vrf.Assert(s.w.BalOf(owner, atom).Equal(wal), "C20 update: wallet untouched")
		return
	}
	vrf.Cover("owner-cancelled")
	vrf.Assert(s.w.BalOf(esc, atom).IsZero(), "C20 cancel: escrow emptied")
	vrf.Assert(s.w.BalOf(owner, atom).Equal(wal.Add(o.OrderAmount.Amount)), "C20 cancel: the full escrow returns to the owner")
	_, found := s.k.GetPendingSpotOrder(s.ctx, o.OrderId)
	vrf.Assert(!found, "C20 cancel: order removed")
}

// execution request from anyone: untouched unless the trigger condition holds; conserved on failure;
// on success exactly the order amount is spent on the owner's behalf and the output goes to the owner
//
//vrf:cover skipped executed failed
//vrf:bound 1 pending order of any limit type, arbitrary market prices (incl. absent), swap fails or succeeds; executor is not the owner
func H_Spot_Execute() {
	s := setup()
	t := pickType()
	o, wal := s.pendingSpot(t)
	esc := o.GetOrderAddress()
	usdc0 := s.w.BalOf(owner, usdc)
	_, err := s.srv.ExecuteOrders(s.ctx, &tstypes.MsgExecuteOrders{Creator: other.String(), SpotOrderIds: []uint64{o.OrderId}})
	vrf.Assert(err == nil, "C20 execute: the batch handler itself does not fail for an existing order")
	_, pending := s.k.GetPendingSpotOrder(s.ctx, o.OrderId)
	// the trigger condition: stop-loss and limit-buy fire at or below the order price, limit-sell at or above
	havePrices := s.amm.pAtom.IsPositive() && s.amm.pUsdc.IsPositive()
	triggered := false
	if havePrices {
		market := s.amm.pAtom.Quo(s.amm.pUsdc)
		if t == tstypes.SpotOrderType_LIMITSELL {
			triggered = market.GTE(o.OrderPrice.Rate)
		} else {
			triggered = market.LTE(o.OrderPrice.Rate)
		}
		if market.IsZero() {
			triggered = false
		}
	}
	vrf.Assert(s.w.BalOf(other, atom).IsZero() && s.w.BalOf(other, usdc).IsZero(), "C20 execute: the executor gains nothing")
	if s.amm.swaps == 0 {
		// not executed: funds conserved
		vrf.Assert(s.total(owner, esc, atom).Equal(wal.Add(o.OrderAmount.Amount)), "C20 execute: owner's wallet + escrow conserved when nothing is executed")
		vrf.Assert(pending, "C20 execute: an order that was not executed stays pending")
		if !triggered {
			vrf.Cover("skipped")
			vrf.Assert(s.w.BalOf(esc, atom).Equal(o.OrderAmount.Amount), "C20 execute: untouched unless the trigger condition holds (escrow)")
			vrf.Assert(s.w.BalOf(owner, atom).Equal(wal), "C20 execute: untouched unless the trigger condition holds (wallet)")
		} else {
			vrf.Cover("failed")
			// (fixed, see known_findings.txt) the escrow had gone to the owner before the swap failed
			vrf.Assert(s.w.BalOf(esc, atom).Equal(o.OrderAmount.Amount), "C20 execute: a failed execution attempt leaves the escrow in place")
			_, cerr := s.srv.CancelSpotOrder(s.ctx, &tstypes.MsgCancelSpotOrder{OwnerAddress: owner.String(), OrderId: o.OrderId})
			vrf.Assert(cerr == nil, "C20 execute: the owner can still cancel after a failed execution attempt")
			vrf.Assert(s.w.BalOf(owner, atom).Equal(wal.Add(o.OrderAmount.Amount)), "C20 execute: cancelling after a failed attempt returns the full escrow")
		}
		return
	}
	vrf.Cover("executed")
	vrf.Assert(triggered, "C20 execute: an order executes only when its trigger condition holds")
	vrf.Assert(s.total(owner, esc, atom).Equal(wal), "C20 execute: exactly the order amount is spent")
	vrf.Assert(s.w.BalOf(owner, usdc).Equal(usdc0.Add(s.amm.out)), "C20 execute: the output goes to the owner")
	vrf.Assert(!pending, "C20 execute: an executed order is removed")
}

// ---- perpetual limit-open orders ----

func (s *world) pendingPerp() (tstypes.PerpetualOrder, sdkmath.Int) {
	amt, rate := vrf.Int("collateral"), vrf.Dec("triggerPrice")
	vrf.Assume(amt.IsPositive())
	vrf.Assume(rate.IsPositive())
	pos := pickPosition()
	o := tstypes.PerpetualOrder{PerpetualOrderType: tstypes.PerpetualOrderType_LIMITOPEN, TriggerPrice: tstypes.TriggerPrice{TradingAssetDenom: atom, Rate: rate},
		Collateral: sdk.Coin{Denom: usdc, Amount: amt}, OwnerAddress: owner.String(), TradingAsset: atom, Position: pos,
		Leverage: sdkmath.LegacyNewDec(2), TakeProfitPrice: sdkmath.LegacyNewDec(3), StopLossPrice: sdkmath.LegacyZeroDec(), PoolId: 1, Status: tstypes.Status_PENDING}
	id := s.k.AppendPendingPerpetualOrder(s.ctx, o)
	o.OrderId = id
	s.w.SetBal(o.GetOrderAddress(), usdc, amt)
	wal := vrf.Int("ownerWallet")
	vrf.Assume(!wal.IsNegative())
	s.w.SetBal(owner, usdc, wal)
	return o, wal
}

//vrf:cover created refused
func H_Perp_Create() {
	s := setup()
	amt, rate, wal := vrf.Int("collateral"), vrf.Dec("triggerPrice"), vrf.Int("ownerWallet")
	vrf.Assume(amt.IsPositive())
	vrf.Assume(rate.IsPositive())
	vrf.Assume(!wal.IsNegative())
	s.w.SetBal(owner, usdc, wal)
	res, err := s.srv.CreatePerpetualOpenOrder(s.ctx, &tstypes.MsgCreatePerpetualOpenOrder{OwnerAddress: owner.String(), TriggerPrice: tstypes.TriggerPrice{TradingAssetDenom: atom, Rate: rate},
		Collateral: sdk.Coin{Denom: usdc, Amount: amt}, TradingAsset: atom, Position: pickPosition(),
		Leverage: sdkmath.LegacyNewDec(2), TakeProfitPrice: sdkmath.LegacyNewDec(3), StopLossPrice: sdkmath.LegacyZeroDec(), PoolId: 1})
	if err != nil {
		vrf.Cover("refused")
		return
	}
	vrf.Cover("created")
	esc := tstypes.GetPerpOrderAddress(res.OrderId)
	vrf.Assert(s.w.BalOf(esc, usdc).Equal(amt), "C20 create(perp): escrow holds exactly the collateral")
	vrf.Assert(s.total(owner, esc, usdc).Equal(wal), "C20 create(perp): owner's wallet + escrow is conserved")
}

//vrf:cover other-refused owner-cancelled
func H_Perp_Cancel() {
	s := setup()
	o, wal := s.pendingPerp()
	esc := o.GetOrderAddress()
	byOwner := vrf.Bool("byOwner")
	sender := other
	if byOwner {
		sender = owner
	}
	before := s.w.TotalWrites()
	var err error
	if vrf.Bool("batch") {
		_, err = s.srv.CancelPerpetualOrders(s.ctx, &tstypes.MsgCancelPerpetualOrders{OwnerAddress: sender.String(), OrderIds: []uint64{o.OrderId}})
	} else {
		_, err = s.srv.CancelPerpetualOrder(s.ctx, &tstypes.MsgCancelPerpetualOrder{OwnerAddress: sender.String(), OrderId: o.OrderId})
	}
	if !byOwner {
		vrf.Cover("other-refused")
		vrf.Assert(err != nil, "C20/C17: only the owner can cancel a perpetual order")
		vrf.Assert(s.w.TotalWrites() == before, "C20/C17: a refused cancel changes nothing")
		return
	}
	vrf.Cover("owner-cancelled")
	vrf.Assert(err == nil, "C20: the owner can always cancel")
	vrf.Assert(s.w.BalOf(esc, usdc).IsZero(), "C20 cancel(perp): escrow emptied")
	vrf.Assert(s.w.BalOf(owner, usdc).Equal(wal.Add(o.Collateral.Amount)), "C20 cancel(perp): the full escrow returns to the owner")
}

// execution attempt by anyone, then a cancel by the owner: funds conserved throughout, and the owner
// can still get rid of the order (cancel succeeds) after a failed execution
//
//vrf:cover skipped executed failed-then-cancelled
func H_Perp_ExecuteThenCancel() {
	s := setup()
	o, wal := s.pendingPerp()
	esc := o.GetOrderAddress()
	_, err := s.srv.ExecuteOrders(s.ctx, &tstypes.MsgExecuteOrders{Creator: other.String(), PerpetualOrderIds: []uint64{o.OrderId}})
	vrf.Assert(err == nil, "C20 execute(perp): the batch handler does not fail for an existing order")
	triggered := s.perp.price.LTE(o.TriggerPrice.Rate)
	if o.Position == tstypes.PerpetualPosition_SHORT {
		triggered = s.perp.price.GTE(o.TriggerPrice.Rate)
	}
	_, pending := s.k.GetPendingPerpetualOrder(s.ctx, o.OrderId)
	if s.perp.opens > 0 {
		vrf.Cover("executed")
		vrf.Assert(triggered, "C20 execute(perp): executes only when the trigger condition holds")
		vrf.Assert(s.total(owner, esc, usdc).Equal(wal), "C20 execute(perp): exactly the collateral is spent")
		vrf.Assert(!pending, "C20 execute(perp): an executed order is removed")
		return
	}
	vrf.Assert(s.total(owner, esc, usdc).Equal(wal.Add(o.Collateral.Amount)), "C20 execute(perp): wallet + escrow conserved when nothing is opened")
	vrf.Assert(pending, "C20 execute(perp): an order that was not executed stays pending")
	if !triggered {
		vrf.Cover("skipped")
		vrf.Assert(s.w.BalOf(esc, usdc).Equal(o.Collateral.Amount), "C20 execute(perp): untouched unless the trigger condition holds")
		return
	}
	// failed execution: the owner must still be able to cancel and end up with everything
	_, cerr := s.srv.CancelPerpetualOrder(s.ctx, &tstypes.MsgCancelPerpetualOrder{OwnerAddress: owner.String(), OrderId: o.OrderId})
	vrf.Cover("failed-then-cancelled")
	vrf.Assert(cerr == nil, "C20: after a failed execution the owner can still cancel the order")
	vrf.Assert(s.w.BalOf(owner, usdc).Equal(wal.Add(o.Collateral.Amount)), "C20: after a failed execution and a cancel the owner holds everything")
}

// ---- isolation between order families and between orders ----

// A spot order of `owner` and a perpetual order of `other` are created through the real handlers (both get the
// first id of their own counter) and then one of them is cancelled by its owner: the other order's escrow,
// its owner's funds and its pending status are untouched.
//
//vrf:cover spot-cancelled perp-cancelled
//vrf:bound 1 pending spot order + 1 pending perpetual order with the same numeric id, different owners; symbolic amounts
func H_Isolation_SpotVsPerp() {
	s := setup()
	t := pickType()
	a1, rate, c2, trig := vrf.Int("orderAmount"), vrf.Dec("orderPrice"), vrf.Int("collateral"), vrf.Dec("triggerPrice")
	vrf.Assume(a1.IsPositive())
	vrf.Assume(rate.IsPositive())
	vrf.Assume(c2.IsPositive())
	vrf.Assume(trig.IsPositive())
	s.w.SetBal(owner, atom, a1)
	s.w.SetBal(other, usdc, c2)
	r1, err := s.srv.CreateSpotOrder(s.ctx, &tstypes.MsgCreateSpotOrder{OrderType: t, OrderPrice: tstypes.OrderPrice{BaseDenom: atom, QuoteDenom: usdc, Rate: rate},
		OrderAmount: sdk.Coin{Denom: atom, Amount: a1}, OwnerAddress: owner.String(), OrderTargetDenom: usdc})
	if err != nil {
		return
	}
	r2, err := s.srv.CreatePerpetualOpenOrder(s.ctx, &tstypes.MsgCreatePerpetualOpenOrder{OwnerAddress: other.String(), TriggerPrice: tstypes.TriggerPrice{TradingAssetDenom: atom, Rate: trig},
		Collateral: sdk.Coin{Denom: usdc, Amount: c2}, TradingAsset: atom, Position: pickPosition(),
		Leverage: sdkmath.LegacyNewDec(2), TakeProfitPrice: sdkmath.LegacyNewDec(3), StopLossPrice: sdkmath.LegacyZeroDec(), PoolId: 1})
	if err != nil {
		return
	}
	escSpot, escPerp := tstypes.GetSpotOrderAddress(r1.OrderId), tstypes.GetPerpOrderAddress(r2.OrderId)
	vrf.Assert(!escSpot.Equals(escPerp), "C20: a spot order and a perpetual order never share an escrow account")
	if vrf.Bool("cancelSpot") {
		_, err = s.srv.CancelSpotOrder(s.ctx, &tstypes.MsgCancelSpotOrder{OwnerAddress: owner.String(), OrderId: r1.OrderId})
		vrf.Assert(err == nil, "C20: the owner can always cancel")
		vrf.Cover("spot-cancelled")
		vrf.Assert(s.w.BalOf(owner, atom).Equal(a1), "C20 isolation: the cancelling owner gets back exactly his own escrow (atom)")
		vrf.Assert(s.w.BalOf(owner, usdc).IsZero(), "C20 isolation: the cancelling owner gets nothing of the other order's escrow")
		vrf.Assert(s.total(other, escPerp, usdc).Equal(c2), "C20 isolation: the other owner's wallet + escrow is untouched by someone else's cancel")
		_, found := s.k.GetPendingPerpetualOrder(s.ctx, r2.OrderId)
		vrf.Assert(found, "C20 isolation: the other order is still pending")
		_, err = s.srv.CancelPerpetualOrder(s.ctx, &tstypes.MsgCancelPerpetualOrder{OwnerAddress: other.String(), OrderId: r2.OrderId})
		vrf.Assert(err == nil, "C20 isolation: the other owner can still cancel and")
		vrf.Assert(s.w.BalOf(other, usdc).Equal(c2), "C20 isolation: gets his full collateral back")
		return
	}
	_, err = s.srv.CancelPerpetualOrder(s.ctx, &tstypes.MsgCancelPerpetualOrder{OwnerAddress: other.String(), OrderId: r2.OrderId})
	vrf.Assert(err == nil, "C20: the owner can always cancel")
	vrf.Cover("perp-cancelled")
	vrf.Assert(s.w.BalOf(other, usdc).Equal(c2), "C20 isolation: the cancelling owner gets back exactly his own escrow (usdc)")
	vrf.Assert(s.w.BalOf(other, atom).IsZero(), "C20 isolation: the cancelling owner gets nothing of the other order's escrow")
	vrf.Assert(s.total(owner, escSpot, atom).Equal(a1), "C20 isolation: the other owner's wallet + escrow is untouched by someone else's cancel")
	_, found := s.k.GetPendingSpotOrder(s.ctx, r1.OrderId)
	vrf.Assert(found, "C20 isolation: the other order is still pending")
}

// Two spot orders of different owners: cancelling one leaves the other's escrow alone.
//
//vrf:cover cancelled
//vrf:bound 2 pending spot orders (consecutive ids), different owners
func H_Isolation_SpotVsSpot() {
	s := setup()
	a1, a2, rate := vrf.Int("orderAmount"), vrf.Int("orderAmount2"), vrf.Dec("orderPrice")
	vrf.Assume(a1.IsPositive())
	vrf.Assume(a2.IsPositive())
	vrf.Assume(rate.IsPositive())
	s.w.SetBal(owner, atom, a1)
	s.w.SetBal(other, atom, a2)
	mk := func(who sdk.AccAddress, amt sdkmath.Int) (uint64, error) {
		r, err := s.srv.CreateSpotOrder(s.ctx, &tstypes.MsgCreateSpotOrder{OrderType: tstypes.SpotOrderType_LIMITSELL, OrderPrice: tstypes.OrderPrice{BaseDenom: atom, QuoteDenom: usdc, Rate: rate},
			OrderAmount: sdk.Coin{Denom: atom, Amount: amt}, OwnerAddress: who.String(), OrderTargetDenom: usdc})
		if err != nil {
			return 0, err
		}
		return r.OrderId, nil
	}
	id1, err := mk(owner, a1)
	if err != nil {
		return
	}
	id2, err := mk(other, a2)
	if err != nil {
		return
	}
	vrf.Assert(id1 != id2, "C20: orders get distinct ids")
	_, err = s.srv.CancelSpotOrder(s.ctx, &tstypes.MsgCancelSpotOrder{OwnerAddress: owner.String(), OrderId: id1})
	vrf.Assert(err == nil, "C20: the owner can always cancel")
	vrf.Cover("cancelled")
	vrf.Assert(s.w.BalOf(owner, atom).Equal(a1), "C20 isolation: the cancelling owner gets back exactly his own escrow")
	vrf.Assert(s.total(other, tstypes.GetSpotOrderAddress(id2), atom).Equal(a2), "C20 isolation: the other owner's wallet + escrow is untouched")
	vrf.Assert(s.w.BalOf(tstypes.GetSpotOrderAddress(id2), atom).Equal(a2), "C20 isolation: the other order's escrow still holds its amount")
}

// Two pending orders of different owners; the older one is cancelled and its owner places a new order: the new order
// gets an id (hence an escrow account and a store record) of its own, so the other owner's pending order and escrow are
// exactly as before, both owners can cancel, and each gets back exactly what he escrowed.
//
//vrf:cover done
//vrf:bound 2 pending orders of one kind (spot or perpetual, symbolic) with consecutive ids and different owners, symbolic amounts; cancel of the older one, a new order by the same owner, then both cancels
func H_Isolation_CancelThenCreate() {
	s := setup()
	perp := vrf.Bool("perpetualOrders")
	a1, a2, a3, rate := vrf.Int("orderAmount"), vrf.Int("orderAmount2"), vrf.Int("orderAmount3"), vrf.Dec("orderPrice")
	for _, a := range []sdkmath.Int{a1, a2, a3} {
		vrf.Assume(a.IsPositive())
	}
	vrf.Assume(rate.IsPositive())
	denom := atom
	if perp {
		denom = usdc
	}
	s.w.SetBal(owner, denom, a1.Add(a3))
	s.w.SetBal(other, denom, a2)
	mk := func(who sdk.AccAddress, amt sdkmath.Int) (uint64, error) {
		if perp {
			r, err := s.srv.CreatePerpetualOpenOrder(s.ctx, &tstypes.MsgCreatePerpetualOpenOrder{OwnerAddress: who.String(), TriggerPrice: tstypes.TriggerPrice{TradingAssetDenom: atom, Rate: rate},
				Collateral: sdk.Coin{Denom: usdc, Amount: amt}, TradingAsset: atom, Position: tstypes.PerpetualPosition_LONG,
				Leverage: sdkmath.LegacyNewDec(2), TakeProfitPrice: sdkmath.LegacyNewDec(3), StopLossPrice: sdkmath.LegacyZeroDec(), PoolId: 1})
			if err != nil {
				return 0, err
			}
			return r.OrderId, nil
		}
		r, err := s.srv.CreateSpotOrder(s.ctx, &tstypes.MsgCreateSpotOrder{OrderType: tstypes.SpotOrderType_LIMITSELL, OrderPrice: tstypes.OrderPrice{BaseDenom: atom, QuoteDenom: usdc, Rate: rate},
			OrderAmount: sdk.Coin{Denom: atom, Amount: amt}, OwnerAddress: who.String(), OrderTargetDenom: usdc})
		if err != nil {
			return 0, err
		}
		return r.OrderId, nil
	}
	cancel := func(who sdk.AccAddress, id uint64) error {
		if perp {
			_, err := s.srv.CancelPerpetualOrder(s.ctx, &tstypes.MsgCancelPerpetualOrder{OwnerAddress: who.String(), OrderId: id})
			return err
		}
		_, err := s.srv.CancelSpotOrder(s.ctx, &tstypes.MsgCancelSpotOrder{OwnerAddress: who.String(), OrderId: id})
		return err
	}
	escrow := func(id uint64) sdk.AccAddress {
		if perp {
			return tstypes.GetPerpOrderAddress(id)
		}
		return tstypes.GetSpotOrderAddress(id)
	}
	ownerOf := func(id uint64) (string, bool) {
		if perp {
			o, found := s.k.GetPendingPerpetualOrder(s.ctx, id)
			return o.OwnerAddress, found
		}
		o, found := s.k.GetPendingSpotOrder(s.ctx, id)
		return o.OwnerAddress, found
	}
	id1, err := mk(owner, a1)
	if err != nil {
		return
	}
	id2, err := mk(other, a2)
	if err != nil {
		return
	}
	vrf.Assert(cancel(owner, id1) == nil, "C20: the owner can always cancel")
	id3, err := mk(owner, a3)
	if err != nil {
		return
	}
	vrf.Cover("done")
	vrf.Assert(id3 != id2, "C20 isolation: a new order never takes the id (escrow account, store record) of an order that is still pending")
	who, found := ownerOf(id2)
	vrf.Assert(found && who == other.String(), "C20 isolation: the other owner's pending order is still his after someone else's cancel and new order")
	vrf.Assert(s.w.BalOf(escrow(id2), denom).Equal(a2), "C20 isolation: the other order's escrow still holds exactly its amount")
	vrf.Assert(cancel(owner, id3) == nil, "C20: the owner can cancel his new order")
	vrf.Assert(s.w.BalOf(owner, denom).Equal(a1.Add(a3)), "C20 isolation: the owner gets back exactly what he escrowed, no more")
	vrf.Assert(cancel(other, id2) == nil, "C20: the other owner can still cancel his order")
	vrf.Assert(s.w.BalOf(other, denom).Equal(a2), "C20 isolation: the other owner gets his full escrow back")
}

// One execution request naming two pending spot orders of different owners: each order is settled (or left alone) on
// its own - what one order's execution does never touches the other order's escrow, record or owner.
//
//vrf:cover done both-executed none-executed
//vrf:bound 2 pending limit-sell orders (consecutive ids) of different owners with symbolic amounts and prices, one MsgExecuteOrders by a third party naming both; market prices arbitrary (incl. absent), swap fails or succeeds
func H_Spot_Execute_TwoOrders() {
	s := setup()
	a1, a2 := vrf.Int("orderAmount"), vrf.Int("orderAmount2")
	r1, r2 := vrf.Dec("orderPrice"), vrf.Dec("orderPrice2")
	vrf.Assume(a1.IsPositive())
	vrf.Assume(a2.IsPositive())
	vrf.Assume(r1.IsPositive())
	vrf.Assume(r2.IsPositive())
	third := sdk.AccAddress([]byte("executor____________"))
	mk := func(who sdk.AccAddress, amt sdkmath.Int, rate sdkmath.LegacyDec) tstypes.SpotOrder {
		o := tstypes.SpotOrder{OrderType: tstypes.SpotOrderType_LIMITSELL, OrderPrice: tstypes.OrderPrice{BaseDenom: atom, QuoteDenom: usdc, Rate: rate},
			OrderAmount: sdk.Coin{Denom: atom, Amount: amt}, OwnerAddress: who.String(), OrderTargetDenom: usdc,
			Date: &tstypes.Date{Height: 5, Timestamp: 500}}
		o.OrderId = s.k.AppendPendingSpotOrder(s.ctx, o)
		s.w.SetBal(o.GetOrderAddress(), atom, amt)
		return o
	}
	o1, o2 := mk(owner, a1, r1), mk(other, a2, r2)
	_, err := s.srv.ExecuteOrders(s.ctx, &tstypes.MsgExecuteOrders{Creator: third.String(), SpotOrderIds: []uint64{o1.OrderId, o2.OrderId}})
	if err != nil {
		return // failed transaction: rolled back by baseapp
	}
	vrf.Cover("done")
	executed := 0
	for _, q := range []struct {
		o   tstypes.SpotOrder
		who sdk.AccAddress
		amt sdkmath.Int
	}{{o1, owner, a1}, {o2, other, a2}} {
		rec, pending := s.k.GetPendingSpotOrder(s.ctx, q.o.OrderId)
		esc := s.w.BalOf(q.o.GetOrderAddress(), atom)
		if pending {
			vrf.Assert(rec.OwnerAddress == q.who.String() && rec.OrderAmount.Amount.Equal(q.amt), "C20 execute(two): a pending order's record is untouched by the other order's execution")
			vrf.Assert(esc.Equal(q.amt), "C20 execute(two): a pending order's escrow still holds exactly its amount")
			vrf.Assert(s.w.BalOf(q.who, usdc).IsZero(), "C20 execute(two): the owner of an order that was not executed receives nothing")
		} else {
			executed++
			vrf.Assert(esc.IsZero(), "C20 execute(two): an executed order's escrow is spent")
			vrf.Assert(s.w.BalOf(q.who, usdc).Equal(s.amm.out), "C20 execute(two): the output of an order goes to its own owner, once")
		}
		vrf.Assert(s.w.BalOf(q.who, atom).IsZero(), "C20 execute(two): nothing of the sold asset reaches an owner's wallet")
	}
	vrf.Assert(s.amm.swaps == executed, "C20 execute(two): one swap per executed order")
	vrf.Assert(s.w.BalOf(third, atom).IsZero() && s.w.BalOf(third, usdc).IsZero(), "C20 execute(two): the executor gains nothing")
	if executed == 2 {
		vrf.Cover("both-executed")
	}
	if executed == 0 {
		vrf.Cover("none-executed")
	}
}

// One execution request naming the same spot order twice (and the same perpetual order twice): the order is executed
// at most once - the second entry finds it gone (the request fails and is rolled back) or does nothing.
//
//vrf:cover done rolled-back
//vrf:bound 1 pending limit order of any type named twice in one MsgExecuteOrders by a third party; market prices arbitrary, swap fails or succeeds
func H_Spot_Execute_SameOrderTwice() {
	s := setup()
	t := pickType()
	o, wal := s.pendingSpot(t)
	esc := o.GetOrderAddress()
	usdc0 := s.w.BalOf(owner, usdc)
	_, err := s.srv.ExecuteOrders(s.ctx, &tstypes.MsgExecuteOrders{Creator: other.String(), SpotOrderIds: []uint64{o.OrderId, o.OrderId}})
	if err != nil {
		vrf.Cover("rolled-back")
		return // failed transaction: rolled back by baseapp
	}
	vrf.Cover("done")
	vrf.Assert(s.amm.swaps <= 1, "C20 execute(repeated): an order named twice in one request is executed at most once")
	if s.amm.swaps == 0 {
		vrf.Assert(s.total(owner, esc, atom).Equal(wal.Add(o.OrderAmount.Amount)), "C20 execute(repeated): owner's wallet + escrow conserved when nothing is executed")
	} else {
		vrf.Assert(s.total(owner, esc, atom).Equal(wal), "C20 execute(repeated): exactly the order amount is spent, once")
		vrf.Assert(s.w.BalOf(owner, usdc).Equal(usdc0.Add(s.amm.out)), "C20 execute(repeated): the output goes to the owner, once")
	}
}
