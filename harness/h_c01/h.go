// Package h_c01: inductive-step harnesses for C01 — for every pool and asset the
// book reserve equals the bank balance at the pool address (up to third-party
// donations, which only make the bank balance larger) and the per-denom
// liquidity total equals the sum of reserves.
package h_c01

import (
	sdkmath "cosmossdk.io/math"
	sdk "github.com/cosmos/cosmos-sdk/types"
	ammtypes "github.com/elys-network/elys/x/amm/types"
	vrf "github.com/elys-network/elys/zzvrf"
	"github.com/elys-network/elys/zzvrf/wire"
)

var (
	poolAddr = ammtypes.NewPoolAddress(1)
	treasury = ammtypes.NewPoolRebalanceTreasury(1)
	revenue  = ammtypes.NewPoolRevenueAddress(1)
	sender   = sdk.AccAddress([]byte("sender______________"))
)

const (
	atom = "uatom"
	usdc = "uusdc"
)

type state struct {
	env    *wire.Env
	ba, bu sdkmath.Int // book reserves
	da, du sdkmath.Int // donations (bank - book)
	la, lu sdkmath.Int // liquidity of the other pools
	pool   ammtypes.Pool
}

func setup(useOracle bool, fee sdkmath.LegacyDec) *state {
	env := wire.New(wire.Opts{})
	s := &state{env: env}
	ctx := env.Ctx
	env.Amm.SetParams(ctx, ammtypes.DefaultParams())
	s.ba, s.bu = vrf.Int("bookAtom"), vrf.Int("bookUsdc")
	s.da, s.du = vrf.Int("donAtom"), vrf.Int("donUsdc")
	s.la, s.lu = vrf.Int("liqAtomOther"), vrf.Int("liqUsdcOther")
	vrf.Assume(s.ba.IsPositive())
	vrf.Assume(s.bu.IsPositive())
	vrf.Assume(!s.da.IsNegative())
	vrf.Assume(!s.du.IsNegative())
	vrf.Assume(!s.la.IsNegative())
	vrf.Assume(!s.lu.IsNegative())
	s.pool = ammtypes.Pool{
		PoolId: 1, Address: poolAddr.String(), RebalanceTreasury: treasury.String(),
		PoolParams:  ammtypes.PoolParams{UseOracle: useOracle, SwapFee: fee, FeeDenom: usdc},
		TotalShares: sdk.Coin{Denom: ammtypes.GetPoolShareDenom(1), Amount: sdkmath.NewInt(1000000)},
		PoolAssets: []ammtypes.PoolAsset{
			{Token: sdk.Coin{Denom: atom, Amount: s.ba}, Weight: sdkmath.NewInt(1)},
			{Token: sdk.Coin{Denom: usdc, Amount: s.bu}, Weight: sdkmath.NewInt(1)},
		},
		TotalWeight: sdkmath.NewInt(2),
	}
	env.Amm.SetPool(ctx, s.pool)
	// hypothesis: bank = book + donation ; DenomLiquidity = book + liquidity of the other pools
	env.W.SetBal(poolAddr, atom, s.ba.Add(s.da))
	env.W.SetBal(poolAddr, usdc, s.bu.Add(s.du))
	env.Amm.SetDenomLiquidity(ctx, ammtypes.DenomLiquidity{Denom: atom, Liquidity: s.ba.Add(s.la)})
	env.Amm.SetDenomLiquidity(ctx, ammtypes.DenomLiquidity{Denom: usdc, Liquidity: s.bu.Add(s.lu)})
	return s
}

func (s *state) check(label string) {
	ctx := s.env.Ctx
	p2, found := s.env.Amm.GetPool(ctx, 1)
	vrf.Assert(found, "C01 "+label+": pool still stored")
	for _, a := range p2.PoolAssets {
		real := s.env.W.BalOf(poolAddr, a.Token.Denom)
		don, other := s.da, s.la
		if a.Token.Denom == usdc {
			don, other = s.du, s.lu
		}
		vrf.Observe("book_"+a.Token.Denom, a.Token.Amount)
		vrf.Assert(real.Equal(a.Token.Amount.Add(don)), "C01 "+label+": bank == book (+ prior donation) for "+a.Token.Denom)
		dl, _ := s.env.Amm.GetDenomLiquidity(ctx, a.Token.Denom)
		vrf.Assert(dl.Liquidity.Equal(a.Token.Amount.Add(other)), "C01 "+label+": DenomLiquidity == sum of reserves for "+a.Token.Denom)
	}
}

func swapArgs() (in, out, wallet sdkmath.Int) {
	in, out, wallet = vrf.Int("in"), vrf.Int("out"), vrf.Int("wallet")
	vrf.Assume(in.IsPositive())
	vrf.Assume(out.IsPositive())
	vrf.Assume(!wallet.IsNegative())
	return
}

// UpdatePoolForSwap on a constant-product pool with a positive swap fee: fee skim to the
// treasury, OnCollectFee, cache-context conversion of the fee into the fee denom
// (real pricing, nested UpdatePoolForSwap, write-back).
//
//vrf:cover swap-ok
//vrf:bound 1 pool x 2 assets, weights 1:1, fee in (0, 2%], amounts unbounded; exact-in form
func H_UpdatePoolForSwap_Fee_ExactIn() {
	fee := vrf.Dec("fee")
	vrf.Assume(fee.IsPositive())
	vrf.Assume(fee.LTE(sdkmath.LegacyNewDecWithPrec(2, 2)))
	s := setup(false, fee)
	in, out, wallet := swapArgs()
	s.env.W.SetBal(sender, atom, wallet)
	err := s.env.Amm.UpdatePoolForSwap(s.env.Ctx, s.pool, sender, sender, sdk.Coin{Denom: atom, Amount: in}, sdk.Coin{Denom: usdc, Amount: out},
		fee, sdkmath.ZeroInt(), sdkmath.ZeroInt(), sdkmath.LegacyZeroDec(), false)
	if err != nil {
		return
	}
	vrf.Cover("swap-ok")
	s.check("UpdatePoolForSwap(fee, exact-in)")
}

//vrf:cover swap-ok
//vrf:bound as above, exact-out form, fee denom is the input denom
func H_UpdatePoolForSwap_Fee_ExactOut() {
	fee := vrf.Dec("fee")
	vrf.Assume(fee.IsPositive())
	vrf.Assume(fee.LTE(sdkmath.LegacyNewDecWithPrec(2, 2)))
	s := setup(false, fee)
	in, out, wallet := swapArgs()
	s.env.W.SetBal(sender, usdc, wallet)
	err := s.env.Amm.UpdatePoolForSwap(s.env.Ctx, s.pool, sender, sender, sdk.Coin{Denom: usdc, Amount: in}, sdk.Coin{Denom: atom, Amount: out},
		fee, sdkmath.ZeroInt(), sdkmath.ZeroInt(), sdkmath.LegacyZeroDec(), true)
	if err != nil {
		return
	}
	vrf.Cover("swap-ok")
	s.check("UpdatePoolForSwap(fee, exact-out)")
}

// Oracle pool: weight-breaking fee (negative bonus) and treasury bonus (positive bonus).
//
//vrf:cover swap-ok bonus-neg bonus-pos
//vrf:bound oracle pool, zero swap fee, bonus symbolic in [-1, 1], oracle amounts symbolic
func H_UpdatePoolForSwap_Oracle_Bonus() {
	s := setup(true, sdkmath.LegacyZeroDec())
	in, out, wallet := swapArgs()
	bonus := vrf.Dec("bonus")
	vrf.Assume(bonus.GTE(sdkmath.LegacyNewDec(-1)))
	vrf.Assume(bonus.LTE(sdkmath.LegacyOneDec()))
	oin, oout := vrf.Int("oracleIn"), vrf.Int("oracleOut")
	vrf.Assume(!oin.IsNegative())
	vrf.Assume(!oout.IsNegative())
	tb := vrf.Int("treasuryUsdc")
	vrf.Assume(!tb.IsNegative())
	givenOut := vrf.Bool("givenOut")
	s.env.W.SetBal(sender, atom, wallet)
	s.env.W.SetBal(treasury, usdc, tb)
	err := s.env.Amm.UpdatePoolForSwap(s.env.Ctx, s.pool, sender, sender, sdk.Coin{Denom: atom, Amount: in}, sdk.Coin{Denom: usdc, Amount: out},
		sdkmath.LegacyZeroDec(), oin, oout, bonus, givenOut)
	if err != nil {
		return
	}
	vrf.Cover("swap-ok")
	if bonus.IsNegative() {
		vrf.Cover("bonus-neg")
	}
	if bonus.IsPositive() {
		vrf.Cover("bonus-pos")
		// C03-O6: the bonus comes from the treasury only and never exceeds its balance
		paid := tb.Sub(s.env.W.BalOf(treasury, usdc))
		vrf.Assert(!paid.IsNegative(), "C03-O6: treasury never gains on a bonus")
		vrf.Assert(paid.LTE(tb), "C03-O6: bonus <= treasury balance")
	}
	s.check("UpdatePoolForSwap(oracle, bonus)")
}
