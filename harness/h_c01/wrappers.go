package h_c01

import (
	"github.com/elys-network/elys/zzvrf/h_c02"
	"github.com/elys-network/elys/zzvrf/h_c09"
	"github.com/elys-network/elys/zzvrf/h_c10"
)

// Other writers of pool reserves / bank holdings / DenomLiquidity, whose inductive steps live in the harness
// packages of the ledger they primarily maintain and assert C01 (bank == book, DenomLiquidity == sum of
// reserves) as well: joins and exits (h_c02), perpetual opens and funding settlement (h_c09).

//vrf:cover join-ok
//vrf:bound see h_c02.H_JoinPoolNoSwap
//vrf:assert-ms 120000
func H_Join_ConstantProduct() { h_c02.H_JoinPoolNoSwap() }

//vrf:cover join-ok
//vrf:bound see h_c02.H_JoinPoolNoSwap_OraclePool
//vrf:assert-ms 120000
func H_Join_OraclePool() { h_c02.H_JoinPoolNoSwap_OraclePool() }

//vrf:cover exit-ok
//vrf:bound see h_c02.H_ExitPool
//vrf:assert-ms 120000
func H_Exit() { h_c02.H_ExitPool() }

//vrf:cover open-ok
//vrf:bound see h_c09.H_Open_Long_UsdcCollateral
//vrf:max-paths 3000
func H_Perpetual_Open_Long() { h_c09.H_Open_Long_UsdcCollateral() }

//vrf:cover open-ok
//vrf:bound see h_c09.H_Open_Short
//vrf:max-paths 3000
func H_Perpetual_Open_Short() { h_c09.H_Open_Short() }

//vrf:cover done
//vrf:bound see h_c10.H_Perp_ClosePositions_TwoOfOnePool_Ledger
//vrf:max-paths 6000
func H_Perpetual_ClosePositions_TwoOfOnePool() { h_c10.H_Perp_ClosePositions_TwoOfOnePool_Ledger() }

//vrf:cover done
//vrf:bound see h_c09.H_ClosePositions_Long_AtomCollateral
//vrf:max-paths 8000
//vrf:tier thorough
func H_Perpetual_ClosePositions() { h_c09.H_ClosePositions_Long_AtomCollateral() }

//vrf:cover fed
//vrf:bound see h_c09.H_ExternalLiquidityFeed_KeepsReserves
//vrf:assert-prefix C01
func H_ExternalLiquidityFeed_WithPerpetualPositions() { h_c09.H_ExternalLiquidityFeed_KeepsReserves() }

//vrf:summary (*github.com/elys-network/elys/x/amm/types.Pool).JoinPool => h_c02.SumPoolJoin
//vrf:cover join-ok
//vrf:bound see h_c09.H_AmmJoin_KeepsAccountedPool
//vrf:assert-prefix C01
func H_Join_WithPerpetualPositions() { h_c09.H_AmmJoin_KeepsAccountedPool() }

//vrf:cover done
//vrf:bound see h_c10.H_Perp_ClosePositions_SamePositionThrice_Ledger
//vrf:max-paths 6000
func H_Perpetual_ClosePositions_SamePositionRepeated() {
	h_c10.H_Perp_ClosePositions_SamePositionThrice_Ledger()
}
