package h_c06

import "github.com/elys-network/elys/zzvrf/h_c08"

// The other borrower of the vault is the leveragelp module: opens borrow, closes / liquidations / the
// begin-blocker sweep repay (with a shortfall when the exit proceeds are below the debt). Their inductive
// steps live in h_c08 and assert the vault equation (labels "C06 ...") over the position's debt record and
// the symbolic remainder of the other borrowers; only those assertions are evaluated here.

//vrf:cover open-ok
//vrf:bound see h_c08.H_Open_New
//vrf:assert-prefix C06
//vrf:max-paths 3000
func H_Leveragelp_Open() { h_c08.H_Open_New() }

//vrf:cover close-ok position-gone
//vrf:bound see h_c08.H_Close_ByOwner (partial and full closes; repayment in full and with a shortfall)
//vrf:assert-prefix C06
//vrf:max-paths 3000
func H_Leveragelp_Close() { h_c08.H_Close_ByOwner() }

//vrf:cover untouched liquidated
//vrf:bound see h_c08.H_ClosePositions_Liquidate
//vrf:assert-prefix C06
//vrf:max-paths 3000
func H_Leveragelp_Liquidate() { h_c08.H_ClosePositions_Liquidate() }

//vrf:cover position-gone done
//vrf:bound see h_c08.H_BeginBlocker_TwoPositions
//vrf:assert-prefix C06
//vrf:max-paths 4000
func H_Leveragelp_BeginBlocker() { h_c08.H_BeginBlocker_TwoPositions() }

//vrf:cover valued
//vrf:bound see h_c08.H_Tier_PortfolioValuation_ReadOnly
//vrf:assert-prefix C07/C06
//vrf:max-paths 3000
func H_TierHooks_BookNoInterest() { h_c08.H_Tier_PortfolioValuation_ReadOnly() }
