// Package h_c06: inductive-step harnesses for C06 — the stable-stake vault's
// TotalValue equals cash + Σ (principal + accrued − paid). One entry point per
// harness from a symbolic pre-state that satisfies the invariant.
package h_c06

import (
	sdkmath "cosmossdk.io/math"
	sdk "github.com/cosmos/cosmos-sdk/types"
	authtypes "github.com/cosmos/cosmos-sdk/x/auth/types"
	aptypes "github.com/elys-network/elys/x/assetprofile/types"
	ctypes "github.com/elys-network/elys/x/commitment/types"
	sskeeper "github.com/elys-network/elys/x/stablestake/keeper"
	sstypes "github.com/elys-network/elys/x/stablestake/types"
	vrf "github.com/elys-network/elys/zzvrf"
	"github.com/elys-network/elys/zzvrf/wire"
)

var (
	alice   = sdk.AccAddress([]byte("alice_______________"))
	bob     = sdk.AccAddress([]byte("bob_________________"))
	modAddr = authtypes.NewModuleAddress(sstypes.ModuleName)
)

const usdc = "uusdc"

type state struct {
	env            *wire.Env
	tv, cash, rest sdkmath.Int
	hasDebt        bool
}

// setup installs a symbolic vault state satisfying the invariant: alice's debt
// is explicit, every other borrower is folded into the symbolic remainder.
func setup(withDebt bool, interestBlocks int) *state {
	env := wire.New(wire.Opts{})
	s := &state{env: env, hasDebt: withDebt}
	height := vrf.I64("height", 3, 1<<40)
	now := vrf.I64("now", 1000, 1<<40)
	env.Ctx = vrf.SetBlock(env.Ctx, height, now)
	ctx := env.Ctx

	s.tv, s.cash, s.rest = vrf.Int("TV"), vrf.Int("cash"), vrf.Int("restDebt")
	vrf.Assume(!s.tv.IsNegative())
	vrf.Assume(!s.cash.IsNegative())
	vrf.Assume(!s.rest.IsNegative())
	p := sstypes.DefaultParams()
	p.TotalValue = s.tv
	rate := vrf.Dec("rate")
	vrf.Assume(rate.GTE(p.InterestRateMin))
	vrf.Assume(rate.LTE(p.InterestRateMax))
	p.InterestRate = rate
	env.Stable.SetParams(ctx, p)
	env.W.SetBal(modAddr, usdc, s.cash)

	sum := s.cash.Add(s.rest)
	if withDebt {
		b, is, ip := vrf.Int("borrowed"), vrf.Int("intStacked"), vrf.Int("intPaid")
		vrf.Assume(b.IsPositive())
		vrf.Assume(!is.IsNegative())
		vrf.Assume(!ip.IsNegative())
		vrf.Assume(ip.LTE(is))
		lastT := vrf.U64("lastCalcTime", 1, 1<<40)
		lastB := vrf.U64("lastCalcBlock", 1, 1<<40)
		vrf.Assume(int64(lastT) <= now)
		vrf.Assume(int64(lastB) <= height)
		env.Stable.SetDebt(ctx, sstypes.Debt{Address: alice.String(), Borrowed: b, InterestStacked: is, InterestPaid: ip,
			BorrowTime: lastT, LastInterestCalcTime: lastT, LastInterestCalcBlock: lastB})
		sum = sum.Add(b).Add(is).Sub(ip)
	}
	// interest-rate history: 0, 1 (current block only) or 2 (an earlier block and the current one) entries
	if interestBlocks >= 1 {
		if interestBlocks >= 2 {
			hb := vrf.U64("histBlock", 1, 1<<40)
			vrf.Assume(int64(hb) < height)
			r0 := vrf.Dec("histRateSum")
			vrf.Assume(!r0.IsNegative())
			env.Stable.SetInterest(ctx, hb, sstypes.InterestBlock{InterestRate: r0, BlockTime: 1, BlockHeight: hb})
		}
		r1 := vrf.Dec("curRateSum")
		vrf.Assume(!r1.IsNegative())
		env.Stable.SetInterest(ctx, uint64(height), sstypes.InterestBlock{InterestRate: r1, BlockTime: now, BlockHeight: uint64(height)})
	}
	vrf.Assume(s.tv.Equal(sum)) // induction hypothesis
	return s
}

func (s *state) check(label string) {
	ctx := s.env.Ctx
	p := s.env.Stable.GetParams(ctx)
	sum := s.env.W.BalOf(modAddr, usdc).Add(s.rest)
	for _, d := range s.env.Stable.GetAllDebts(ctx) {
		sum = sum.Add(d.Borrowed).Add(d.InterestStacked).Sub(d.InterestPaid)
	}
	vrf.Observe("TV_after", p.TotalValue)
	vrf.Assert(p.TotalValue.Equal(sum), "C06 "+label+": TotalValue == cash + sum(principal + accrued - paid)")
}

//vrf:cover repay-ok repay-full
//vrf:bound one explicit debt + symbolic remainder; interest history: none (parameter-rate branch); heights/times < 2^40
func H_Repay() {
	s := setup(true, 0)
	amt, wallet := vrf.Int("amt"), vrf.Int("wallet")
	vrf.Assume(amt.IsPositive())
	vrf.Assume(!wallet.IsNegative())
	s.env.W.SetBal(alice, usdc, wallet)
	err := s.env.Stable.Repay(s.env.Ctx, alice, sdk.NewCoin(usdc, amt))
	if err != nil {
		return // failed transaction: rolled back by baseapp
	}
	vrf.Cover("repay-ok")
	if len(s.env.Stable.GetAllDebts(s.env.Ctx)) == 0 {
		vrf.Cover("repay-full")
	}
	s.check("Repay")
}

//vrf:cover repay-ok
//vrf:bound as H_Repay with the current block and one earlier block in the interest history (both GetInterest history branches)
func H_Repay_History() {
	s := setup(true, 2)
	amt, wallet := vrf.Int("amt"), vrf.Int("wallet")
	vrf.Assume(amt.IsPositive())
	vrf.Assume(!wallet.IsNegative())
	s.env.W.SetBal(alice, usdc, wallet)
	err := s.env.Stable.Repay(s.env.Ctx, alice, sdk.NewCoin(usdc, amt))
	if err != nil {
		return
	}
	vrf.Cover("repay-ok")
	s.check("Repay(history)")
}

//vrf:cover borrow-ok
func H_Borrow_Existing() {
	s := setup(true, 1)
	amt := vrf.Int("amt")
	vrf.Assume(amt.IsPositive())
	err := s.env.Stable.Borrow(s.env.Ctx, alice, sdk.NewCoin(usdc, amt))
	if err != nil {
		return
	}
	vrf.Cover("borrow-ok")
	s.check("Borrow")
}

//vrf:cover borrow-ok
func H_Borrow_New() {
	s := setup(false, 0)
	amt := vrf.Int("amt")
	vrf.Assume(amt.IsPositive())
	err := s.env.Stable.Borrow(s.env.Ctx, alice, sdk.NewCoin(usdc, amt))
	if err != nil {
		return
	}
	vrf.Cover("borrow-ok")
	s.check("Borrow(new)")
}

//vrf:cover accrue-ok
func H_UpdateInterest() {
	s := setup(true, 2)
	d := s.env.Stable.UpdateInterestAndGetDebt(s.env.Ctx, alice)
	vrf.Cover("accrue-ok")
	vrf.Observe("stacked", d.InterestStacked)
	s.check("UpdateInterestAndGetDebt")
}

//vrf:cover blocker-ok
func H_BeginBlocker() {
	s := setup(true, 2)
	s.env.Stable.BeginBlocker(s.env.Ctx)
	vrf.Cover("blocker-ok")
	s.check("BeginBlocker")
}

var _ = sskeeper.NewMsgServerImpl

// ---- deposits and withdrawals: cash and TotalValue move together ----

func lenders(s *state) sdkmath.Int {
	env, ctx := s.env, s.env.Ctx
	share := sstypes.GetShareDenom()
	supply := vrf.Int("shareSupply")
	vrf.Assume(supply.IsPositive())
	env.Comm.SetParams(ctx, ctypes.DefaultParams())
	env.Aprof.SetEntry(ctx, aptypes.Entry{BaseDenom: share, Denom: share, Decimals: 6, CommitEnabled: true, WithdrawEnabled: true})
	env.W.Supply[share] = supply
	env.W.SetBal(authtypes.NewModuleAddress(ctypes.ModuleName), share, supply)
	c := env.Comm.GetCommitments(ctx, bob)
	c.AddCommittedTokens(share, supply, 0)
	env.Comm.SetCommitments(ctx, c)
	return supply
}

// Bond at any redemption rate (TotalValue and share supply independent): the vault equation survives
//
//vrf:cover bond-ok
//vrf:bound symbolic vault (TotalValue, cash, remainder of debts, share supply: any redemption rate), one bond of a symbolic amount through the real message server
func H_Bond() {
	s := setup(false, 0)
	lenders(s)
	amt := vrf.Int("amt")
	vrf.Assume(amt.IsPositive())
	s.env.W.SetBal(alice, usdc, amt)
	srv := sskeeper.NewMsgServerImpl(*s.env.Stable)
	if _, err := srv.Bond(s.env.Ctx, &sstypes.MsgBond{Creator: alice.String(), Amount: amt}); err != nil {
		return
	}
	vrf.Cover("bond-ok")
	vrf.Assert(s.env.W.BalOf(modAddr, usdc).Equal(s.cash.Add(amt)), "C06 bond: the vault's cash grows by exactly the deposit")
	s.check("bond")
}

// Unbond at any redemption rate
//
//vrf:cover unbond-ok
//vrf:bound as H_Bond; one unbond of a symbolic share amount by the holder of all shares
func H_Unbond() {
	s := setup(false, 0)
	supply := lenders(s)
	x := vrf.Int("unbondShares")
	vrf.Assume(x.IsPositive())
	vrf.Assume(x.LTE(supply))
	srv := sskeeper.NewMsgServerImpl(*s.env.Stable)
	if _, err := srv.Unbond(s.env.Ctx, &sstypes.MsgUnbond{Creator: bob.String(), Amount: x}); err != nil {
		return
	}
	vrf.Cover("unbond-ok")
	paid := s.env.W.BalOf(bob, usdc)
	vrf.Assert(s.env.W.BalOf(modAddr, usdc).Equal(s.cash.Sub(paid)), "C06 unbond: the vault's cash shrinks by exactly what is paid out")
	s.check("unbond")
}

// Governance's MsgUpdateParams carries a whole Params record (TotalValue included): the vault's stated value is not a
// parameter governance sets - whatever the message says, TotalValue stays what the ledger made it.
//
//vrf:cover updated
//vrf:bound symbolic vault state (one debt + remainder); MsgUpdateParams from the governance authority with a symbolic TotalValue and interest parameters in the message
func H_Gov_UpdateParams_KeepsTotalValue() {
	s := setup(true, 0)
	env, ctx := s.env, s.env.Ctx
	np := sstypes.DefaultParams()
	np.TotalValue = vrf.Int("messageTotalValue")
	np.InterestRate = vrf.Dec("messageRate")
	vrf.Assume(!np.TotalValue.IsNegative())
	vrf.Assume(!np.InterestRate.IsNegative())
	srv := sskeeper.NewMsgServerImpl(*env.Stable)
	if _, err := srv.UpdateParams(ctx, &sstypes.MsgUpdateParams{Authority: wire.Gov, Params: &np}); err != nil {
		return
	}
	vrf.Cover("updated")
	s.check("governance update-params")
}
