// Package h_c04: a queued swap settles exactly once within the user's limits at
// the end of the block, or changes nothing and does not linger. The real
// EndBlocker / ExecuteSwapRequests / ApplySwapRequest / Route* / InternalSwap* /
// UpdatePoolForSwap run; pool pricing, the tier look-up and the stacked-slippage
// comparison value are contracts.
package h_c04

import (
	sdkmath "cosmossdk.io/math"
	sdk "github.com/cosmos/cosmos-sdk/types"
	ammkeeper "github.com/elys-network/elys/x/amm/keeper"
	ammtypes "github.com/elys-network/elys/x/amm/types"
	tierkeeper "github.com/elys-network/elys/x/tier/keeper"
	tiertypes "github.com/elys-network/elys/x/tier/types"
	vrf "github.com/elys-network/elys/zzvrf"
	"github.com/elys-network/elys/zzvrf/wire"
)

var (
	poolAddr = ammtypes.NewPoolAddress(1)
	treasury = ammtypes.NewPoolRebalanceTreasury(1)
	alice    = sdk.AccAddress([]byte("alice_______________"))
	bob      = sdk.AccAddress([]byte("bob_________________"))
)

const (
	atom = "uatom"
	usdc = "uusdc"
)

var nPrice, nStack int

// contract of Pool.SwapOutAmtGivenIn: an error, or a positive amount of the asked denom
func sumSwapOut(p *ammtypes.Pool, ctx sdk.Context, o ammtypes.OracleKeeper, snap *ammtypes.Pool, tokensIn sdk.Coins, outDenom string, fee sdkmath.LegacyDec, acc ammtypes.AccountedPoolKeeper, f sdkmath.LegacyDec, params ammtypes.Params) (sdk.Coin, sdkmath.LegacyDec, sdkmath.LegacyDec, sdkmath.LegacyDec, sdkmath.LegacyDec, error) {
	z := sdkmath.LegacyZeroDec()
	nPrice++
	tag := string(rune('0' + nPrice))
	if vrf.Bool("priceFails" + tag) {
		return sdk.Coin{}, z, z, z, z, ammtypes.ErrAmountTooLow
	}
	out := vrf.Int("priceOut" + tag)
	vrf.Assume(out.IsPositive())
	return sdk.Coin{Denom: outDenom, Amount: out}, z, z, z, z, nil
}

// contract of Pool.SwapInAmtGivenOut
func sumSwapIn(p *ammtypes.Pool, ctx sdk.Context, o ammtypes.OracleKeeper, snap *ammtypes.Pool, tokensOut sdk.Coins, inDenom string, fee sdkmath.LegacyDec, acc ammtypes.AccountedPoolKeeper, f sdkmath.LegacyDec, params ammtypes.Params) (sdk.Coin, sdkmath.LegacyDec, sdkmath.LegacyDec, sdkmath.LegacyDec, sdkmath.LegacyDec, error) {
	z := sdkmath.LegacyZeroDec()
	nPrice++
	tag := string(rune('0' + nPrice))
	if vrf.Bool("priceFails" + tag) {
		return sdk.Coin{}, z, z, z, z, ammtypes.ErrAmountTooLow
	}
	in := vrf.Int("priceIn" + tag)
	vrf.Assume(in.IsPositive())
	return sdk.Coin{Denom: inDenom, Amount: in}, z, z, z, z, nil
}

func sumTier(k tierkeeper.Keeper, ctx sdk.Context, user sdk.AccAddress) (sdkmath.LegacyDec, tiertypes.MembershipTier) {
	return sdkmath.LegacyZeroDec(), tiertypes.Basic
}

func sumStacked(k ammkeeper.Keeper, ctx sdk.Context, poolId uint64) sdkmath.LegacyDec {
	nStack++
	d := vrf.Dec("stacked" + string(rune('0'+nStack)))
	vrf.Assume(!d.IsNegative())
	return d
}

type world struct {
	env          *wire.Env
	aAtom, aUsdc sdkmath.Int
	bAtom, bUsdc sdkmath.Int
}

func setup() *world {
	env := wire.New(wire.Opts{})
	ctx := env.Ctx
	env.Amm.SetParams(ctx, ammtypes.DefaultParams())
	ba, bu := vrf.Int("bookAtom"), vrf.Int("bookUsdc")
	vrf.Assume(ba.IsPositive())
	vrf.Assume(bu.IsPositive())
	pool := ammtypes.Pool{
		PoolId: 1, Address: poolAddr.String(), RebalanceTreasury: treasury.String(),
		PoolParams:  ammtypes.PoolParams{UseOracle: false, SwapFee: sdkmath.LegacyZeroDec(), FeeDenom: usdc},
		TotalShares: sdk.Coin{Denom: ammtypes.GetPoolShareDenom(1), Amount: sdkmath.NewInt(1000000)},
		PoolAssets: []ammtypes.PoolAsset{
			{Token: sdk.Coin{Denom: atom, Amount: ba}, Weight: sdkmath.NewInt(1)},
			{Token: sdk.Coin{Denom: usdc, Amount: bu}, Weight: sdkmath.NewInt(1)},
		},
		TotalWeight: sdkmath.NewInt(2),
	}
	env.Amm.SetPool(ctx, pool)
	env.Amm.SetDenomLiquidity(ctx, ammtypes.DenomLiquidity{Denom: atom, Liquidity: ba})
	env.Amm.SetDenomLiquidity(ctx, ammtypes.DenomLiquidity{Denom: usdc, Liquidity: bu})
	env.W.SetBal(poolAddr, atom, ba)
	env.W.SetBal(poolAddr, usdc, bu)
	w := &world{env: env}
	w.aAtom, w.aUsdc = vrf.Int("aliceAtom"), vrf.Int("aliceUsdc")
	w.bAtom, w.bUsdc = vrf.Int("bobAtom"), vrf.Int("bobUsdc")
	vrf.Assume(!w.aAtom.IsNegative())
	vrf.Assume(!w.aUsdc.IsNegative())
	vrf.Assume(!w.bAtom.IsNegative())
	vrf.Assume(!w.bUsdc.IsNegative())
	env.W.SetBal(alice, atom, w.aAtom)
	env.W.SetBal(alice, usdc, w.aUsdc)
	env.W.SetBal(bob, atom, w.bAtom)
	env.W.SetBal(bob, usdc, w.bUsdc)
	return w
}

// Two queued exact-in requests in opposite directions on one pool (the reverse-request
// branch with two live cache contexts), then EndBlocker.
//
//vrf:summary (*github.com/elys-network/elys/x/amm/types.Pool).SwapOutAmtGivenIn => sumSwapOut
//vrf:summary (github.com/elys-network/elys/x/tier/keeper.Keeper).GetMembershipTier => sumTier
//vrf:summary (github.com/elys-network/elys/x/amm/keeper.Keeper).GetStackedSlippage => sumStacked
//vrf:cover applied-1 applied-2 none-applied
//vrf:bound 2 queued exact-in requests, opposite directions, 1 pool, 1-hop routes; balances, limits and prices symbolic
//vrf:max-steps 60000000
func H_EndBlocker_TwoOpposite_ExactIn() {
	w := setup()
	env, ctx := w.env, w.env.Ctx
	in1, min1 := vrf.Int("in1"), vrf.Int("min1")
	in2, min2 := vrf.Int("in2"), vrf.Int("min2")
	vrf.Assume(in1.IsPositive())
	vrf.Assume(in2.IsPositive())
	vrf.Assume(!min1.IsNegative())
	vrf.Assume(!min2.IsNegative())
	m1 := &ammtypes.MsgSwapExactAmountIn{Sender: alice.String(), Recipient: alice.String(), Routes: []ammtypes.SwapAmountInRoute{{PoolId: 1, TokenOutDenom: usdc}}, TokenIn: sdk.Coin{Denom: atom, Amount: in1}, TokenOutMinAmount: min1}
	m2 := &ammtypes.MsgSwapExactAmountIn{Sender: bob.String(), Recipient: bob.String(), Routes: []ammtypes.SwapAmountInRoute{{PoolId: 1, TokenOutDenom: atom}}, TokenIn: sdk.Coin{Denom: usdc, Amount: in2}, TokenOutMinAmount: min2}
	env.Amm.SetSwapExactAmountInRequests(ctx, m1, 1)
	env.Amm.SetSwapExactAmountInRequests(ctx, m2, 2)
	env.Amm.SetLastSwapRequestIndex(ctx, 2)

	env.Amm.EndBlocker(ctx)

	vrf.Assert(len(env.Amm.GetAllSwapExactAmountInRequests(ctx)) == 0, "C04: no request lingers after EndBlocker")
	a1, u1 := env.W.BalOf(alice, atom), env.W.BalOf(alice, usdc)
	applied1 := a1.Equal(w.aAtom.Sub(in1))
	untouched1 := a1.Equal(w.aAtom)
	vrf.Assert(applied1 || untouched1, "C04: sender debited exactly TokenIn or not at all (1)")
	if !untouched1 {
		vrf.Cover("applied-1")
		vrf.Assert(u1.Sub(w.aUsdc).GTE(min1), "C04: recipient credited at least TokenOutMin (1)")
	} else {
		vrf.Assert(u1.Equal(w.aUsdc), "C04: unapplied request credits nothing (1)")
	}
	u2, a2 := env.W.BalOf(bob, usdc), env.W.BalOf(bob, atom)
	applied2 := u2.Equal(w.bUsdc.Sub(in2))
	untouched2 := u2.Equal(w.bUsdc)
	vrf.Assert(applied2 || untouched2, "C04: sender debited exactly TokenIn or not at all (2)")
	if !untouched2 {
		vrf.Cover("applied-2")
		vrf.Assert(a2.Sub(w.bAtom).GTE(min2), "C04: recipient credited at least TokenOutMin (2)")
	} else {
		vrf.Assert(a2.Equal(w.bAtom), "C04: unapplied request credits nothing (2)")
	}
	if untouched1 && untouched2 {
		vrf.Cover("none-applied")
	}
}

// One queued exact-out request: debited at most the maximum, credited exactly the output.
//
//vrf:summary (*github.com/elys-network/elys/x/amm/types.Pool).SwapInAmtGivenOut => sumSwapIn
//vrf:summary (github.com/elys-network/elys/x/tier/keeper.Keeper).GetMembershipTier => sumTier
//vrf:cover applied not-applied
//vrf:bound 1 queued exact-out request, 1-hop route
func H_EndBlocker_One_ExactOut() {
	w := setup()
	env, ctx := w.env, w.env.Ctx
	maxIn, out := vrf.Int("maxIn"), vrf.Int("out")
	vrf.Assume(maxIn.IsPositive())
	vrf.Assume(out.IsPositive())
	m := &ammtypes.MsgSwapExactAmountOut{Sender: alice.String(), Recipient: bob.String(), Routes: []ammtypes.SwapAmountOutRoute{{PoolId: 1, TokenInDenom: atom}}, TokenOut: sdk.Coin{Denom: usdc, Amount: out}, TokenInMaxAmount: maxIn}
	env.Amm.SetSwapExactAmountOutRequests(ctx, m, 1)
	env.Amm.SetLastSwapRequestIndex(ctx, 1)

	env.Amm.EndBlocker(ctx)

	vrf.Assert(len(env.Amm.GetAllSwapExactAmountOutRequests(ctx)) == 0, "C04: no request lingers after EndBlocker")
	spent := w.aAtom.Sub(env.W.BalOf(alice, atom))
	got := env.W.BalOf(bob, usdc).Sub(w.bUsdc)
	vrf.Assert(!spent.IsNegative(), "C04: sender never gains input tokens")
	vrf.Assert(spent.LTE(maxIn), "C04: sender debited at most TokenInMax")
	if spent.IsZero() {
		vrf.Cover("not-applied")
		vrf.Assert(got.IsZero(), "C04: unapplied exact-out request credits nothing")
	} else {
		vrf.Cover("applied")
		vrf.Assert(got.GTE(out), "C04: recipient credited at least TokenOut")
	}
	vrf.Assert(env.W.BalOf(alice, usdc).Equal(w.aUsdc), "C04: sender's other balance untouched")
	vrf.Assert(env.W.BalOf(bob, atom).Equal(w.bAtom), "C04: recipient's other balance untouched")
}

// Enqueue side: the message handler's dry run happens on a cache context and must leave
// balances and pools untouched; the request is stored under a fresh index.
//
//vrf:summary (*github.com/elys-network/elys/x/amm/types.Pool).SwapOutAmtGivenIn => sumSwapOut
//vrf:summary (github.com/elys-network/elys/x/tier/keeper.Keeper).GetMembershipTier => sumTier
//vrf:cover accepted rejected
//vrf:bound 1 exact-in message, 1-hop route, one request already queued under index 1
func H_Enqueue_ExactIn() {
	w := setup()
	env, ctx := w.env, w.env.Ctx
	in, min := vrf.Int("in"), vrf.Int("min")
	vrf.Assume(in.IsPositive())
	vrf.Assume(!min.IsNegative())
	old := &ammtypes.MsgSwapExactAmountIn{Sender: bob.String(), Recipient: bob.String(), Routes: []ammtypes.SwapAmountInRoute{{PoolId: 1, TokenOutDenom: atom}}, TokenIn: sdk.Coin{Denom: usdc, Amount: sdkmath.NewInt(5)}, TokenOutMinAmount: sdkmath.ZeroInt()}
	env.Amm.SetSwapExactAmountInRequests(ctx, old, 1)
	env.Amm.SetLastSwapRequestIndex(ctx, 1)
	poolBefore, _ := env.Amm.GetPool(ctx, 1)
	sends := env.W.Sends
	m := &ammtypes.MsgSwapExactAmountIn{Sender: alice.String(), Recipient: alice.String(), Routes: []ammtypes.SwapAmountInRoute{{PoolId: 1, TokenOutDenom: usdc}}, TokenIn: sdk.Coin{Denom: atom, Amount: in}, TokenOutMinAmount: min}
	_, err := env.Amm.SwapExactAmountIn(ctx, m)
	vrf.Assert(env.W.Sends == sends, "C04: accepting a request moves no funds")
	vrf.Assert(env.W.BalOf(alice, atom).Equal(w.aAtom), "C04: sender balance untouched at enqueue")
	poolAfter, _ := env.Amm.GetPool(ctx, 1)
	vrf.Observe("before", poolBefore.PoolAssets[0].Token.Amount)
	vrf.Observe("after", poolAfter.PoolAssets[0].Token.Amount)
	vrf.Assert(poolAfter.PoolAssets[0].Token.Amount.Equal(poolBefore.PoolAssets[0].Token.Amount), "C04: pool untouched at enqueue")
	n := len(env.Amm.GetAllSwapExactAmountInRequests(ctx))
	if err != nil {
		vrf.Cover("rejected")
		vrf.Assert(n == 1, "C04: rejected request is not queued")
		return
	}
	vrf.Cover("accepted")
	vrf.Assert(n == 2, "C04: accepted request queued under a fresh index (older request kept)")
	// what is queued is what the user signed: the end-of-block execution enforces the limits of the queued copy
	for _, q := range env.Amm.GetAllSwapExactAmountInRequests(ctx) {
		if q.Sender != alice.String() {
			continue
		}
		vrf.Assert(q.TokenIn.Denom == atom && q.TokenIn.Amount.Equal(in), "C04: the queued request carries the stated input")
		vrf.Assert(!q.TokenOutMinAmount.IsNil() && q.TokenOutMinAmount.Equal(min), "C04: the queued request carries the user's minimum output (the limit enforced when it is executed at the end of the block)")
		vrf.Assert(len(q.Routes) == 1 && q.Routes[0].PoolId == 1 && q.Routes[0].TokenOutDenom == usdc, "C04: the queued request carries the stated route")
		vrf.Assert(q.Recipient == "" || q.Recipient == alice.String(), "C04: the queued request pays the stated recipient")
	}
}

// contract of Pool.SwapOutAmtGivenIn for an oracle pool: any positive output, any oracle output >= 0, any
// weight-balance bonus in [-1, 1] (the pricing returns all three to the keeper)
func sumSwapOutOracle(p *ammtypes.Pool, ctx sdk.Context, o ammtypes.OracleKeeper, snap *ammtypes.Pool, tokensIn sdk.Coins, outDenom string, fee sdkmath.LegacyDec, acc ammtypes.AccountedPoolKeeper, f sdkmath.LegacyDec, params ammtypes.Params) (sdk.Coin, sdkmath.LegacyDec, sdkmath.LegacyDec, sdkmath.LegacyDec, sdkmath.LegacyDec, error) {
	z := sdkmath.LegacyZeroDec()
	nPrice++
	tag := string(rune('0' + nPrice))
	if vrf.Bool("priceFails" + tag) {
		return sdk.Coin{}, z, z, z, z, ammtypes.ErrAmountTooLow
	}
	out := vrf.Int("priceOut" + tag)
	vrf.Assume(out.IsPositive())
	bonus, oracleOut := vrf.Dec("bonus"+tag), vrf.Dec("oracleOut"+tag)
	vrf.Assume(bonus.GTE(sdkmath.LegacyNewDec(-1)))
	vrf.Assume(bonus.LTE(sdkmath.LegacyOneDec()))
	vrf.Assume(!oracleOut.IsNegative())
	return sdk.Coin{Denom: outDenom, Amount: out}, z, z, bonus, oracleOut, nil
}

// One queued exact-in request on an oracle pool whose pricing reports a weight-balance bonus; the rebalance treasury
// holds an arbitrary amount of the out token (possibly less than the bonus, which is then capped).
//
//vrf:summary (*github.com/elys-network/elys/x/amm/types.Pool).SwapOutAmtGivenIn => sumSwapOutOracle
//vrf:summary (github.com/elys-network/elys/x/tier/keeper.Keeper).GetMembershipTier => sumTier
//vrf:summary (github.com/elys-network/elys/x/amm/keeper.Keeper).GetStackedSlippage => sumStacked
//vrf:cover applied not-applied
//vrf:bound 1 queued exact-in request on an oracle pool, 1-hop route, separate recipient; output, oracle output, bonus in [-1,1] and treasury balance symbolic
//vrf:max-steps 60000000
func H_EndBlocker_One_ExactIn_OracleBonus() {
	w := setup()
	env, ctx := w.env, w.env.Ctx
	p, _ := env.Amm.GetPool(ctx, 1)
	p.PoolParams.UseOracle = true
	for i := range p.PoolAssets {
		p.PoolAssets[i].ExternalLiquidityRatio = sdkmath.LegacyOneDec()
	}
	env.Amm.SetPool(ctx, p)
	tre := vrf.Int("treasuryUsdc")
	vrf.Assume(!tre.IsNegative())
	env.W.SetBal(treasury, usdc, tre)
	in1, min1 := vrf.Int("in1"), vrf.Int("min1")
	vrf.Assume(in1.IsPositive())
	vrf.Assume(!min1.IsNegative())
	m1 := &ammtypes.MsgSwapExactAmountIn{Sender: alice.String(), Recipient: bob.String(), Routes: []ammtypes.SwapAmountInRoute{{PoolId: 1, TokenOutDenom: usdc}}, TokenIn: sdk.Coin{Denom: atom, Amount: in1}, TokenOutMinAmount: min1}
	env.Amm.SetSwapExactAmountInRequests(ctx, m1, 1)
	env.Amm.SetLastSwapRequestIndex(ctx, 1)

	env.Amm.EndBlocker(ctx)

	vrf.Assert(len(env.Amm.GetAllSwapExactAmountInRequests(ctx)) == 0, "C04: no request lingers after EndBlocker")
	spent := w.aAtom.Sub(env.W.BalOf(alice, atom))
	got := env.W.BalOf(bob, usdc).Sub(w.bUsdc)
	vrf.Assert(spent.IsZero() || spent.Equal(in1), "C04: sender debited exactly TokenIn or not at all")
	if spent.IsZero() {
		vrf.Cover("not-applied")
		vrf.Assert(got.IsZero(), "C04: unapplied request credits nothing")
	} else {
		vrf.Cover("applied")
		vrf.Assert(got.GTE(min1), "C04: recipient credited at least TokenOutMin (oracle pool, bonus capped by the treasury)")
	}
	vrf.Assert(env.W.BalOf(alice, usdc).Equal(w.aUsdc), "C04: sender's other balance untouched")
}

// ---- multi-hop routes ----

const usdt = "uusdt"

var pool2Addr = ammtypes.NewPoolAddress(2)

// a second constant-product pool uatom / uusdt with symbolic reserves
func addPool2(w *world) {
	env, ctx := w.env, w.env.Ctx
	ba, bt := vrf.Int("book2Atom"), vrf.Int("book2Usdt")
	vrf.Assume(ba.IsPositive())
	vrf.Assume(bt.IsPositive())
	pool := ammtypes.Pool{
		PoolId: 2, Address: pool2Addr.String(), RebalanceTreasury: ammtypes.NewPoolRebalanceTreasury(2).String(),
		PoolParams:  ammtypes.PoolParams{UseOracle: false, SwapFee: sdkmath.LegacyZeroDec(), FeeDenom: usdt},
		TotalShares: sdk.Coin{Denom: ammtypes.GetPoolShareDenom(2), Amount: sdkmath.NewInt(1000000)},
		PoolAssets: []ammtypes.PoolAsset{
			{Token: sdk.Coin{Denom: atom, Amount: ba}, Weight: sdkmath.NewInt(1)},
			{Token: sdk.Coin{Denom: usdt, Amount: bt}, Weight: sdkmath.NewInt(1)},
		},
		TotalWeight: sdkmath.NewInt(2),
	}
	env.Amm.SetPool(ctx, pool)
	dl, _ := env.Amm.GetDenomLiquidity(ctx, atom)
	env.Amm.SetDenomLiquidity(ctx, ammtypes.DenomLiquidity{Denom: atom, Liquidity: dl.Liquidity.Add(ba)})
	env.Amm.SetDenomLiquidity(ctx, ammtypes.DenomLiquidity{Denom: usdt, Liquidity: bt})
	env.W.SetBal(pool2Addr, atom, ba)
	env.W.SetBal(pool2Addr, usdt, bt)
}

// contract of Pool.CalcInAmtGivenOut (the route estimates): an error or any positive amount
func sumCalcIn(p *ammtypes.Pool, ctx sdk.Context, o ammtypes.OracleKeeper, snap *ammtypes.Pool, tokensOut sdk.Coins, inDenom string, fee sdkmath.LegacyDec, acc ammtypes.AccountedPoolKeeper) (sdk.Coin, sdkmath.LegacyDec, error) {
	nPrice++
	tag := string(rune('0' + nPrice))
	if vrf.Bool("estimateFails" + tag) {
		return sdk.Coin{}, sdkmath.LegacyZeroDec(), ammtypes.ErrAmountTooLow
	}
	in := vrf.Int("estimateIn" + tag)
	vrf.Assume(in.IsPositive())
	return sdk.Coin{Denom: inDenom, Amount: in}, sdkmath.LegacyZeroDec(), nil
}

// One queued exact-out request routed over two pools (uusdc -> uatom -> uusdt), sender and recipient distinct:
// the sender pays at most the stated maximum of the input denom and nothing else, the recipient receives the stated
// output and nothing else, or nothing changes.
//
//vrf:summary (*github.com/elys-network/elys/x/amm/types.Pool).SwapInAmtGivenOut => sumSwapIn
//vrf:summary (*github.com/elys-network/elys/x/amm/types.Pool).CalcInAmtGivenOut => sumCalcIn
//vrf:summary (github.com/elys-network/elys/x/tier/keeper.Keeper).GetMembershipTier => sumTier
//vrf:cover applied not-applied
//vrf:bound 1 queued exact-out request, 2-hop route over two constant-product pools, separate recipient; route estimates and execution prices havocked independently (prices may move between estimate and execution); balances, limit and output symbolic
//vrf:max-steps 60000000
func H_EndBlocker_One_ExactOut_TwoHops() {
	w := setup()
	addPool2(w)
	env, ctx := w.env, w.env.Ctx
	aUsdt, bUsdt := vrf.Int("aliceUsdt"), vrf.Int("bobUsdt")
	vrf.Assume(!aUsdt.IsNegative())
	vrf.Assume(!bUsdt.IsNegative())
	env.W.SetBal(alice, usdt, aUsdt)
	env.W.SetBal(bob, usdt, bUsdt)
	maxIn, out := vrf.Int("maxIn"), vrf.Int("out")
	vrf.Assume(maxIn.IsPositive())
	vrf.Assume(out.IsPositive())
	m := &ammtypes.MsgSwapExactAmountOut{Sender: alice.String(), Recipient: bob.String(),
		Routes:   []ammtypes.SwapAmountOutRoute{{PoolId: 1, TokenInDenom: usdc}, {PoolId: 2, TokenInDenom: atom}},
		TokenOut: sdk.Coin{Denom: usdt, Amount: out}, TokenInMaxAmount: maxIn}
	env.Amm.SetSwapExactAmountOutRequests(ctx, m, 1)
	env.Amm.SetLastSwapRequestIndex(ctx, 1)

	env.Amm.EndBlocker(ctx)

	vrf.Assert(len(env.Amm.GetAllSwapExactAmountOutRequests(ctx)) == 0, "C04: no request lingers after EndBlocker")
	spent := w.aUsdc.Sub(env.W.BalOf(alice, usdc))
	got := env.W.BalOf(bob, usdt).Sub(bUsdt)
	vrf.Assert(!spent.IsNegative(), "C04: sender never gains input tokens")
	vrf.Assert(spent.LTE(maxIn), "C04: sender debited at most TokenInMax (two hops)")
	if spent.IsZero() {
		vrf.Cover("not-applied")
		vrf.Assert(got.IsZero(), "C04: unapplied exact-out request credits nothing")
	} else {
		vrf.Cover("applied")
		vrf.Assert(got.GTE(out), "C04: recipient credited at least TokenOut (two hops)")
	}
	// (with the two pools priced independently by the contracts the second hop may cost less than estimated, in which
	// case the difference stays with the sender; it is never taken from the sender's own holdings)
	vrf.Assert(env.W.BalOf(alice, atom).GTE(w.aAtom), "C04: a routed exact-out swap takes nothing from the sender's own balance of the intermediate denom")
	vrf.Assert(env.W.BalOf(alice, usdt).Equal(aUsdt), "C04: sender's output-denom balance untouched (separate recipient)")
	vrf.Assert(env.W.BalOf(bob, atom).Equal(w.bAtom), "C04: recipient receives nothing of the intermediate denom")
	vrf.Assert(env.W.BalOf(bob, usdc).Equal(w.bUsdc), "C04: recipient's input-denom balance untouched")
}

// One queued exact-in request routed over two pools (uusdc -> uatom -> uusdt), sender and recipient distinct.
//
//vrf:summary (*github.com/elys-network/elys/x/amm/types.Pool).SwapOutAmtGivenIn => sumSwapOut
//vrf:summary (github.com/elys-network/elys/x/tier/keeper.Keeper).GetMembershipTier => sumTier
//vrf:summary (github.com/elys-network/elys/x/amm/keeper.Keeper).GetStackedSlippage => sumStacked
//vrf:cover applied not-applied
//vrf:bound 1 queued exact-in request, 2-hop route over two constant-product pools, separate recipient; execution prices havocked; balances, input and minimum symbolic
//vrf:max-steps 60000000
func H_EndBlocker_One_ExactIn_TwoHops() {
	w := setup()
	addPool2(w)
	env, ctx := w.env, w.env.Ctx
	aUsdt, bUsdt := vrf.Int("aliceUsdt"), vrf.Int("bobUsdt")
	vrf.Assume(!aUsdt.IsNegative())
	vrf.Assume(!bUsdt.IsNegative())
	env.W.SetBal(alice, usdt, aUsdt)
	env.W.SetBal(bob, usdt, bUsdt)
	in, min := vrf.Int("in"), vrf.Int("min")
	vrf.Assume(in.IsPositive())
	vrf.Assume(!min.IsNegative())
	m := &ammtypes.MsgSwapExactAmountIn{Sender: alice.String(), Recipient: bob.String(),
		Routes:  []ammtypes.SwapAmountInRoute{{PoolId: 1, TokenOutDenom: atom}, {PoolId: 2, TokenOutDenom: usdt}},
		TokenIn: sdk.Coin{Denom: usdc, Amount: in}, TokenOutMinAmount: min}
	env.Amm.SetSwapExactAmountInRequests(ctx, m, 1)
	env.Amm.SetLastSwapRequestIndex(ctx, 1)

	env.Amm.EndBlocker(ctx)

	vrf.Assert(len(env.Amm.GetAllSwapExactAmountInRequests(ctx)) == 0, "C04: no request lingers after EndBlocker")
	spent := w.aUsdc.Sub(env.W.BalOf(alice, usdc))
	got := env.W.BalOf(bob, usdt).Sub(bUsdt)
	vrf.Assert(spent.IsZero() || spent.Equal(in), "C04: sender debited exactly TokenIn or not at all (two hops)")
	if spent.IsZero() {
		vrf.Cover("not-applied")
		vrf.Assert(got.IsZero(), "C04: unapplied request credits nothing")
	} else {
		vrf.Cover("applied")
		vrf.Assert(got.GTE(min), "C04: recipient credited at least TokenOutMin (two hops)")
	}
	vrf.Assert(env.W.BalOf(alice, atom).Equal(w.aAtom), "C04: a routed exact-in swap leaves the sender's balance of the intermediate denom as it was")
	vrf.Assert(env.W.BalOf(alice, usdt).Equal(aUsdt), "C04: sender's output-denom balance untouched (separate recipient)")
	vrf.Assert(env.W.BalOf(bob, atom).Equal(w.bAtom), "C04: recipient receives nothing of the intermediate denom")
	vrf.Assert(env.W.BalOf(bob, usdc).Equal(w.bUsdc), "C04: recipient's input-denom balance untouched")
}

// Enqueue side, exact-out form: nothing moves at acceptance and the queued copy carries the user's limits.
//
//vrf:summary (*github.com/elys-network/elys/x/amm/types.Pool).SwapInAmtGivenOut => sumSwapIn
//vrf:summary (*github.com/elys-network/elys/x/amm/types.Pool).CalcInAmtGivenOut => sumCalcIn
//vrf:summary (github.com/elys-network/elys/x/tier/keeper.Keeper).GetMembershipTier => sumTier
//vrf:cover accepted rejected
//vrf:bound 1 exact-out message, 1-hop route, separate recipient
func H_Enqueue_ExactOut() {
	w := setup()
	env, ctx := w.env, w.env.Ctx
	maxIn, out := vrf.Int("maxIn"), vrf.Int("out")
	vrf.Assume(maxIn.IsPositive())
	vrf.Assume(out.IsPositive())
	sends := env.W.Sends
	m := &ammtypes.MsgSwapExactAmountOut{Sender: alice.String(), Recipient: bob.String(), Routes: []ammtypes.SwapAmountOutRoute{{PoolId: 1, TokenInDenom: atom}}, TokenOut: sdk.Coin{Denom: usdc, Amount: out}, TokenInMaxAmount: maxIn}
	_, err := env.Amm.SwapExactAmountOut(ctx, m)
	vrf.Assert(env.W.Sends == sends, "C04: accepting a request moves no funds")
	vrf.Assert(env.W.BalOf(alice, atom).Equal(w.aAtom), "C04: sender balance untouched at enqueue")
	qs := env.Amm.GetAllSwapExactAmountOutRequests(ctx)
	if err != nil {
		vrf.Cover("rejected")
		vrf.Assert(len(qs) == 0, "C04: rejected request is not queued")
		return
	}
	vrf.Cover("accepted")
	vrf.Assert(len(qs) == 1, "C04: accepted request is queued once")
	for _, q := range qs {
		vrf.Assert(q.Sender == alice.String() && q.Recipient == bob.String(), "C04: the queued request names the stated sender and recipient")
		vrf.Assert(q.TokenOut.Denom == usdc && q.TokenOut.Amount.Equal(out), "C04: the queued request carries the stated output")
		vrf.Assert(!q.TokenInMaxAmount.IsNil() && q.TokenInMaxAmount.Equal(maxIn), "C04: the queued request carries the user's maximum input (the limit enforced when it is executed at the end of the block)")
		vrf.Assert(len(q.Routes) == 1 && q.Routes[0].PoolId == 1 && q.Routes[0].TokenInDenom == atom, "C04: the queued request carries the stated route")
	}
}
