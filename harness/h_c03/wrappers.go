package h_c03

import "github.com/elys-network/elys/zzvrf/h_c01"

// Oracle pools: "a rebalancing bonus is paid out of the rebalance treasury only" is settled where the swap is
// applied (amm keeper UpdatePoolForSwap), whose inductive step lives in h_c01: the pool account pays exactly the
// swap output, the treasury pays the bonus, bank == book afterwards.
//
//vrf:cover swap-ok bonus-pos bonus-neg
//vrf:bound see h_c01.H_UpdatePoolForSwap_Oracle_Bonus
func H_Keeper_OracleBonusFromTreasuryOnly() { h_c01.H_UpdatePoolForSwap_Oracle_Bonus() }
