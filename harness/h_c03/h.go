// Package h_c03: numeric obligations for C03 (no swap beats the reference price).
// Nothing is summarised: the real pricing code of x/amm/types runs symbolically.
package h_c03

import (
	sdkmath "cosmossdk.io/math"
	sdk "github.com/cosmos/cosmos-sdk/types"
	ammtypes "github.com/elys-network/elys/x/amm/types"
	vrf "github.com/elys-network/elys/zzvrf"
)

type noAcc struct{}

func (noAcc) GetAccountedBalance(ctx sdk.Context, poolId uint64, denom string) sdkmath.Int {
	return sdkmath.ZeroInt()
}

func e18() sdkmath.Int { return sdkmath.NewIntWithDecimal(1, 18) }

func mkPool(bin, bout sdkmath.Int, win, wout int64, fee sdkmath.LegacyDec) ammtypes.Pool {
	return ammtypes.Pool{
		PoolId:     1,
		PoolParams: ammtypes.PoolParams{UseOracle: false, SwapFee: fee},
		PoolAssets: []ammtypes.PoolAsset{
			{Token: sdk.Coin{Denom: "uatom", Amount: bin}, Weight: sdkmath.NewInt(win)},
			{Token: sdk.Coin{Denom: "uusdc", Amount: bout}, Weight: sdkmath.NewInt(wout)},
		},
		TotalWeight: sdkmath.NewInt(win + wout),
	}
}

// O1 (equal weights): out <= Bout*a/(Bin+a) + 1 with a = in*(1-fee).
//vrf:bound weights 1:1; Bout <= 1e18; Bin, in unbounded positive; fee in [0, 2%]
//vrf:cover o1-swap-ok
func H_O1_CalcOutGivenIn_1to1() {
	bin, bout, in := vrf.Int("Bin"), vrf.Int("Bout"), vrf.Int("in")
	fee := vrf.Dec("fee")
	vrf.Assume(bin.IsPositive())
	vrf.Assume(bout.IsPositive())
	vrf.Assume(in.IsPositive())
	vrf.Assume(bout.LTE(e18()))
	vrf.Assume(!fee.IsNegative())
	vrf.Assume(fee.LTE(sdkmath.LegacyNewDecWithPrec(2, 2)))
	pool := mkPool(bin, bout, 1, 1, fee)
	var ctx sdk.Context
	out, _, err := pool.CalcOutAmtGivenIn(ctx, nil, &pool, sdk.Coins{sdk.Coin{Denom: "uatom", Amount: in}}, "uusdc", fee, noAcc{})
	if err != nil {
		return
	}
	vrf.Cover("o1-swap-ok")
	vrf.Observe("out", out.Amount)
	a := sdkmath.LegacyNewDecFromInt(in).Mul(sdkmath.LegacyOneDec().Sub(fee))
	d := sdkmath.LegacyNewDecFromInt(bin).Add(a)
	// out*d <= Bout*a + d   (exact products on mantissas)
	vrf.Assert(d.MulInt(out.Amount).LTE(a.MulInt(bout).Add(d)), "O1: out <= exact + 1 base unit")
}
