// Package h_c03: numeric obligations for C03 (no swap beats the reference price).
// Nothing is summarised: the real pricing code of x/amm/types runs symbolically.
package h_c03

import (
	sdkmath "cosmossdk.io/math"
	sdk "github.com/cosmos/cosmos-sdk/types"
	ammtypes "github.com/elys-network/elys/x/amm/types"
	vrf "github.com/elys-network/elys/zzvrf"
)

type noAcc struct{}

func (noAcc) GetAccountedBalance(ctx sdk.Context, poolId uint64, denom string) sdkmath.Int {
	return sdkmath.ZeroInt()
}

func e18() sdkmath.Int { return sdkmath.NewIntWithDecimal(1, 18) }

func mkPool(bin, bout sdkmath.Int, win, wout int64, fee sdkmath.LegacyDec) ammtypes.Pool {
	return ammtypes.Pool{
		PoolId:     1,
		PoolParams: ammtypes.PoolParams{UseOracle: false, SwapFee: fee},
		PoolAssets: []ammtypes.PoolAsset{
			{Token: sdk.Coin{Denom: "uatom", Amount: bin}, Weight: sdkmath.NewInt(win)},
			{Token: sdk.Coin{Denom: "uusdc", Amount: bout}, Weight: sdkmath.NewInt(wout)},
		},
		TotalWeight: sdkmath.NewInt(win + wout),
	}
}

// O1 (equal weights): out <= Bout*a/(Bin+a) + 1 with a = in*(1-fee).
//
//vrf:bound weights 1:1; Bout <= 1e18; Bin, in unbounded positive; fee in [0, 2%]
//vrf:cover o1-swap-ok
func H_O1_CalcOutGivenIn_1to1() {
	bin, bout, in := vrf.Int("Bin"), vrf.Int("Bout"), vrf.Int("in")
	fee := vrf.Dec("fee")
	vrf.Assume(bin.IsPositive())
	vrf.Assume(bout.IsPositive())
	vrf.Assume(in.IsPositive())
	vrf.Assume(bout.LTE(e18()))
	vrf.Assume(!fee.IsNegative())
	vrf.Assume(fee.LTE(sdkmath.LegacyNewDecWithPrec(2, 2)))
	pool := mkPool(bin, bout, 1, 1, fee)
	var ctx sdk.Context
	out, _, err := pool.CalcOutAmtGivenIn(ctx, nil, &pool, sdk.Coins{sdk.Coin{Denom: "uatom", Amount: in}}, "uusdc", fee, noAcc{})
	if err != nil {
		return
	}
	vrf.Cover("o1-swap-ok")
	vrf.Observe("out", out.Amount)
	a := sdkmath.LegacyNewDecFromInt(in).Mul(sdkmath.LegacyOneDec().Sub(fee))
	d := sdkmath.LegacyNewDecFromInt(bin).Add(a)
	// out*d <= Bout*a + d   (exact products on mantissas)
	vrf.Assert(d.MulInt(out.Amount).LTE(a.MulInt(bout).Add(d)), "O1: out <= exact + 1 base unit")
}

func feeIn2pct() sdkmath.LegacyDec {
	fee := vrf.Dec("fee")
	vrf.Assume(!fee.IsNegative())
	vrf.Assume(fee.LTE(sdkmath.LegacyNewDecWithPrec(2, 2)))
	return fee
}

func o1Weighted(win, wout int64) {
	bin, bout, in := vrf.Int("Bin"), vrf.Int("Bout"), vrf.Int("in")
	fee := feeIn2pct()
	vrf.Assume(bin.IsPositive())
	vrf.Assume(bout.IsPositive())
	vrf.Assume(in.IsPositive())
	// the 18-digit rounding of y = Bin/(Bin+a) is amplified k times by y^k: one base unit covers Bout <= 1e17
	vrf.Assume(bout.LTE(sdkmath.NewIntWithDecimal(1, 17)))
	pool := mkPool(bin, bout, win, wout, fee)
	var ctx sdk.Context
	out, _, err := pool.CalcOutAmtGivenIn(ctx, nil, &pool, sdk.Coins{sdk.Coin{Denom: "uatom", Amount: in}}, "uusdc", fee, noAcc{})
	if err != nil {
		return
	}
	vrf.Cover("swap-ok")
	vrf.Observe("out", out.Amount)
	// exact: out = Bout*(1 - (Bin/(Bin+a))^k), k = win/wout integer. Weaker, solver-friendly bound that
	// every k >= 1 must satisfy: out <= Bout*k*a/(Bin+a) + 1  (Bernoulli: 1-y^k <= k(1-y))
	a := sdkmath.LegacyNewDecFromInt(in).Mul(sdkmath.LegacyOneDec().Sub(fee))
	d := sdkmath.LegacyNewDecFromInt(bin).Add(a)
	k := win / wout
	vrf.Assert(d.MulInt(out.Amount).LTE(a.MulInt(bout).MulInt64(k).Add(d)), "O1w: out <= k*Bout*a/(Bin+a) + 1 (Bernoulli bound of the weighted formula)")
	vrf.Assert(out.Amount.LTE(bout), "O1w: out never exceeds the reserve")
}

// O1 for integer weight ratios 2:1, 3:1, 4:1 (Pow takes the integer Power branch).
//
//vrf:cover swap-ok
//vrf:bound weights 2:1; Bout <= 1e17
//vrf:summary-opt github.com/elys-network/elys/x/amm/types.powerApproximation => sumPowApprox
func H_O1_CalcOutGivenIn_2to1() { o1Weighted(2, 1) }

//vrf:cover swap-ok
//vrf:tier thorough
//vrf:bound weights 3:1; Bout <= 1e17
//vrf:summary-opt github.com/elys-network/elys/x/amm/types.powerApproximation => sumPowApprox
func H_O1_CalcOutGivenIn_3to1() { o1Weighted(3, 1) }

//vrf:cover swap-ok
//vrf:tier thorough
//vrf:bound weights 4:1; Bout <= 1e17
//vrf:summary-opt github.com/elys-network/elys/x/amm/types.powerApproximation => sumPowApprox
func H_O1_CalcOutGivenIn_4to1() { o1Weighted(4, 1) }

// O2 (exact-out, equal weights): the charged input is at least the exact formula minus one unit:
// (in+1)*(1-fee)*(Bout-out) >= Bin*out.
//
//vrf:cover swap-ok
//vrf:bound weights 1:1; Bin <= 1e18; Bout, out unbounded; fee in [0, 2%]
func H_O2_CalcInGivenOut_1to1() {
	bin, bout, out := vrf.Int("Bin"), vrf.Int("Bout"), vrf.Int("out")
	fee := feeIn2pct()
	vrf.Assume(bin.IsPositive())
	vrf.Assume(bout.IsPositive())
	vrf.Assume(out.IsPositive())
	vrf.Assume(out.LT(bout))
	vrf.Assume(bin.LTE(e18()))
	pool := mkPool(bin, bout, 1, 1, fee)
	var ctx sdk.Context
	in, _, err := pool.CalcInAmtGivenOut(ctx, nil, &pool, sdk.Coins{sdk.Coin{Denom: "uusdc", Amount: out}}, "uatom", fee, noAcc{})
	if err != nil {
		return
	}
	vrf.Cover("swap-ok")
	vrf.Observe("in", in.Amount)
	f1 := sdkmath.LegacyOneDec().Sub(fee) // mantissa of (1-fee)
	lhs := f1.MulInt(in.Amount.AddRaw(1)).MulInt(bout.Sub(out))
	rhs := sdkmath.LegacyNewDecFromInt(bin).MulInt(out)
	vrf.Assert(lhs.GTE(rhs), "O2: charged input >= exact input - 1 base unit")
}

// O3 (split trade, zero fee, equal weights): two consecutive exact-in swaps against the updated
// reserves pay at most what the exact formula gives for the whole amount, plus the allowance.
//
//vrf:cover swap-ok
//vrf:bound weights 1:1; zero fee; Bout <= 1e18; two pieces
//vrf:assert-ms 120000
func H_O3_Split_1to1() {
	bin, bout, in1, in2 := vrf.Int("Bin"), vrf.Int("Bout"), vrf.Int("in1"), vrf.Int("in2")
	vrf.Assume(bin.IsPositive())
	vrf.Assume(bout.IsPositive())
	vrf.Assume(in1.IsPositive())
	vrf.Assume(in2.IsPositive())
	vrf.Assume(bout.LTE(e18()))
	z := sdkmath.LegacyZeroDec()
	pool := mkPool(bin, bout, 1, 1, z)
	var ctx sdk.Context
	out1, _, err := pool.CalcOutAmtGivenIn(ctx, nil, &pool, sdk.Coins{sdk.Coin{Denom: "uatom", Amount: in1}}, "uusdc", z, noAcc{})
	if err != nil {
		return
	}
	pool2 := mkPool(bin.Add(in1), bout.Sub(out1.Amount), 1, 1, z)
	out2, _, err := pool2.CalcOutAmtGivenIn(ctx, nil, &pool2, sdk.Coins{sdk.Coin{Denom: "uatom", Amount: in2}}, "uusdc", z, noAcc{})
	if err != nil {
		return
	}
	vrf.Cover("swap-ok")
	total := out1.Amount.Add(out2.Amount)
	in := in1.Add(in2)
	// (total - 2) * (Bin + in) <= Bout * in      (one unit of allowance per piece)
	vrf.Assert(total.SubRaw(2).Mul(bin.Add(in)).LTE(bout.Mul(in)), "O3: split trade <= exact(in1+in2) + 1 unit per piece")
}

// O4 (round trip A->B->A, zero fee, equal weights) returns at most the input plus one unit.
//
//vrf:cover swap-ok
//vrf:bound weights 1:1; zero fee; Bin+in <= 1e18, Bout <= 1e18
//vrf:assert-ms 120000
func H_O4_RoundTrip_1to1() {
	bin, bout, in := vrf.Int("Bin"), vrf.Int("Bout"), vrf.Int("in")
	vrf.Assume(bin.IsPositive())
	vrf.Assume(bout.IsPositive())
	vrf.Assume(in.IsPositive())
	vrf.Assume(bout.LTE(e18()))
	vrf.Assume(bin.Add(in).LTE(e18()))
	z := sdkmath.LegacyZeroDec()
	pool := mkPool(bin, bout, 1, 1, z)
	var ctx sdk.Context
	out1, _, err := pool.CalcOutAmtGivenIn(ctx, nil, &pool, sdk.Coins{sdk.Coin{Denom: "uatom", Amount: in}}, "uusdc", z, noAcc{})
	if err != nil {
		return
	}
	pool2 := mkPool(bin.Add(in), bout.Sub(out1.Amount), 1, 1, z)
	back, _, err := pool2.CalcOutAmtGivenIn(ctx, nil, &pool2, sdk.Coins{sdk.Coin{Denom: "uusdc", Amount: out1.Amount}}, "uatom", z, noAcc{})
	if err != nil {
		return
	}
	vrf.Cover("swap-ok")
	vrf.Assert(back.Amount.LTE(in.AddRaw(1)), "O4: round trip returns <= in + 1 base unit")
}

// ---- O5: oracle pools ----

type oracle struct {
	ammtypes.OracleKeeper
	pa, pu sdkmath.LegacyDec
}

func (o oracle) GetAssetPriceFromDenom(ctx sdk.Context, denom string) sdkmath.LegacyDec {
	if denom == "uatom" {
		return o.pa
	}
	return o.pu
}

// contract of Pool.CalcGivenInSlippage: any non-negative slippage amount
func sumSlippageIn(p *ammtypes.Pool, ctx sdk.Context, o ammtypes.OracleKeeper, snap *ammtypes.Pool, tokensIn sdk.Coins, outDenom string, acc ammtypes.AccountedPoolKeeper) (sdkmath.LegacyDec, error) {
	s := vrf.Dec("slippageAmount")
	vrf.Assume(!s.IsNegative())
	return s, nil
}

// contract of GetWeightBreakingFee: its result is clamped to [0, 0.99] by the code (Pow with exponent 2.5 is
// out of reach; any value in the clamped range is admitted, which is sound for the value inequality)
func sumWBF(a, b, c, d, e, f, g sdkmath.LegacyDec, params ammtypes.Params) sdkmath.LegacyDec {
	w := vrf.Dec("wbf")
	vrf.Assume(!w.IsNegative())
	vrf.Assume(w.LTE(sdkmath.LegacyNewDecWithPrec(99, 2)))
	return w
}

// O5 exact-in: what the oracle pool pays out is never worth more, at oracle prices, than what is paid in
// (up to one base unit of the output token): out*pOut <= in*pIn + pOut.
//
//vrf:summary (*github.com/elys-network/elys/x/amm/types.Pool).CalcGivenInSlippage => sumSlippageIn
//vrf:summary github.com/elys-network/elys/x/amm/types.GetWeightBreakingFee => sumWBF
//vrf:cover swap-ok
//vrf:bound oracle pool, 2 assets; prices, fee in [0,2%], external-liquidity ratio in (0,1] symbolic; slippage amount and weight-breaking fee havocked within their clamped ranges
//vrf:assert-ms 120000
//vrf:full-feas-ms 2000
//vrf:max-paths 3000
func H_O5_OracleSwap_ExactIn() {
	env := vrf.NewWorld()
	ctx := vrf.NewCtx(env)
	ba, bu, in := vrf.Int("Batom"), vrf.Int("Busdc"), vrf.Int("in")
	pa, pu := vrf.Dec("pAtom"), vrf.Dec("pUsdc")
	fee, ext := feeIn2pct(), vrf.Dec("extRatio")
	vrf.Assume(ba.IsPositive())
	vrf.Assume(bu.IsPositive())
	vrf.Assume(in.IsPositive())
	vrf.Assume(pa.IsPositive())
	vrf.Assume(pu.IsPositive())
	vrf.Assume(ext.IsPositive())
	vrf.Assume(ext.LTE(sdkmath.LegacyOneDec()))
	pool := ammtypes.Pool{
		PoolId:     1,
		PoolParams: ammtypes.PoolParams{UseOracle: true, SwapFee: fee},
		PoolAssets: []ammtypes.PoolAsset{
			{Token: sdk.Coin{Denom: "uatom", Amount: ba}, Weight: sdkmath.NewInt(1), ExternalLiquidityRatio: ext},
			{Token: sdk.Coin{Denom: "uusdc", Amount: bu}, Weight: sdkmath.NewInt(1), ExternalLiquidityRatio: ext},
		},
		TotalWeight: sdkmath.NewInt(2),
	}
	snap := pool
	out, _, _, _, _, err := pool.SwapOutAmtGivenIn(ctx, oracle{pa: pa, pu: pu}, &snap, sdk.Coins{{Denom: "uatom", Amount: in}}, "uusdc", fee, noAcc{}, sdkmath.LegacyOneDec(), ammtypes.DefaultParams())
	if err != nil {
		return
	}
	vrf.Cover("swap-ok")
	// out*pu <= in*pa + pu   (price mantissas)
	vrf.Assert(pu.MulInt(out.Amount).LTE(pa.MulInt(in).Add(pu)), "O5: value out <= value in + one output unit")
}

// ---- weighted pools, exact-out; fractional exponents ----

var powCalls int

// contract of powerApproximation for a fractional exponent e in (0,1): the real power b^e within 1e-6
// (Bernoulli: for b >= 1, 1 + e(b-1)/b <= b^e <= 1 + e(b-1); for b < 1, 1 - e(1-b)/b <= b^e <= 1 - e(1-b)).
// The unchanged tree never reaches it from the harnesses below (their weight ratios are integers); a change
// that mixes up the weights does, and any counter-example found under it is confirmed by concrete re-execution
// of the real series code.
func sumPowApprox(base, exp sdkmath.LegacyDec) (sdkmath.LegacyDec, error) {
	powCalls++
	r := vrf.Dec("powApprox" + string(rune('0'+powCalls)))
	tol := sdkmath.LegacyNewDecWithPrec(1, 6)
	one := sdkmath.LegacyOneDec()
	vrf.Assume(r.IsPositive())
	if base.GTE(one) {
		x := base.Sub(one)
		vrf.Assume(r.LTE(one.Add(exp.Mul(x)).Add(tol)))
		vrf.Assume(r.Sub(one).Add(tol).Mul(base).GTE(exp.Mul(x)))
	} else {
		x := one.Sub(base)
		vrf.Assume(r.LTE(one.Sub(exp.Mul(x)).Add(tol)))
		vrf.Assume(one.Sub(r).Sub(tol).Mul(base).LTE(exp.Mul(x)))
	}
	return r, nil
}

func o2Weighted(win, wout int64) {
	bin, bout, out := vrf.Int("Bin"), vrf.Int("Bout"), vrf.Int("out")
	fee := feeIn2pct()
	vrf.Assume(bin.IsPositive())
	vrf.Assume(bout.IsPositive())
	vrf.Assume(out.IsPositive())
	vrf.Assume(out.LT(bout))
	vrf.Assume(bin.LTE(sdkmath.NewIntWithDecimal(1, 17)))
	pool := mkPool(bin, bout, win, wout, fee)
	var ctx sdk.Context
	in, _, err := pool.CalcInAmtGivenOut(ctx, nil, &pool, sdk.Coins{sdk.Coin{Denom: "uusdc", Amount: out}}, "uatom", fee, noAcc{})
	if err != nil {
		return
	}
	vrf.Cover("swap-ok")
	vrf.Observe("in", in.Amount)
	// exact: in*(1-fee) = Bin*((Bout/(Bout-out))^k - 1), k = wout/win integer; (1+x)^k - 1 >= k*x, so every k >= 1 needs
	// (in+1)*(1-fee)*(Bout-out) >= k*Bin*out
	k := wout / win
	f1 := sdkmath.LegacyOneDec().Sub(fee)
	lhs := f1.MulInt(in.Amount.AddRaw(1)).MulInt(bout.Sub(out))
	rhs := sdkmath.LegacyNewDecFromInt(bin).MulInt(out).MulInt64(k)
	vrf.Assert(lhs.GTE(rhs), "O2w: charged input >= k*Bin*out/(Bout-out) - 1 base unit (Bernoulli bound of the weighted formula)")
}

// O2 for weight ratios 1:2 (the bought asset is the heavier one; Pow takes the integer Power branch)
//
//vrf:cover swap-ok
//vrf:bound weights 1:2; Bin <= 1e17; Bout, out unbounded; fee in [0, 2%]
//vrf:summary-opt github.com/elys-network/elys/x/amm/types.powerApproximation => sumPowApprox
//vrf:assert-ms 120000
func H_O2_CalcInGivenOut_1to2() { o2Weighted(1, 2) }

//vrf:cover swap-ok
//vrf:tier thorough
//vrf:bound weights 1:3; Bin <= 1e17
//vrf:summary-opt github.com/elys-network/elys/x/amm/types.powerApproximation => sumPowApprox
//vrf:assert-ms 120000
func H_O2_CalcInGivenOut_1to3() { o2Weighted(1, 3) }

// ---- the contract of CalcGivenInSlippage used by O5 is what the real function delivers ----

// contract of Pool.CalcOutAmtGivenIn (the balancer output with oracle weights: fractional exponents): any positive amount
func sumBalancerOut(p ammtypes.Pool, ctx sdk.Context, o ammtypes.OracleKeeper, snap *ammtypes.Pool, tokensIn sdk.Coins, outDenom string, fee sdkmath.LegacyDec, acc ammtypes.AccountedPoolKeeper) (sdk.Coin, sdkmath.LegacyDec, error) {
	out := vrf.Int("balancerOut")
	vrf.Assume(out.IsPositive())
	return sdk.Coin{Denom: outDenom, Amount: out}, sdkmath.LegacyZeroDec(), nil
}

// O5 once more with the slippage computed by the real CalcGivenInSlippage from a havocked balancer output (which may
// exceed the oracle value when the start-of-block snapshot weights lag behind the reserves): wherever the code clamps
// a negative slippage, what the pool pays out is never worth more than what is paid in.
//
//vrf:summary (github.com/elys-network/elys/x/amm/types.Pool).CalcOutAmtGivenIn => sumBalancerOut
//vrf:summary github.com/elys-network/elys/x/amm/types.GetWeightBreakingFee => sumWBF
//vrf:cover swap-ok
//vrf:bound as O5; the balancer output is havocked > 0 instead of the slippage amount
//vrf:assert-ms 120000
//vrf:full-feas-ms 2000
//vrf:max-paths 3000
func H_O5_OracleSwap_ExactIn_BalancerHavocked() { H_O5_OracleSwap_ExactIn() }

// contract of Pool.CalcGivenOutSlippage: any non-negative slippage amount (the code clamps it at zero)
func sumSlippageOut(p ammtypes.Pool, ctx sdk.Context, o ammtypes.OracleKeeper, snap *ammtypes.Pool, tokensOut sdk.Coins, inDenom string, acc ammtypes.AccountedPoolKeeper) (sdkmath.LegacyDec, error) {
	s := vrf.Dec("slippageAmount")
	vrf.Assume(!s.IsNegative())
	return s, nil
}

// O5 exact-out: what the trader is charged is worth at least, at oracle prices, what the oracle pool pays out. The
// charged amount is rounded UP to a base unit of the input token, so the only allowance is the 18-digit rounding of the
// three decimal divisions in front of it (1.5e-18 input units): in*pIn + 2e-18*pIn >= out*pOut.
//
//vrf:summary (github.com/elys-network/elys/x/amm/types.Pool).CalcGivenOutSlippage => sumSlippageOut
//vrf:summary github.com/elys-network/elys/x/amm/types.GetWeightBreakingFee => sumWBF
//vrf:cover swap-ok
//vrf:bound oracle pool, 2 assets; prices, fee in [0,2%], external-liquidity ratio in (0,1] symbolic; slippage amount (>= 0, zero included) and weight-breaking fee havocked within their clamped ranges; exact-out form
//vrf:assert-ms 120000
//vrf:full-feas-ms 2000
//vrf:max-paths 3000
func H_O5_OracleSwap_ExactOut() {
	env := vrf.NewWorld()
	ctx := vrf.NewCtx(env)
	ba, bu, out := vrf.Int("Batom"), vrf.Int("Busdc"), vrf.Int("out")
	pa, pu := vrf.Dec("pAtom"), vrf.Dec("pUsdc")
	fee, ext := feeIn2pct(), vrf.Dec("extRatio")
	vrf.Assume(ba.IsPositive())
	vrf.Assume(bu.IsPositive())
	vrf.Assume(out.IsPositive())
	vrf.Assume(out.LT(bu))
	vrf.Assume(pa.IsPositive())
	vrf.Assume(pu.IsPositive())
	vrf.Assume(ext.IsPositive())
	vrf.Assume(ext.LTE(sdkmath.LegacyOneDec()))
	pool := ammtypes.Pool{
		PoolId:     1,
		PoolParams: ammtypes.PoolParams{UseOracle: true, SwapFee: fee},
		PoolAssets: []ammtypes.PoolAsset{
			{Token: sdk.Coin{Denom: "uatom", Amount: ba}, Weight: sdkmath.NewInt(1), ExternalLiquidityRatio: ext},
			{Token: sdk.Coin{Denom: "uusdc", Amount: bu}, Weight: sdkmath.NewInt(1), ExternalLiquidityRatio: ext},
		},
		TotalWeight: sdkmath.NewInt(2),
	}
	snap := pool
	in, _, _, _, _, err := pool.SwapInAmtGivenOut(ctx, oracle{pa: pa, pu: pu}, &snap, sdk.Coins{{Denom: "uusdc", Amount: out}}, "uatom", fee, noAcc{}, sdkmath.LegacyOneDec(), ammtypes.DefaultParams())
	if err != nil {
		return
	}
	vrf.Cover("swap-ok")
	vrf.Observe("in", in.Amount)
	// in 1e-18 units of value: (in*1e18 + 2) * PA >= out*1e18 * PU, PA / PU the price mantissas
	e18 := sdkmath.NewIntWithDecimal(1, 18)
	PA, PU := pa.MulInt(e18).TruncateInt(), pu.MulInt(e18).TruncateInt()
	vrf.Assert(in.Amount.Mul(e18).AddRaw(2).Mul(PA).GTE(out.Mul(e18).Mul(PU)), "O5 exact-out: value charged >= value paid out (the charge is rounded up to a base unit)")
}

// Fractional exponents with a reserve ratio outside [0.5, 2) take Pow's exp / ln series, whose loops depend on their
// input and are run here on concrete reserve ratios that are exact powers of two (the series' range reduction), with
// only the fee symbolic: the request is either refused or charged at least the Bernoulli bound of the weighted formula.
//
//vrf:cover priced-or-refused
//vrf:bound weights 4:1, reserves 8,000,000 : 4,000,000, exact-out of 3,000,000 (reserve ratio exactly 4) and of 3,500,000 (exactly 8); fee symbolic in [0, 2%]; a concrete-point obligation on the real series code (no contract)
//vrf:max-steps 400000000
//vrf:assert-ms 120000
func H_O2_CalcInGivenOut_4to1_PowersOfTwo() {
	fee := feeIn2pct()
	bin, bout := sdkmath.NewInt(8_000_000), sdkmath.NewInt(4_000_000)
	out := sdkmath.NewInt(3_000_000)
	if vrf.Bool("ratio8") {
		out = sdkmath.NewInt(3_500_000)
	}
	pool := mkPool(bin, bout, 4, 1, fee)
	var ctx sdk.Context
	var in sdk.Coin
	var err error
	refused := true
	func() {
		// the series code panics when it does not converge; the keeper entry points recover and fail the transaction
		defer func() { recover() }()
		in, _, err = pool.CalcInAmtGivenOut(ctx, nil, &pool, sdk.Coins{sdk.Coin{Denom: "uusdc", Amount: out}}, "uatom", fee, noAcc{})
		refused = false
	}()
	vrf.Cover("priced-or-refused")
	if refused || err != nil {
		return
	}
	// in*(1-fee) = Bin*((Bout/(Bout-out))^(1/4) - 1) >= Bin*(r-1)/(4r) with r = Bout/(Bout-out) (Bernoulli, exponent < 1:
	// (1+x)^(1/4) >= 1 + x/(4(1+x))), i.e. (in+1)*(1-fee)*4*Bout >= Bin*out
	f1 := sdkmath.LegacyOneDec().Sub(fee)
	lhs := f1.MulInt(in.Amount.AddRaw(1)).MulInt(bout).MulInt64(4)
	rhs := sdkmath.LegacyNewDecFromInt(bin).MulInt(out)
	vrf.Assert(lhs.GTE(rhs), "O2w: charged input at a power-of-two reserve ratio >= the Bernoulli bound of the weighted formula")
}
