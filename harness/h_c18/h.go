// Package h_c18: no reachable state makes block processing fail. Every Begin/End
// blocker body of the Elys modules is run from a symbolic state with validated
// parameters and arbitrarily absent oracle prices; no panic may leave the blocker
// and no error may be returned to baseapp.
package h_c18

import (
	"time"

	sdkmath "cosmossdk.io/math"
	sdk "github.com/cosmos/cosmos-sdk/types"
	authtypes "github.com/cosmos/cosmos-sdk/x/auth/types"
	ammkeeper "github.com/elys-network/elys/x/amm/keeper"
	ammtypes "github.com/elys-network/elys/x/amm/types"
	aptypes "github.com/elys-network/elys/x/assetprofile/types"
	burnertypes "github.com/elys-network/elys/x/burner/types"
	ctypes "github.com/elys-network/elys/x/commitment/types"
	epochstypes "github.com/elys-network/elys/x/epochs/types"
	estypes "github.com/elys-network/elys/x/estaking/types"
	mckeeper "github.com/elys-network/elys/x/masterchef/keeper"
	mctypes "github.com/elys-network/elys/x/masterchef/types"
	okeeper "github.com/elys-network/elys/x/oracle/keeper"
	otypes "github.com/elys-network/elys/x/oracle/types"
	ptypes "github.com/elys-network/elys/x/parameter/types"
	sstypes "github.com/elys-network/elys/x/stablestake/types"
	tierkeeper "github.com/elys-network/elys/x/tier/keeper"
	tiertypes "github.com/elys-network/elys/x/tier/types"
	vrf "github.com/elys-network/elys/zzvrf"
	"github.com/elys-network/elys/zzvrf/h_c08"
	"github.com/elys-network/elys/zzvrf/h_c09"
	"github.com/elys-network/elys/zzvrf/wire"
)

const (
	usdc = "uusdc"
	atom = "uatom"
	maxT = 1 << 40
)

var (
	mcAddr   = authtypes.NewModuleAddress(mctypes.ModuleName)
	ssAddr   = authtypes.NewModuleAddress(sstypes.ModuleName)
	feeColl  = authtypes.NewModuleAddress(authtypes.FeeCollectorName)
	revenue1 = ammtypes.NewPoolRevenueAddress(1)
)

// symOracle: every price is an arbitrary non-negative value; zero = price absent / expired
type symOracle struct {
	okeeper.Keeper
	pUsdc, pAtom, pElys sdkmath.LegacyDec
}

func (o symOracle) GetAssetPriceFromDenom(ctx sdk.Context, denom string) sdkmath.LegacyDec {
	switch denom {
	case usdc:
		return o.pUsdc
	case atom:
		return o.pAtom
	case ptypes.Elys:
		return o.pElys
	}
	return sdkmath.LegacyZeroDec()
}

func price(name string) sdkmath.LegacyDec {
	p := vrf.Dec(name)
	vrf.Assume(!p.IsNegative())
	vrf.Assume(p.LTE(sdkmath.LegacyNewDec(1000000000000)))
	return p
}

// guard runs f and reports whether a panic left it
func guard(f func()) (panicked bool) {
	panicked = true
	defer func() {
		if r := recover(); r != nil {
			if e, ok := r.(error); ok {
				vrf.Cover("panic: " + e.Error())
			} else if m, ok := r.(string); ok {
				vrf.Cover("panic: " + m)
			}
		}
	}()
	f()
	return false
}

// ---- stablestake BeginBlocker ----
//
//vrf:cover done
//vrf:bound params symbolic within Params.Validate(); TotalValue, cash, height, time symbolic
func H_Stablestake_BeginBlocker() {
	env := wire.New(wire.Opts{})
	h, now := vrf.I64("height", 1, maxT), vrf.I64("now", 1, maxT)
	env.Ctx = vrf.SetBlock(env.Ctx, h, now)
	ctx := env.Ctx
	p := sstypes.DefaultParams()
	p.TotalValue = vrf.Int("TV")
	p.InterestRate, p.InterestRateMax, p.InterestRateMin = vrf.Dec("rate"), vrf.Dec("rateMax"), vrf.Dec("rateMin")
	p.InterestRateIncrease, p.InterestRateDecrease, p.HealthGainFactor = vrf.Dec("inc"), vrf.Dec("dec"), vrf.Dec("gain")
	p.EpochLength = vrf.I64("epochLength", 0, maxT)
	vrf.Assume(p.Validate() == nil)
	env.Stable.SetParams(ctx, p)
	cash := vrf.Int("cash")
	vrf.Assume(!cash.IsNegative())
	env.W.SetBal(ssAddr, usdc, cash)
	env.W.Supply[sstypes.GetShareDenom()] = vrf.Int("shares")
	vrf.Assume(!env.W.Supply[sstypes.GetShareDenom()].IsNegative())
	vrf.Assert(!guard(func() { env.Stable.BeginBlocker(ctx) }), "C18: stablestake BeginBlocker never panics")
	vrf.Cover("done")
}

// ---- masterchef EndBlocker ----

func mcEnv() (*wire.Env, symOracle) {
	o := symOracle{pUsdc: price("priceUsdc"), pAtom: price("priceAtom"), pElys: price("priceElys")}
	env := wire.New(wire.Opts{Oracle: o})
	h, now := vrf.I64("height", 1, maxT), vrf.I64("now", 1, maxT)
	env.Ctx = vrf.SetBlock(env.Ctx, h, now)
	ctx := env.Ctx
	env.Aprof.SetEntry(ctx, aptypes.Entry{BaseDenom: ptypes.BaseCurrency, Denom: usdc, Decimals: 6, CommitEnabled: true, WithdrawEnabled: true})
	env.Comm.SetParams(ctx, ctypes.DefaultParams())
	env.Amm.SetParams(ctx, ammtypes.DefaultParams())
	env.Stable.SetParams(ctx, sstypes.DefaultParams())
	pp := ptypes.DefaultParams()
	pp.TotalBlocksPerYear = vrf.U64("blocksPerYear", 1, maxT)
	pp.RewardsDataLifetime = vrf.U64("dataLifetime", 1, maxT)
	env.Param.SetParams(ctx, pp)
	mp := mctypes.DefaultParams()
	mp.RewardPortionForLps, mp.RewardPortionForStakers = vrf.Dec("portionLps"), vrf.Dec("portionStakers")
	mp.MaxEdenRewardAprLps = vrf.Dec("maxEdenApr")
	vrf.Assume(mp.Validate() == nil)
	env.Mc.SetParams(ctx, mp)
	ep := estypes.DefaultParams()
	ep.ProviderStakingRewardsPortion = vrf.Dec("providerPortion")
	vrf.Assume(ep.Validate() == nil)
	env.Estaking.SetParams(ctx, ep)
	return env, o
}

func symPool(env *wire.Env) {
	ba, bu, T := vrf.Int("bookAtom"), vrf.Int("bookUsdc"), vrf.Int("totalShares")
	vrf.Assume(ba.IsPositive())
	vrf.Assume(bu.IsPositive())
	vrf.Assume(T.IsPositive())
	pool := ammtypes.Pool{
		PoolId: 1, Address: ammtypes.NewPoolAddress(1).String(), RebalanceTreasury: ammtypes.NewPoolRebalanceTreasury(1).String(),
		PoolParams:  ammtypes.PoolParams{UseOracle: false, SwapFee: sdkmath.LegacyZeroDec(), FeeDenom: usdc},
		TotalShares: sdk.Coin{Denom: ammtypes.GetPoolShareDenom(1), Amount: T},
		PoolAssets: []ammtypes.PoolAsset{
			{Token: sdk.Coin{Denom: atom, Amount: ba}, Weight: sdkmath.NewInt(1)},
			{Token: sdk.Coin{Denom: usdc, Amount: bu}, Weight: sdkmath.NewInt(1)},
		},
		TotalWeight: sdkmath.NewInt(2),
	}
	env.Amm.SetPool(env.Ctx, pool)
	env.W.SetBal(ammtypes.NewPoolAddress(1), atom, ba)
	env.W.SetBal(ammtypes.NewPoolAddress(1), usdc, bu)
}

// ---- contracts used by the distribution harnesses (each collector has its own no-panic / no-error
// obligation on the real code in h_c13: H_R2_CollectGasFees, H_R2_CollectPerpRevenue, H_R2_CollectDEXRevenue) ----

func sumCollectDec(k mckeeper.Keeper, ctx sdk.Context, baseCurrency string) (sdk.DecCoins, error) {
	nColl++
	a := vrf.Dec("collected" + string(rune('0'+nColl)))
	vrf.Assume(!a.IsNegative())
	if a.IsZero() {
		return sdk.DecCoins{}, nil
	}
	return sdk.DecCoins{sdk.DecCoin{Denom: baseCurrency, Amount: a}}, nil
}

func sumCollectDex(k mckeeper.Keeper, ctx sdk.Context) (sdk.Coins, sdk.DecCoins, map[uint64]sdkmath.LegacyDec, error) {
	a := vrf.Dec("dexForPool1")
	vrf.Assume(!a.IsNegative())
	return sdk.Coins{}, sdk.DecCoins{}, map[uint64]sdkmath.LegacyDec{1: a}, nil
}

// TVL and price maths havocked to arbitrary non-negative values (zero = prices absent)
func SumPoolTVL(k mckeeper.Keeper, ctx sdk.Context, poolId uint64) sdkmath.LegacyDec {
	if poolId == 1 {
		return tvl1
	}
	return tvlStable
}

func sumEdenPrice(k ammkeeper.Keeper, ctx sdk.Context, baseCurrency string) sdkmath.LegacyDec {
	p := vrf.Dec("edenPrice")
	vrf.Assume(!p.IsNegative())
	edenPrice, edenPriceAsked = p, true
	return p
}

var edenPrice sdkmath.LegacyDec
var edenPriceAsked bool

func SumTokenPrice(k ammkeeper.Keeper, ctx sdk.Context, denom, baseCurrency string) sdkmath.LegacyDec {
	p := vrf.Dec("tokenPrice")
	vrf.Assume(!p.IsNegative())
	return p
}

var nColl int
var tvl1, tvlStable sdkmath.LegacyDec

func mcDistribution(withAmmPool bool) {
	env, _ := mcEnv()
	ctx := env.Ctx
	tvl1, tvlStable = sdkmath.LegacyZeroDec(), vrf.Dec("tvlStable")
	vrf.Assume(!tvlStable.IsNegative())
	if withAmmPool {
		tvl1 = vrf.Dec("tvlPool1")
		vrf.Assume(!tvl1.IsNegative())
		tvlStable = sdkmath.LegacyZeroDec() // the stable pool is skipped by the loop (zero proxy TVL)
		symPool(env)
		env.Mc.InitPoolParams(ctx, 1)
		pi, _ := env.Mc.GetPoolInfo(ctx, 1)
		pi.Multiplier = vrf.Dec("multiplier")
		vrf.Assume(!pi.Multiplier.IsNegative())
		pi.EnableEdenRewards = vrf.Bool("edenRewards")
		env.Mc.SetPoolInfo(ctx, pi)
	}
	cp := env.Comm.GetParams(ctx)
	tc := vrf.Int("totalCommitted")
	vrf.Assume(!tc.IsNegative())
	if tc.IsPositive() {
		d := sstypes.GetShareDenom()
		if withAmmPool {
			d = ammtypes.GetPoolShareDenom(1)
		}
		cp.TotalCommitted = sdk.Coins{sdk.NewCoin(d, tc)}
	}
	env.Comm.SetParams(ctx, cp)
	if vrf.Bool("lpIncentive") {
		mp := env.Mc.GetParams(ctx)
		ea := vrf.Int("edenPerYear")
		vrf.Assume(ea.IsPositive())
		mp.LpIncentives = &mctypes.IncentiveInfo{EdenAmountPerYear: ea, BlocksDistributed: 0}
		env.Mc.SetParams(ctx, mp)
	}
	if vrf.Bool("externalIncentive") {
		amt := vrf.Int("incentivePerBlock")
		vrf.Assume(amt.IsPositive())
		from, to := vrf.I64("incFrom", 0, maxT), vrf.I64("incTo", 0, maxT)
		env.Mc.SetExternalIncentive(ctx, mctypes.ExternalIncentive{Id: 0, RewardDenom: atom, PoolId: 1, FromBlock: from, ToBlock: to, AmountPerBlock: amt, Apr: sdkmath.LegacyZeroDec()})
	}
	var err error
	p := guard(func() { err = env.Mc.EndBlocker(ctx) })
	vrf.Assert(!p, "C18: masterchef EndBlocker never panics")
	if p {
		return
	}
	// the only error a validated state may produce is the stated "invalid eden price" guard when the
	// (havocked) eden price is zero; with real prices GetEdenDenomPrice substitutes non-zero defaults
	vrf.Cover("done")
	if err != nil {
		vrf.Cover("error-returned")
		vrf.Assert(edenPriceAsked && edenPrice.IsZero(), "C18: masterchef EndBlocker returns an error only through its zero-eden-price guard")
	}
}

// masterchef EndBlocker, distribution over the stable-stake pool only
//
//vrf:summary (github.com/elys-network/elys/x/masterchef/keeper.Keeper).CollectGasFees => sumCollectDec
//vrf:summary (github.com/elys-network/elys/x/masterchef/keeper.Keeper).CollectPerpRevenue => sumCollectDec
//vrf:summary (github.com/elys-network/elys/x/masterchef/keeper.Keeper).CollectDEXRevenue => sumCollectDex
//vrf:summary (github.com/elys-network/elys/x/masterchef/keeper.Keeper).GetPoolTVL => SumPoolTVL
//vrf:summary (github.com/elys-network/elys/x/amm/keeper.Keeper).GetEdenDenomPrice => sumEdenPrice
//vrf:summary (github.com/elys-network/elys/x/amm/keeper.Keeper).GetTokenPrice => SumTokenPrice
//vrf:cover done
//vrf:bound stable-stake pool only; collected amounts, TVL, prices havocked >= 0; params within Validate(); blocks-per-year, data lifetime, height, time symbolic
//vrf:max-paths 4000
func H_Masterchef_EndBlocker_StablePool() { mcDistribution(false) }

// masterchef EndBlocker, distribution over one amm pool (stable pool has zero TVL), optional external incentive
//
//vrf:summary (github.com/elys-network/elys/x/masterchef/keeper.Keeper).CollectGasFees => sumCollectDec
//vrf:summary (github.com/elys-network/elys/x/masterchef/keeper.Keeper).CollectPerpRevenue => sumCollectDec
//vrf:summary (github.com/elys-network/elys/x/masterchef/keeper.Keeper).CollectDEXRevenue => sumCollectDex
//vrf:summary (github.com/elys-network/elys/x/masterchef/keeper.Keeper).GetPoolTVL => SumPoolTVL
//vrf:summary (github.com/elys-network/elys/x/amm/keeper.Keeper).GetEdenDenomPrice => sumEdenPrice
//vrf:summary (github.com/elys-network/elys/x/amm/keeper.Keeper).GetTokenPrice => SumTokenPrice
//vrf:cover done
//vrf:bound 1 amm pool with symbolic multiplier / eden flag + stable pool with zero TVL; 0..1 external incentive; otherwise as above
//vrf:max-paths 4000
func H_Masterchef_EndBlocker_AmmPool() { mcDistribution(true) }

// ---- oracle EndBlock ----
//
//vrf:cover done
func H_Oracle_EndBlock() {
	env := wire.New(wire.Opts{})
	h, now := vrf.I64("height", 1, maxT), vrf.I64("now", 1, maxT)
	env.Ctx = vrf.SetBlock(env.Ctx, h, now)
	vrf.Assert(!guard(func() { env.Oracle.EndBlock(env.Ctx) }), "C18: oracle EndBlock never panics")
	vrf.Cover("done")
}

// ---- epochs BeginBlocker with the real epoch hooks (oracle, commitment, burner, perpetual, estaking) ----
// One epoch whose identifier is the burner's; arbitrary long gaps between blocks (several epochs behind).
//
//vrf:cover started ended idle
//vrf:bound 1 epoch info (duration 1 day), symbolic start / current-epoch start / block times < 2^40; 2 denoms with symbolic balances at the burn address
func H_Epochs_BeginBlocker() {
	env := wire.New(wire.Opts{})
	now := vrf.I64("now", 1, maxT)
	env.Ctx = vrf.SetBlock(env.Ctx, vrf.I64("height", 1, maxT), now)
	ctx := env.Ctx
	bp := burnertypes.NewParams("day")
	env.Burner.SetParams(ctx, &bp)
	env.Estaking.SetParams(ctx, estypes.DefaultParams())
	env.Oracle.SetParams(ctx, otypes.DefaultParams())
	start, cur := vrf.I64("startTime", 0, maxT), vrf.I64("curEpochStart", 0, maxT)
	info := epochstypes.EpochInfo{Identifier: "day", StartTime: time.Unix(start, 0).UTC(), Duration: 24 * time.Hour,
		CurrentEpoch: vrf.I64("curEpoch", 0, maxT), CurrentEpochStartTime: time.Unix(cur, 0).UTC(),
		EpochCountingStarted: vrf.Bool("counting"), CurrentEpochStartHeight: 1}
	env.Epochs.SetEpochInfo(ctx, info)
	zero := burnertypes.GetZeroAddress()
	env.W.Meta = []string{usdc, atom}
	for _, d := range env.W.Meta {
		b := vrf.Int("burn_" + d)
		vrf.Assume(!b.IsNegative())
		env.W.SetBal(zero, d, b)
		env.W.Supply[d] = b.Add(sdkmath.NewInt(1000))
	}
	vrf.Assert(!guard(func() { env.Epochs.BeginBlocker(ctx) }), "C18: epochs BeginBlocker (with all epoch hooks) never panics")
	after, _ := env.Epochs.GetEpochInfo(ctx, "day")
	switch {
	case after.CurrentEpoch == info.CurrentEpoch && after.EpochCountingStarted == info.EpochCountingStarted:
		vrf.Cover("idle")
	case !info.EpochCountingStarted:
		vrf.Cover("started")
	default:
		vrf.Cover("ended")
		vrf.Assert(env.W.BalOf(zero, usdc).IsZero(), "C15/C18: the burner empties the burn address at epoch end")
	}
}

// ---- amm EndBlocker with the real pricing code (no summaries): one queued exact-in request on a pool
// with arbitrary (possibly dust / lopsided) reserves ----
//
//vrf:summary (github.com/elys-network/elys/x/tier/keeper.Keeper).GetMembershipTier => sumTier
//vrf:cover done
//vrf:bound 1 constant-product pool with symbolic reserves >= 1 and symbolic fee in [0, 2%], 1 queued exact-in request with symbolic amount / minimum; slippage tracks: none
func H_Amm_EndBlocker_RealPricing() {
	env := wire.New(wire.Opts{})
	env.Ctx = vrf.SetBlock(env.Ctx, vrf.I64("height", 1, maxT), vrf.I64("now", 1, maxT))
	ctx := env.Ctx
	env.Amm.SetParams(ctx, ammtypes.DefaultParams())
	fee := vrf.Dec("fee")
	vrf.Assume(!fee.IsNegative())
	vrf.Assume(fee.LTE(sdkmath.LegacyNewDecWithPrec(2, 2)))
	symPool(env)
	p, _ := env.Amm.GetPool(ctx, 1)
	p.PoolParams.SwapFee = fee
	env.Amm.SetPool(ctx, p)
	alice := sdk.AccAddress([]byte("alice_______________"))
	in, min, w := vrf.Int("in"), vrf.Int("min"), vrf.Int("wallet")
	vrf.Assume(in.IsPositive())
	vrf.Assume(!min.IsNegative())
	vrf.Assume(!w.IsNegative())
	env.W.SetBal(alice, atom, w)
	m := &ammtypes.MsgSwapExactAmountIn{Sender: alice.String(), Recipient: alice.String(), Routes: []ammtypes.SwapAmountInRoute{{PoolId: 1, TokenOutDenom: usdc}}, TokenIn: sdk.Coin{Denom: atom, Amount: in}, TokenOutMinAmount: min}
	env.Amm.SetSwapExactAmountInRequests(ctx, m, 1)
	env.Amm.SetLastSwapRequestIndex(ctx, 1)
	vrf.Assert(!guard(func() { env.Amm.EndBlocker(ctx) }), "C18: amm EndBlocker never panics")
	vrf.Cover("done")
	vrf.Assert(len(env.Amm.GetAllSwapExactAmountInRequests(ctx)) == 0, "C04/C18: the queue is drained")
}

func sumTier(k tierkeeper.Keeper, ctx sdk.Context, user sdk.AccAddress) (sdkmath.LegacyDec, tiertypes.MembershipTier) {
	return sdkmath.LegacyZeroDec(), tiertypes.Basic
}

// ---- conversion of fees / perpetual revenue paid in a non-base denom (masterchef end blocker) ----

func convertFees(oraclePool bool) {
	env, o := mcEnv()
	ctx := env.Ctx
	env.Aprof.SetEntry(ctx, aptypes.Entry{BaseDenom: atom, Denom: atom, Decimals: 6})
	env.Oracle.SetAssetInfo(ctx, otypes.AssetInfo{Denom: atom, Display: "ATOM", Decimal: 6})
	env.Oracle.SetAssetInfo(ctx, otypes.AssetInfo{Denom: usdc, Display: "USDC", Decimal: 6})
	symPool(env)
	if oraclePool {
		// the outage case: the trading asset's price is absent (the priced case runs the weight-breaking-fee power
		// series, which is out of reach)
		vrf.Assume(o.pAtom.IsZero())
		p, _ := env.Amm.GetPool(ctx, 1)
		p.PoolParams.UseOracle = true
		for i := range p.PoolAssets {
			p.PoolAssets[i].ExternalLiquidityRatio = sdkmath.LegacyOneDec()
		}
		env.Amm.SetPool(ctx, p)
	}
	r := vrf.Int("feeAtom")
	vrf.Assume(r.IsPositive())
	holder := feeColl
	if vrf.Bool("perpetualRevenue") {
		holder = authtypes.NewModuleAddress("perpetual")
	}
	env.W.SetBal(holder, atom, r)
	var err error
	p := guard(func() { _, err = env.Mc.ConvertGasFeesToUsdc(ctx, usdc, holder) })
	vrf.Assert(!p, "C18: converting collected fees never panics")
	if p {
		return
	}
	vrf.Cover("done")
	if err != nil {
		vrf.Cover("error: " + err.Error())
	}
	// the masterchef end blocker hands this error to baseapp
	vrf.Assert(err == nil, "C18: a fee / revenue balance that cannot be converted now is skipped, not turned into an end-blocker error")
}

//vrf:cover done
//vrf:bound 1 constant-product pool uatom/uusdc (1:1, symbolic reserves), a symbolic uatom balance at the fee collector or the perpetual revenue account; oracle prices arbitrary (absent included)
//vrf:assert-ms 60000
func H_Masterchef_ConvertFees_ConstantProduct() { convertFees(false) }

//vrf:cover done
//vrf:bound as above with an oracle pool whose trading-asset price is absent (outage)
func H_Masterchef_ConvertFees_OraclePool_Outage() { convertFees(true) }

// ---- perpetual and leveragelp begin blockers ----

// perpetual BeginBlocker from a symbolic pool state (aggregates = sums over positions, custody backed), arbitrary
// previous borrow-interest rate and parameters within Params.Validate(), arbitrary blocks-per-year >= 1
//
//vrf:cover done
//vrf:bound 1 perpetual pool with symbolic aggregates of the shape positions have (LONG custody / SHORT liabilities in the trading asset only, long trading-asset collateral <= long custody), symbolic amm reserves, previous rate in [0, 1], height / time symbolic
//vrf:assert-ms 60000
func H_Perpetual_BeginBlocker() {
	env := h_c09.Setup()
	ctx := env.Ctx
	pp := ptypes.DefaultParams()
	pp.TotalBlocksPerYear = vrf.U64("blocksPerYear", 1, maxT)
	env.Param.SetParams(ctx, pp)
	pool, _ := env.Perp.GetPool(ctx, 1)
	prev := vrf.Dec("prevBorrowRate")
	vrf.Assume(!prev.IsNegative())
	vrf.Assume(prev.LTE(sdkmath.LegacyOneDec()))
	pool.BorrowInterestRate = prev
	// the shape positions really have: LONG custody in the trading asset and liabilities in the base currency,
	// SHORT the other way round with base-currency collateral; a long's trading-asset collateral is part of its custody
	for i := range pool.PoolAssetsLong {
		l, s := &pool.PoolAssetsLong[i], &pool.PoolAssetsShort[i]
		if l.AssetDenom == usdc {
			vrf.Assume(l.Custody.IsZero())
			vrf.Assume(s.Liabilities.IsZero())
		} else {
			vrf.Assume(l.Liabilities.IsZero())
			vrf.Assume(l.Collateral.LTE(l.Custody))
			vrf.Assume(s.Custody.IsZero())
			vrf.Assume(s.Collateral.IsZero())
		}
	}
	env.Perp.SetPool(ctx, pool)
	p := guard(func() { env.Perp.BeginBlocker(ctx) })
	vrf.Assert(!p, "C18: perpetual BeginBlocker never panics")
	vrf.Cover("done")
}

// leveragelp BeginBlocker over two positions of one pool (liquidations, stop-loss closes, swallowed errors)
//
//vrf:cover done
//vrf:bound see h_c08.H_BeginBlocker_TwoPositions
//vrf:max-paths 4000
func H_Leveragelp_BeginBlocker() {
	env := h_c08.SetupTwoPositions()
	p := guard(func() { env.Lev.BeginBlocker(env.Ctx) })
	vrf.Assert(!p, "C18: leveragelp BeginBlocker never panics")
	vrf.Cover("done")
}

// ---- the Eden price the masterchef end blocker divides by is never zero ----

// The masterchef end blocker returns "invalid eden price" (an error handed to baseapp) when GetEdenDenomPrice is zero;
// the distribution harnesses above havoc that price, so the guard is justified here on the real code: with any ELYS /
// base-currency pool (none, constant-product with any reserves within 1:1e9, oracle pool) and any oracle prices
// (absent included) the real GetEdenDenomPrice is positive.
//
//vrf:cover no-pool pool-priced pool-cannot-price
//vrf:bound 0..1 pool holding uelys and uusdc (oracle or constant-product, reserves symbolic with uelys <= 1e9 x uusdc); oracle prices of uelys / uusdc absent (zero) or within [1e-12, 1] / [1e-9, 1e-3] per base unit
func H_Amm_EdenPrice_NeverZero() {
	o := symOracle{pUsdc: vrf.Dec("priceUsdc"), pAtom: sdkmath.LegacyZeroDec(), pElys: vrf.Dec("priceElys")}
	lo := func(p sdkmath.LegacyDec, min, max sdkmath.LegacyDec) {
		vrf.Assume(!p.IsNegative())
		if !p.IsZero() {
			vrf.Assume(p.GTE(min))
			vrf.Assume(p.LTE(max))
		}
	}
	lo(o.pUsdc, sdkmath.LegacyNewDecWithPrec(1, 9), sdkmath.LegacyNewDecWithPrec(1, 3))
	lo(o.pElys, sdkmath.LegacyNewDecWithPrec(1, 12), sdkmath.LegacyOneDec())
	env := wire.New(wire.Opts{Oracle: o})
	env.Ctx = vrf.SetBlock(env.Ctx, vrf.I64("height", 1, maxT), vrf.I64("now", 1, maxT))
	ctx := env.Ctx
	env.Aprof.SetEntry(ctx, aptypes.Entry{BaseDenom: ptypes.BaseCurrency, Denom: usdc, Decimals: 6, CommitEnabled: true, WithdrawEnabled: true})
	env.Amm.SetParams(ctx, ammtypes.DefaultParams())
	hasPool := vrf.Bool("elysPool")
	oracle := false
	if hasPool {
		be, bu := vrf.Int("bookElys"), vrf.Int("bookUsdc")
		vrf.Assume(be.IsPositive())
		vrf.Assume(bu.IsPositive())
		vrf.Assume(be.LTE(bu.Mul(sdkmath.NewInt(1_000_000_000))))
		vrf.Assume(be.LTE(sdkmath.NewIntWithDecimal(1, 30)))
		vrf.Assume(bu.LTE(sdkmath.NewIntWithDecimal(1, 30)))
		oracle = vrf.Bool("oraclePool")
		pool := ammtypes.Pool{
			PoolId: 1, Address: ammtypes.NewPoolAddress(1).String(), RebalanceTreasury: ammtypes.NewPoolRebalanceTreasury(1).String(),
			PoolParams:  ammtypes.PoolParams{UseOracle: oracle, SwapFee: sdkmath.LegacyZeroDec(), FeeDenom: usdc},
			TotalShares: sdk.Coin{Denom: ammtypes.GetPoolShareDenom(1), Amount: sdkmath.NewInt(1000000)},
			PoolAssets: []ammtypes.PoolAsset{
				{Token: sdk.Coin{Denom: ptypes.Elys, Amount: be}, Weight: sdkmath.NewInt(1), ExternalLiquidityRatio: sdkmath.LegacyOneDec()},
				{Token: sdk.Coin{Denom: usdc, Amount: bu}, Weight: sdkmath.NewInt(1), ExternalLiquidityRatio: sdkmath.LegacyOneDec()},
			},
			TotalWeight: sdkmath.NewInt(2),
		}
		env.Amm.SetPool(ctx, pool)
	}
	var price sdkmath.LegacyDec
	p := guard(func() { price = env.Amm.GetEdenDenomPrice(ctx, usdc) })
	vrf.Assert(!p, "C18: pricing Eden never panics")
	if p {
		return
	}
	switch {
	case !hasPool:
		vrf.Cover("no-pool")
	case oracle && (o.pElys.IsZero() || o.pUsdc.IsZero()):
		vrf.Cover("pool-cannot-price")
	default:
		vrf.Cover("pool-priced")
	}
	vrf.Assert(price.IsPositive(), "C18: the Eden price used by the masterchef end blocker is positive whatever pools exist and whatever the price feeds do (its zero-price error cannot be reached)")
}

// ---- C13 on the distribution itself: what one block credits to all pools never exceeds what was collected for it ----

var (
	creditedUsdc sdkmath.Int
	collectedSum sdkmath.LegacyDec
)

// contract of UpdateAccPerShare (its accrual algebra is h_c13's R1): records the credit
func SumRecordCredit(k mckeeper.Keeper, ctx sdk.Context, poolId uint64, rewardDenom string, amount sdkmath.Int) {
	vrf.Assert(!amount.IsNegative(), "C13: no negative amount is credited to a pool")
	if rewardDenom == usdc {
		creditedUsdc = creditedUsdc.Add(amount)
	}
}

func SumCollectDecRec(k mckeeper.Keeper, ctx sdk.Context, baseCurrency string) (sdk.DecCoins, error) {
	c, err := sumCollectDec(k, ctx, baseCurrency)
	collectedSum = collectedSum.Add(c.AmountOf(baseCurrency))
	return c, err
}

func SumCollectDexRec(k mckeeper.Keeper, ctx sdk.Context) (sdk.Coins, sdk.DecCoins, map[uint64]sdkmath.LegacyDec, error) {
	a, b, m, err := sumCollectDex(k, ctx)
	collectedSum = collectedSum.Add(m[1])
	return a, b, m, err
}

func SumEdenPricePositive(k ammkeeper.Keeper, ctx sdk.Context, baseCurrency string) sdkmath.LegacyDec {
	p := vrf.Dec("edenPrice")
	vrf.Assume(p.IsPositive())
	return p
}

// one masterchef end blocker over two pools with positive TVL (an amm pool with a symbolic multiplier, any value >= 0
// governance may set, and the stable-stake pool): the base-currency amounts credited to the pools add up to at most
// what the collectors reported for the block (gas fees + perpetual revenue for LPs + the pool's DEX revenue)
//
//vrf:summary (github.com/elys-network/elys/x/masterchef/keeper.Keeper).CollectGasFees => SumCollectDecRec
//vrf:summary (github.com/elys-network/elys/x/masterchef/keeper.Keeper).CollectPerpRevenue => SumCollectDecRec
//vrf:summary (github.com/elys-network/elys/x/masterchef/keeper.Keeper).CollectDEXRevenue => SumCollectDexRec
//vrf:summary (github.com/elys-network/elys/x/masterchef/keeper.Keeper).GetPoolTVL => SumPoolTVL
//vrf:summary (github.com/elys-network/elys/x/masterchef/keeper.Keeper).UpdateAccPerShare => SumRecordCredit
//vrf:summary (github.com/elys-network/elys/x/amm/keeper.Keeper).GetEdenDenomPrice => SumEdenPricePositive
//vrf:summary (github.com/elys-network/elys/x/amm/keeper.Keeper).GetTokenPrice => SumTokenPrice
//vrf:cover done credited
//vrf:bound 2 pools with symbolic TVL > 0 (amm pool 1 with symbolic multiplier in [0, 1000], stable-stake pool with multiplier 1), no Eden incentive, no external incentive; collected amounts symbolic >= 0 (<= 1e15 per block in all); params within Validate()
//vrf:max-paths 4000
//vrf:assert-ms 60000
//vrf:assert-prefix C18
func H_Masterchef_Distribution_CreditBounded() {
	env, _ := mcEnv()
	ctx := env.Ctx
	creditedUsdc, collectedSum = sdkmath.ZeroInt(), sdkmath.LegacyZeroDec()
	tvl1, tvlStable = vrf.Dec("tvlPool1"), vrf.Dec("tvlStable")
	big := sdkmath.LegacyNewDecFromInt(sdkmath.NewIntWithDecimal(1, 30))
	for _, t := range []sdkmath.LegacyDec{tvl1, tvlStable} {
		vrf.Assume(t.IsPositive())
		vrf.Assume(t.LTE(big))
	}
	symPool(env)
	env.Mc.InitPoolParams(ctx, 1)
	pi, _ := env.Mc.GetPoolInfo(ctx, 1)
	pi.Multiplier = vrf.Dec("multiplier")
	vrf.Assume(!pi.Multiplier.IsNegative())
	vrf.Assume(pi.Multiplier.LTE(sdkmath.LegacyNewDec(1000)))
	pi.EnableEdenRewards = false
	env.Mc.SetPoolInfo(ctx, pi)
	var err error
	p := guard(func() { err = env.Mc.EndBlocker(ctx) })
	vrf.Assert(!p, "C18: masterchef EndBlocker never panics")
	if p || err != nil {
		return
	}
	vrf.Cover("done")
	if creditedUsdc.IsPositive() {
		vrf.Cover("credited")
	}
	// amounts of one block: at most 1e15 base units (a billion USDC), so that the 18-digit rounding of a pool's share stays
	// far below one base unit
	vrf.Assume(collectedSum.LTE(sdkmath.LegacyNewDecFromInt(sdkmath.NewIntWithDecimal(1, 15))))
	vrf.Observe("credited", creditedUsdc)
	vrf.Observe("collected", collectedSum)
	// known finding C13-distribution-rounding-dust: each pool's share and its product with the collected amount are
	// rounded half-even to 18 digits, so the shares can add up to 1 + 1e-18 and the per-pool truncation can turn that
	// into one base unit per pool; anything beyond that dust (two pools here) is a violation
	cd := sdkmath.LegacyNewDecFromInt(creditedUsdc)
	vrf.AssertExcept(cd.LTE(collectedSum), "C13: the base-currency rewards credited to all pools in a block never exceed what was collected for that block", "C13-distribution-rounding-dust", cd.LT(collectedSum.Add(sdkmath.LegacyNewDec(2))))
}
