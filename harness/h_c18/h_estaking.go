package h_c18

// estaking: the end blocker (staking-reward minting) and the begin blocker of the wrapped SDK
// distribution module (AllocateEdenUsdcTokens / AllocateEdenBTokens), over a symbolic bonded set:
// 0..2 SDK validators with symbolic tokens plus the virtual Eden / EdenB validators that the estaking
// keeper derives from the commitment totals. The SDK staking and distribution keepers are zero values
// whose methods are replaced by contracts (stated in the harness bounds).

import (
	"context"

	"cosmossdk.io/collections"
	"cosmossdk.io/core/address"
	sdkmath "cosmossdk.io/math"
	sdk "github.com/cosmos/cosmos-sdk/types"
	authtypes "github.com/cosmos/cosmos-sdk/x/auth/types"
	distrkeeper "github.com/cosmos/cosmos-sdk/x/distribution/keeper"
	distrtypes "github.com/cosmos/cosmos-sdk/x/distribution/types"
	stakingkeeper "github.com/cosmos/cosmos-sdk/x/staking/keeper"
	stakingtypes "github.com/cosmos/cosmos-sdk/x/staking/types"
	ccvconsumertypes "github.com/cosmos/interchain-security/v6/x/ccv/consumer/types"
	aptypes "github.com/elys-network/elys/x/assetprofile/types"
	ctypes "github.com/elys-network/elys/x/commitment/types"
	esdistr "github.com/elys-network/elys/x/estaking/modules/distribution"
	estypes "github.com/elys-network/elys/x/estaking/types"
	ptypes "github.com/elys-network/elys/x/parameter/types"
	tokenomicstypes "github.com/elys-network/elys/x/tokenomics/types"
	vrf "github.com/elys-network/elys/zzvrf"
	"github.com/elys-network/elys/zzvrf/wire"
)

var (
	redistribute = authtypes.NewModuleAddress(ccvconsumertypes.ConsumerRedistributeName)
	distrAddr    = authtypes.NewModuleAddress(distrtypes.ModuleName)
	valOper      = [2]string{sdk.ValAddress([]byte("validator1__________")).String(), sdk.ValAddress([]byte("validator2__________")).String()}
	edenValOper  = sdk.ValAddress([]byte("edenvalidator_______")).String()
	edenBValOper = sdk.ValAddress([]byte("edenbvalidator______")).String()
)

// the SDK bonded set
var (
	nVals        int
	valTokens    [2]sdkmath.Int
	allocated    sdk.DecCoins
	allocCalls   int
	allocToEdenB bool
	feePoolSet   distrtypes.FeePool
	communityTax sdkmath.LegacyDec
)

func sumSdkTotalBonded(k stakingkeeper.Keeper, ctx context.Context) (sdkmath.Int, error) {
	t := sdkmath.ZeroInt()
	for i := 0; i < nVals; i++ {
		t = t.Add(valTokens[i])
	}
	return t, nil
}

func sumSdkIterBonded(k stakingkeeper.Keeper, ctx context.Context, fn func(index int64, validator stakingtypes.ValidatorI) (stop bool)) error {
	for i := 0; i < nVals; i++ {
		v := stakingtypes.Validator{OperatorAddress: valOper[i], Status: stakingtypes.Bonded, Tokens: valTokens[i], DelegatorShares: sdkmath.LegacyNewDecFromInt(valTokens[i])}
		if fn(int64(i), v) {
			return nil
		}
	}
	return nil
}

func sumFeePoolGet(i collections.Item[distrtypes.FeePool], ctx context.Context) (distrtypes.FeePool, error) {
	return distrtypes.FeePool{CommunityPool: sdk.DecCoins{}}, nil
}

func sumFeePoolSet(i collections.Item[distrtypes.FeePool], ctx context.Context, v distrtypes.FeePool) error {
	feePoolSet = v
	return nil
}

func sumSetProposer(k distrkeeper.Keeper, ctx context.Context, consAddr sdk.ConsAddress) error {
	return nil
}

func sumCommunityTax(k distrkeeper.Keeper, ctx context.Context) (sdkmath.LegacyDec, error) {
	return communityTax, nil
}

// AllocateTokensToValidator: the SDK keeper adds the tokens to the validator's outstanding / current rewards and
// commission; it fails only on store errors. The contract records what was allocated.
func sumAllocate(k distrkeeper.Keeper, ctx context.Context, val stakingtypes.ValidatorI, tokens sdk.DecCoins) error {
	allocCalls++
	for _, c := range tokens {
		vrf.Assert(!c.Amount.IsNegative(), "C18: no negative reward is allocated to a validator")
		if c.Denom == ptypes.EdenB && c.Amount.IsPositive() && val.GetOperator() == edenBValOper {
			allocToEdenB = true
		}
	}
	allocated = allocated.Add(tokens...)
	return nil
}

type accountsWithCodec struct{ vrf.Accounts }

func (accountsWithCodec) AddressCodec() address.Codec { return nil }

func estakingEnv(maxVals int64) *wire.Env {
	env := wire.New(wire.Opts{SdkStaking: &stakingkeeper.Keeper{}})
	h, now := vrf.I64("height", 2, maxT), vrf.I64("now", 1, maxT)
	env.Ctx = vrf.SetBlock(env.Ctx, h, now)
	ctx := env.Ctx
	env.Aprof.SetEntry(ctx, aptypes.Entry{BaseDenom: ptypes.BaseCurrency, Denom: usdc, Decimals: 6, CommitEnabled: true, WithdrawEnabled: true})
	pp := ptypes.DefaultParams()
	pp.TotalBlocksPerYear = vrf.U64("blocksPerYear", 1, maxT)
	env.Param.SetParams(ctx, pp)
	ep := estypes.DefaultParams()
	ep.EdenCommitVal, ep.EdenbCommitVal = edenValOper, edenBValOper
	ep.ProviderStakingRewardsPortion = vrf.Dec("providerPortion")
	ep.MaxEdenRewardAprStakers = vrf.Dec("maxEdenApr")
	ep.EdenBoostApr = vrf.Dec("edenBoostApr")
	vrf.Assume(ep.MaxEdenRewardAprStakers.LTE(sdkmath.LegacyNewDec(1000)))
	vrf.Assume(ep.EdenBoostApr.LTE(sdkmath.LegacyNewDec(1000)))
	vrf.Assume(ep.Validate() == nil)
	env.Estaking.SetParams(ctx, ep)
	// committed Eden / EdenB totals: the virtual validators' tokens
	cp := ctypes.DefaultParams()
	eden, edenB := vrf.Int("committedEden"), vrf.Int("committedEdenB")
	vrf.Assume(!eden.IsNegative())
	vrf.Assume(!edenB.IsNegative())
	vrf.Assume(eden.LTE(sdkmath.NewInt(1_000_000_000_000_000_000)))
	vrf.Assume(edenB.LTE(sdkmath.NewInt(1_000_000_000_000_000_000)))
	tc := sdk.Coins{}
	if eden.IsPositive() {
		tc = append(tc, sdk.NewCoin(ptypes.Eden, eden))
	}
	if edenB.IsPositive() {
		tc = append(tc, sdk.NewCoin(ptypes.EdenB, edenB))
	}
	cp.TotalCommitted = tc
	env.Comm.SetParams(ctx, cp)
	// the SDK bonded set: 0, 1 or 2 validators with positive tokens
	nVals = int(vrf.I64("nValidators", 0, maxVals))
	for i := 0; i < 2; i++ {
		valTokens[i] = sdkmath.ZeroInt()
	}
	for i := 0; i < nVals; i++ {
		valTokens[i] = vrf.Int("valTokens" + string(rune('1'+i)))
		vrf.Assume(valTokens[i].IsPositive())
		vrf.Assume(valTokens[i].LTE(sdkmath.NewInt(1_000_000_000_000_000_000)))
	}
	allocated, allocCalls, allocToEdenB = sdk.DecCoins{}, 0, false
	communityTax = vrf.Dec("communityTax")
	vrf.Assume(!communityTax.IsNegative())
	vrf.Assume(communityTax.LTE(sdkmath.LegacyOneDec()))
	return env
}

// estaking EndBlocker: per-block minting of Eden / EdenB staking rewards from arbitrary validated parameters,
// an optional time-based inflation entry around the current height, arbitrary stake
//
//vrf:summary (github.com/cosmos/cosmos-sdk/x/staking/keeper.Keeper).TotalBondedTokens => sumSdkTotalBonded
//vrf:cover done minted
//vrf:bound 0..2 SDK validators (tokens in [1, 1e18]) + virtual Eden / EdenB validators (committed totals in [0, 1e18]); estaking params symbolic within Validate() (APRs <= 1000), blocks-per-year in [1, 2^40], 0..1 time-based inflation entry with symbolic window and amount; no pending stake-change records
func H_Estaking_EndBlocker() {
	env := estakingEnv(2)
	ctx := env.Ctx
	if vrf.Bool("inflationEntry") {
		from, to := vrf.U64("inflFrom", 0, maxT), vrf.U64("inflTo", 0, maxT)
		ics := vrf.U64("icsStakingRewards", 0, 1<<62)
		env.Tokenomics.SetTimeBasedInflation(ctx, tokenomicstypes.TimeBasedInflation{StartBlockHeight: from, EndBlockHeight: to,
			Inflation: &tokenomicstypes.InflationEntry{IcsStakingRewards: ics}, Authority: wire.Gov})
	}
	var err error
	p := guard(func() { err = env.Estaking.EndBlocker(ctx) })
	vrf.Assert(!p, "C18: estaking EndBlocker never panics")
	if p {
		return
	}
	vrf.Assert(err == nil, "C18: estaking EndBlocker returns no error")
	vrf.Cover("done")
	if env.Comm.GetCommitments(ctx, redistribute).Claimed.AmountOf(ptypes.EdenB).IsPositive() {
		vrf.Cover("minted")
	}
}

func distrModule(env *wire.Env) esdistr.AppModule {
	return esdistr.NewAppModule(nil, distrkeeper.Keeper{}, accountsWithCodec{}, env.Comm, env.Estaking, env.Aprof, authtypes.FeeCollectorName, nil)
}

func collected(env *wire.Env, withUsdcEden, withEdenB bool) (b sdkmath.Int) {
	amt := func(n string, on bool) sdkmath.Int {
		if !on {
			return sdkmath.ZeroInt()
		}
		x := vrf.Int(n)
		vrf.Assume(!x.IsNegative())
		vrf.Assume(x.LTE(sdkmath.NewInt(1_000_000_000_000_000_000)))
		return x
	}
	u, e := amt("collectedUsdc", withUsdcEden), amt("collectedEden", withUsdcEden)
	b = amt("collectedEdenB", withEdenB)
	env.W.SetBal(redistribute, usdc, u)
	// Eden / EdenB of a module live in the claimed part of its commitment record
	c := env.Comm.GetCommitments(env.Ctx, redistribute)
	if e.IsPositive() {
		c.AddClaimed(sdk.NewCoin(ptypes.Eden, e))
	}
	if b.IsPositive() {
		c.AddClaimed(sdk.NewCoin(ptypes.EdenB, b))
	}
	env.Comm.SetCommitments(env.Ctx, c)
	return
}

// the wrapped distribution module's BeginBlock: Eden / USDC to every bonded validator (virtual ones included),
// EdenB to every bonded validator but the virtual EdenB validator
func distrBeginBlock(maxVals int64, withUsdcEden, withEdenB bool) {
	env := estakingEnv(maxVals)
	ctx := env.Ctx
	b := collected(env, withUsdcEden, withEdenB)
	am := distrModule(env)
	// BeginBlock proper = these two calls (height > 1) followed by the SDK keeper's SetPreviousProposerConsAddr
	p := guard(func() {
		am.AllocateEdenUsdcTokens(ctx)
		am.AllocateEdenBTokens(ctx)
	})
	vrf.Assert(!p, "C18: the distribution module's BeginBlock (Eden / USDC and EdenB allocation) never panics")
	if p {
		return
	}
	vrf.Cover("done")
	if allocCalls > 0 {
		vrf.Cover("allocated")
	}
	vrf.Assert(!allocToEdenB, "C18/C13: EdenB rewards are not allocated to the virtual EdenB validator")
	vrf.Assert(allocated.AmountOf(ptypes.EdenB).LTE(sdkmath.LegacyNewDecFromInt(b)), "C13/C18: the EdenB allocated to validators never exceeds what was collected")
}

//vrf:summary (github.com/cosmos/cosmos-sdk/x/staking/keeper.Keeper).TotalBondedTokens => sumSdkTotalBonded
//vrf:summary (github.com/cosmos/cosmos-sdk/x/staking/keeper.Keeper).IterateBondedValidatorsByPower => sumSdkIterBonded
//vrf:summary (github.com/cosmos/cosmos-sdk/x/distribution/keeper.Keeper).GetCommunityTax => sumCommunityTax
//vrf:summary (github.com/cosmos/cosmos-sdk/x/distribution/keeper.Keeper).AllocateTokensToValidator => sumAllocate
//vrf:summary (cosmossdk.io/collections.Item[github.com/cosmos/cosmos-sdk/x/distribution/types.FeePool]).Get[github.com/cosmos/cosmos-sdk/x/distribution/types.FeePool] => sumFeePoolGet
//vrf:summary (cosmossdk.io/collections.Item[github.com/cosmos/cosmos-sdk/x/distribution/types.FeePool]).Set[github.com/cosmos/cosmos-sdk/x/distribution/types.FeePool] => sumFeePoolSet
//vrf:cover done allocated
//vrf:bound bonded set: 0..1 SDK validator (tokens in [1, 1e18]) + virtual Eden / EdenB validators (committed totals in [0, 1e18]); uedenb balance of the redistribution account symbolic in [0, 1e18] (uusdc, ueden: none); community tax symbolic in [0, 1]; SDK distribution keeper under contract (AllocateTokensToValidator records and succeeds, fee pool and previous proposer stubbed)
//vrf:max-paths 6000
func H_Estaking_Distribution_BeginBlock_EdenB() { distrBeginBlock(1, false, true) }

//vrf:summary (github.com/cosmos/cosmos-sdk/x/staking/keeper.Keeper).TotalBondedTokens => sumSdkTotalBonded
//vrf:summary (github.com/cosmos/cosmos-sdk/x/staking/keeper.Keeper).IterateBondedValidatorsByPower => sumSdkIterBonded
//vrf:summary (github.com/cosmos/cosmos-sdk/x/distribution/keeper.Keeper).GetCommunityTax => sumCommunityTax
//vrf:summary (github.com/cosmos/cosmos-sdk/x/distribution/keeper.Keeper).AllocateTokensToValidator => sumAllocate
//vrf:summary (cosmossdk.io/collections.Item[github.com/cosmos/cosmos-sdk/x/distribution/types.FeePool]).Get[github.com/cosmos/cosmos-sdk/x/distribution/types.FeePool] => sumFeePoolGet
//vrf:summary (cosmossdk.io/collections.Item[github.com/cosmos/cosmos-sdk/x/distribution/types.FeePool]).Set[github.com/cosmos/cosmos-sdk/x/distribution/types.FeePool] => sumFeePoolSet
//vrf:cover done allocated
//vrf:bound as above with uusdc and ueden balances symbolic in [0, 1e18] and no uedenb
//vrf:max-paths 6000
func H_Estaking_Distribution_BeginBlock_EdenUsdc() { distrBeginBlock(1, true, false) }

//vrf:summary (github.com/cosmos/cosmos-sdk/x/staking/keeper.Keeper).TotalBondedTokens => sumSdkTotalBonded
//vrf:summary (github.com/cosmos/cosmos-sdk/x/staking/keeper.Keeper).IterateBondedValidatorsByPower => sumSdkIterBonded
//vrf:summary (github.com/cosmos/cosmos-sdk/x/distribution/keeper.Keeper).GetCommunityTax => sumCommunityTax
//vrf:summary (github.com/cosmos/cosmos-sdk/x/distribution/keeper.Keeper).AllocateTokensToValidator => sumAllocate
//vrf:summary (cosmossdk.io/collections.Item[github.com/cosmos/cosmos-sdk/x/distribution/types.FeePool]).Get[github.com/cosmos/cosmos-sdk/x/distribution/types.FeePool] => sumFeePoolGet
//vrf:summary (cosmossdk.io/collections.Item[github.com/cosmos/cosmos-sdk/x/distribution/types.FeePool]).Set[github.com/cosmos/cosmos-sdk/x/distribution/types.FeePool] => sumFeePoolSet
//vrf:cover done allocated
//vrf:bound as the quick EdenB variant with 0..2 SDK validators
//vrf:max-paths 40000
//vrf:tier thorough
func H_Estaking_Distribution_BeginBlock_EdenB_TwoValidators() { distrBeginBlock(2, false, true) }
