// Package h_c09: perpetual pool aggregates equal the sum of positions and custody is
// backed (C09); the accounted pool equals amm reserve + liabilities - custody (C11).
// Inductive steps on the real perpetual keeper with the real amm state changes and the
// real accountedpool hook; the amm pricing estimates the perpetual keeper asks for
// (through its expected-keeper interface) are contracts: any positive amount or an error.
package h_c09

import (
	sdkmath "cosmossdk.io/math"
	sdk "github.com/cosmos/cosmos-sdk/types"
	aptypes_acc "github.com/elys-network/elys/x/accountedpool/types"
	ammkeeper "github.com/elys-network/elys/x/amm/keeper"
	ammtypes "github.com/elys-network/elys/x/amm/types"
	aptypes "github.com/elys-network/elys/x/assetprofile/types"
	ctypes "github.com/elys-network/elys/x/commitment/types"
	otypes "github.com/elys-network/elys/x/oracle/types"
	ptypes "github.com/elys-network/elys/x/parameter/types"
	perpkeeper "github.com/elys-network/elys/x/perpetual/keeper"
	perptypes "github.com/elys-network/elys/x/perpetual/types"
	vrf "github.com/elys-network/elys/zzvrf"
	_ "github.com/elys-network/elys/zzvrf/h_c02" // contract of Pool.JoinPool
	"github.com/elys-network/elys/zzvrf/wire"
)

var (
	poolAddr = ammtypes.NewPoolAddress(1)
	trader   = sdk.AccAddress([]byte("trader______________"))
)

const (
	atom = "uatom"
	usdc = "uusdc"
	now  = 1700000000 // concrete block time (calendar arithmetic of the tier module stays concrete)
)

// ammW: the amm keeper as the perpetual keeper sees it; the two pricing entry points are contracts
type ammW struct {
	*ammkeeper.Keeper
	n *int
}

func (a ammW) SwapOutAmtGivenIn(ctx sdk.Context, poolId uint64, o ammtypes.OracleKeeper, snap *ammtypes.Pool, tokensIn sdk.Coins, outDenom string, fee, f sdkmath.LegacyDec) (sdk.Coin, sdkmath.LegacyDec, sdkmath.LegacyDec, sdkmath.LegacyDec, sdkmath.LegacyDec, error) {
	z := sdkmath.LegacyZeroDec()
	*a.n++
	tag := string(rune('0' + *a.n))
	if a.fails(tag) {
		return sdk.Coin{}, z, z, z, z, ammtypes.ErrAmountTooLow
	}
	out := vrf.Int("estOut" + tag)
	vrf.Assume(out.IsPositive())
	return sdk.Coin{Denom: outDenom, Amount: out}, z, z, z, z, nil
}

func (a ammW) SwapInAmtGivenOut(ctx sdk.Context, poolId uint64, o ammtypes.OracleKeeper, snap *ammtypes.Pool, tokensOut sdk.Coins, inDenom string, fee, f sdkmath.LegacyDec) (sdk.Coin, sdkmath.LegacyDec, sdkmath.LegacyDec, sdkmath.LegacyDec, sdkmath.LegacyDec, error) {
	z := sdkmath.LegacyZeroDec()
	*a.n++
	tag := string(rune('0' + *a.n))
	if a.fails(tag) {
		return sdk.Coin{}, z, z, z, z, ammtypes.ErrAmountTooLow
	}
	in := vrf.Int("estIn" + tag)
	vrf.Assume(in.IsPositive())
	return sdk.Coin{Denom: inDenom, Amount: in}, z, z, z, z, nil
}

// estNoFail: in steps whose caller fails the whole transaction on an estimate error (rolled back by baseapp)
// the failing branch of the estimates is not explored.
// estFailOnce: at most one estimate call fails, the failAt-th (a symbolic index; 0 = none): linear instead of
// exponential in the number of estimate calls, for handlers that swallow the error and carry on.
var (
	noUnpaid         bool // the explicit positions carry no unpaid borrow interest (fewer settlement branches)
	settledThisBlock bool // the explicit position's interest and funding were last settled in the current block
	estNoFail        bool
	estFailOnce      bool
	failAt           int64
)

func (a ammW) fails(tag string) bool {
	if estNoFail {
		return false
	}
	if estFailOnce {
		return int64(*a.n) == failAt
	}
	return vrf.Bool("estFails" + tag)
}

type side struct{ liab, cust, coll sdkmath.Int }

type state struct {
	env      *wire.Env
	bal      map[string]sdkmath.Int // amm reserves
	long     map[string]side        // pool aggregates = sums over the other (not modelled) positions
	short    map[string]side
	wallet   map[string]sdkmath.Int
	count    uint64
	noC11    bool // sub-steps that the accounted-pool hook has not followed yet
	twoPools bool // a second, empty perpetual pool (id 2) trading the same asset exists
}

func nonneg(name string) sdkmath.Int {
	v := vrf.Int(name)
	vrf.Assume(!v.IsNegative())
	return v
}

// setup: an oracle amm pool {uatom, uusdc} with perpetual trading enabled. Hypotheses:
// bank = book (C01); pool aggregates are the sums over the existing positions, folded into symbolic
// values (C09); amm reserve >= total custody per asset (C09); accounted pool = amm + L - C (C11).
func setup() *state {
	n := 0
	env := wire.New(wire.Opts{PerpAmm: func(real *ammkeeper.Keeper) perptypes.AmmKeeper { return ammW{real, &n} }})
	env.Ctx = vrf.SetBlock(env.Ctx, 100, now)
	ctx := env.Ctx
	s := &state{env: env, bal: map[string]sdkmath.Int{}, long: map[string]side{}, short: map[string]side{}, wallet: map[string]sdkmath.Int{}}
	env.Aprof.SetEntry(ctx, aptypes.Entry{BaseDenom: ptypes.BaseCurrency, Denom: usdc, Decimals: 6, CommitEnabled: true, WithdrawEnabled: true})
	env.Aprof.SetEntry(ctx, aptypes.Entry{BaseDenom: atom, Denom: atom, Decimals: 6, CommitEnabled: true, WithdrawEnabled: true})
	env.Amm.SetParams(ctx, ammtypes.DefaultParams())
	env.Perp.SetParams(ctx, &[]perptypes.Params{perptypes.DefaultParams()}[0])
	env.Oracle.SetAssetInfo(ctx, otypes.AssetInfo{Denom: atom, Display: "ATOM", Decimal: 6})
	env.Oracle.SetAssetInfo(ctx, otypes.AssetInfo{Denom: usdc, Display: "USDC", Decimal: 6})
	pAtom := vrf.Dec("priceAtom")
	vrf.Assume(pAtom.IsPositive())
	env.Oracle.SetPrice(ctx, otypes.Price{Asset: "ATOM", Source: otypes.ELYS, Price: pAtom, Timestamp: now, BlockHeight: 100})
	env.Oracle.SetPrice(ctx, otypes.Price{Asset: "USDC", Source: otypes.ELYS, Price: sdkmath.LegacyOneDec(), Timestamp: now, BlockHeight: 100})
	for _, d := range []string{atom, usdc} {
		s.bal[d] = vrf.Int("amm_" + d)
		vrf.Assume(s.bal[d].IsPositive())
		s.long[d] = side{nonneg("longLiab_" + d), nonneg("longCust_" + d), nonneg("longColl_" + d)}
		s.short[d] = side{nonneg("shortLiab_" + d), nonneg("shortCust_" + d), nonneg("shortColl_" + d)}
		vrf.Assume(s.bal[d].GTE(s.long[d].cust.Add(s.short[d].cust))) // custody is backed
		s.wallet[d] = nonneg("wallet_" + d)
		env.W.SetBal(poolAddr, d, s.bal[d])
		env.W.SetBal(trader, d, s.wallet[d])
		env.Amm.SetDenomLiquidity(ctx, ammtypes.DenomLiquidity{Denom: d, Liquidity: s.bal[d]})
	}
	ammPool := ammtypes.Pool{
		PoolId: 1, Address: poolAddr.String(), RebalanceTreasury: ammtypes.NewPoolRebalanceTreasury(1).String(),
		PoolParams:  ammtypes.PoolParams{UseOracle: true, SwapFee: sdkmath.LegacyZeroDec(), FeeDenom: usdc},
		TotalShares: sdk.Coin{Denom: ammtypes.GetPoolShareDenom(1), Amount: sdkmath.NewInt(1000000)},
		PoolAssets: []ammtypes.PoolAsset{
			{Token: sdk.Coin{Denom: atom, Amount: s.bal[atom]}, Weight: sdkmath.NewInt(1), ExternalLiquidityRatio: sdkmath.LegacyOneDec()},
			{Token: sdk.Coin{Denom: usdc, Amount: s.bal[usdc]}, Weight: sdkmath.NewInt(1), ExternalLiquidityRatio: sdkmath.LegacyOneDec()},
		},
		TotalWeight: sdkmath.NewInt(2),
	}
	env.Amm.SetPool(ctx, ammPool)
	pp := perptypes.NewPool(ammPool)
	for i, d := range []string{atom, usdc} {
		pp.PoolAssetsLong[i].Liabilities, pp.PoolAssetsLong[i].Custody, pp.PoolAssetsLong[i].Collateral = s.long[d].liab, s.long[d].cust, s.long[d].coll
		pp.PoolAssetsShort[i].Liabilities, pp.PoolAssetsShort[i].Custody, pp.PoolAssetsShort[i].Collateral = s.short[d].liab, s.short[d].cust, s.short[d].coll
		pp.PoolAssetsLong[i].TakeProfitCustody, pp.PoolAssetsLong[i].TakeProfitLiabilities = sdkmath.ZeroInt(), sdkmath.ZeroInt()
		pp.PoolAssetsShort[i].TakeProfitCustody, pp.PoolAssetsShort[i].TakeProfitLiabilities = sdkmath.ZeroInt(), sdkmath.ZeroInt()
	}
	env.Perp.SetPool(ctx, pp)
	s.count = vrf.U64("openCount", 0, 1000)
	env.Perp.SetOpenMTPCount(ctx, s.count)
	// accounted pool consistent with the hypothesis
	acc := aptypes_acc.AccountedPool{PoolId: 1}
	for _, d := range []string{atom, usdc} {
		non := s.long[d].liab.Add(s.short[d].liab).Sub(s.long[d].cust).Sub(s.short[d].cust)
		acc.TotalTokens = append(acc.TotalTokens, sdk.Coin{Denom: d, Amount: s.bal[d].Add(non)})
		acc.NonAmmPoolTokens = append(acc.NonAmmPoolTokens, sdk.Coin{Denom: d, Amount: non})
	}
	env.Acc.SetAccountedPool(ctx, acc)
	return s
}

// check re-establishes C09 and C11 given the positions of the trader that exist now (all others are in the symbolic sums)
func (s *state) check(label string) {
	env, ctx := s.env, s.env.Ctx
	pp, found := env.Perp.GetPool(ctx, 1)
	vrf.Assert(found, label+": perpetual pool still stored")
	mtps := env.Perp.GetAllMTPsForAddress(ctx, trader)
	ammPool, _ := env.Amm.GetPool(ctx, 1)
	acc, _ := env.Acc.GetAccountedPool(ctx, 1)
	for i, d := range []string{atom, usdc} {
		wantL, wantS := s.long[d], s.short[d]
		for _, m := range mtps {
			if m.AmmPoolId != 1 {
				continue // positions of other pools belong to those pools' totals
			}
			tgt := &wantL
			if m.Position == perptypes.Position_SHORT {
				tgt = &wantS
			}
			if m.LiabilitiesAsset == d {
				tgt.liab = tgt.liab.Add(m.Liabilities)
			}
			if m.CustodyAsset == d {
				tgt.cust = tgt.cust.Add(m.Custody)
			}
			if m.CollateralAsset == d {
				tgt.coll = tgt.coll.Add(m.Collateral)
			}
		}
		vrf.Assert(pp.PoolAssetsLong[i].Liabilities.Equal(wantL.liab), "C09 "+label+": long liabilities == sum over positions ("+d+")")
		vrf.Assert(pp.PoolAssetsLong[i].Custody.Equal(wantL.cust), "C09 "+label+": long custody == sum over positions ("+d+")")
		vrf.Assert(pp.PoolAssetsLong[i].Collateral.Equal(wantL.coll), "C09 "+label+": long collateral == sum over positions ("+d+")")
		vrf.Assert(pp.PoolAssetsShort[i].Liabilities.Equal(wantS.liab), "C09 "+label+": short liabilities == sum over positions ("+d+")")
		vrf.Assert(pp.PoolAssetsShort[i].Custody.Equal(wantS.cust), "C09 "+label+": short custody == sum over positions ("+d+")")
		vrf.Assert(pp.PoolAssetsShort[i].Collateral.Equal(wantS.coll), "C09 "+label+": short collateral == sum over positions ("+d+")")
		book := ammPool.PoolAssets[i].Token.Amount
		vrf.Assert(env.W.BalOf(poolAddr, d).Equal(book), "C01 "+label+": amm bank == book ("+d+")")
		vrf.Assert(book.GTE(wantL.cust.Add(wantS.cust)), "C09 "+label+": the liquidity pool holds at least the total custody ("+d+")")
		// C11
		if s.noC11 {
			continue
		}
		non := wantL.liab.Add(wantS.liab).Sub(wantL.cust).Sub(wantS.cust)
		vrf.Assert(acc.TotalTokens[i].Amount.Equal(book.Add(non)), "C11 "+label+": accounted balance == reserve + liabilities - custody ("+d+")")
		vrf.Assert(acc.NonAmmPoolTokens[i].Amount.Equal(non), "C11 "+label+": non-pool part == liabilities - custody ("+d+")")
	}
	vrf.Assert(env.Perp.GetOpenMTPCount(ctx) == s.count+uint64(len(mtps)), "C09 "+label+": open-position counter == number of stored positions")
	if s.twoPools {
		s.checkPool2(label)
	}
}

func open(pos perptypes.Position, collDenom string) {
	s := setup()
	env, ctx := s.env, s.env.Ctx
	coll := vrf.Int("collateral")
	vrf.Assume(coll.IsPositive())
	lev := vrf.Dec("leverage")
	vrf.Assume(lev.GT(sdkmath.LegacyOneDec()))
	vrf.Assume(lev.LTE(sdkmath.LegacyNewDec(25)))
	tp := vrf.Dec("takeProfit")
	vrf.Assume(tp.IsPositive())
	msg := &perptypes.MsgOpen{Creator: trader.String(), Position: pos, Leverage: lev, TradingAsset: atom, Collateral: sdk.Coin{Denom: collDenom, Amount: coll},
		TakeProfitPrice: tp, StopLossPrice: sdkmath.LegacyZeroDec(), PoolId: 1}
	res, err := env.Perp.Open(ctx, msg)
	if err != nil {
		return // failed transaction: rolled back by baseapp
	}
	vrf.Cover("open-ok")
	m, gerr := env.Perp.GetMTP(ctx, trader, res.Id)
	vrf.Assert(gerr == nil, "C09 open: the new position is stored")
	vrf.Observe("custody", m.Custody)
	vrf.Assert(m.MtpHealth.GT(perptypes.DefaultParams().SafetyFactor), "C10 open: a successful open leaves health strictly above the safety factor")
	vrf.Assert(env.W.BalOf(trader, collDenom).Equal(s.wallet[collDenom].Sub(coll)), "C09 open: the trader pays exactly the collateral")
	s.check("open")
}

//vrf:cover open-ok
//vrf:bound 1 new LONG position with uusdc collateral from a symbolic pool state (aggregates = symbolic sums of the other positions), symbolic leverage in (1,25], collateral, prices; amm estimates havocked
//vrf:max-paths 1500
func H_Open_Long_UsdcCollateral() { open(perptypes.Position_LONG, usdc) }

//vrf:cover open-ok
//vrf:bound 1 new LONG position with trading-asset collateral
//vrf:max-paths 1500
func H_Open_Long_AtomCollateral() { open(perptypes.Position_LONG, atom) }

//vrf:cover open-ok
//vrf:bound 1 new SHORT position (uusdc collateral)
//vrf:max-paths 1500
func H_Open_Short() { open(perptypes.Position_SHORT, usdc) }

// ---- steps on an existing position: funding / interest settlement, close ----

// setupPos: setup() plus one stored position of the trader (LONG with uusdc collateral, or SHORT) whose amounts are
// part of the pool aggregates; interest and funding were last settled 10 blocks / 60 s ago and cumulative
// rate blocks with symbolic values exist for both ends of the interval
func setupPos(pos perptypes.Position) (*state, perptypes.MTP) { return setupPosColl(pos, usdc) }

func setupPosColl(pos perptypes.Position, collAsset string) (*state, perptypes.MTP) {
	s := setup()
	env, ctx := s.env, s.env.Ctx
	env.Param.SetParams(ctx, ptypes.DefaultParams())
	cust, liab, coll := vrf.Int("custody"), vrf.Int("liabilities"), vrf.Int("collateralAmt")
	vrf.Assume(cust.IsPositive())
	vrf.Assume(liab.IsPositive())
	vrf.Assume(coll.IsPositive())
	unpaid := nonneg("unpaidInterest")
	if noUnpaid {
		vrf.Assume(unpaid.IsZero())
	}
	liabAsset, custAsset := usdc, atom
	if pos == perptypes.Position_SHORT {
		liabAsset, custAsset = atom, usdc
	}
	tp := vrf.Dec("takeProfitPrice")
	vrf.Assume(tp.IsPositive())
	m := perptypes.NewMTP(ctx, trader.String(), collAsset, atom, liabAsset, custAsset, pos, tp, 1)
	m.Id = 1
	m.Custody, m.Liabilities, m.Collateral, m.BorrowInterestUnpaidLiability = cust, liab, coll, unpaid
	m.OpenPrice = sdkmath.LegacyOneDec()
	m.LastInterestCalcBlock, m.LastInterestCalcTime = 90, now-60
	m.LastFundingCalcBlock, m.LastFundingCalcTime = 90, now-60
	if settledThisBlock {
		m.LastInterestCalcBlock, m.LastInterestCalcTime = 100, now
		m.LastFundingCalcBlock, m.LastFundingCalcTime = 100, now
	}
	if err := env.Perp.SetMTP(ctx, m); err != nil {
		vrf.Fail("SetMTP: " + err.Error())
	}
	// fold the position into the pool aggregates, the backing hypothesis, the accounted pool and the counter
	pp, _ := env.Perp.GetPool(ctx, 1)
	assets := &pp.PoolAssetsLong
	if pos == perptypes.Position_SHORT {
		assets = &pp.PoolAssetsShort
	}
	for i := range *assets {
		a := &(*assets)[i]
		if a.AssetDenom == custAsset {
			a.Custody = a.Custody.Add(cust)
		}
		if a.AssetDenom == liabAsset {
			a.Liabilities = a.Liabilities.Add(liab)
		}
		if a.AssetDenom == collAsset {
			a.Collateral = a.Collateral.Add(coll)
		}
	}
	env.Perp.SetPool(ctx, pp)
	vrf.Assume(s.bal[custAsset].GTE(s.long[custAsset].cust.Add(s.short[custAsset].cust).Add(cust)))
	acc, _ := env.Acc.GetAccountedPool(ctx, 1)
	for i, d := range []string{atom, usdc} {
		delta := sdkmath.ZeroInt()
		if d == liabAsset {
			delta = delta.Add(liab)
		}
		if d == custAsset {
			delta = delta.Sub(cust)
		}
		acc.TotalTokens[i].Amount = acc.TotalTokens[i].Amount.Add(delta)
		acc.NonAmmPoolTokens[i].Amount = acc.NonAmmPoolTokens[i].Amount.Add(delta)
	}
	env.Acc.SetAccountedPool(ctx, acc)
	env.Perp.SetOpenMTPCount(ctx, s.count+1)
	env.Perp.SetMTPCount(ctx, 1) // ids handed out so far
	// cumulative funding / interest rate blocks at both ends of the interval
	rate := func(name string) sdkmath.LegacyDec {
		r := vrf.Dec(name)
		vrf.Assume(r.GTE(sdkmath.LegacyNewDec(-1)))
		vrf.Assume(r.LTE(sdkmath.LegacyOneDec()))
		return r
	}
	z := sdkmath.LegacyZeroDec()
	env.Perp.SetFundingRate(ctx, 90, 1, perptypes.FundingRateBlock{FundingRateLong: rate("fundLong0"), FundingRateShort: rate("fundShort0"), FundingAmountLong: z, FundingAmountShort: z, BlockHeight: 90, BlockTime: now - 60})
	env.Perp.SetFundingRate(ctx, 100, 1, perptypes.FundingRateBlock{FundingRateLong: rate("fundLong1"), FundingRateShort: rate("fundShort1"), FundingAmountLong: z, FundingAmountShort: z, BlockHeight: 100, BlockTime: now})
	i0, i1 := rate("interest0"), rate("interest1")
	vrf.Assume(i1.GTE(i0))
	env.Perp.SetBorrowRate(ctx, 90, 1, perptypes.InterestBlock{InterestRate: i0, BlockHeight: 90, BlockTime: now - 60})
	env.Perp.SetBorrowRate(ctx, 100, 1, perptypes.InterestBlock{InterestRate: i1, BlockHeight: 100, BlockTime: now})
	return s, *m
}

func settleFunding(pos perptypes.Position) {
	s, m := setupPos(pos)
	env, ctx := s.env, s.env.Ctx
	pp, _ := env.Perp.GetPool(ctx, 1)
	ammPool, _ := env.Amm.GetPool(ctx, 1)
	if err := env.Perp.SettleFunding(ctx, &m, &pp, ammPool); err != nil {
		return // the callers fail the transaction
	}
	vrf.Cover("settled")
	m2, _ := env.Perp.GetMTP(ctx, trader, 1)
	if !m2.Custody.Equal(m.Custody) {
		vrf.Cover("fee-taken")
	}
	s.noC11 = true // the accounted-pool hook runs at the end of the calling transaction
	s.check("settle-funding")
}

// funding settlement of a stored position (the step every close / consolidation / top-up starts with)
//
//vrf:cover settled
//vrf:bound 1 explicit LONG position + symbolic remainder; cumulative funding rates at both ends of a 10-block interval symbolic in [-1, 1]
func H_SettleFunding_Long() { settleFunding(perptypes.Position_LONG) }

//vrf:cover settled
//vrf:bound 1 explicit SHORT position + symbolic remainder; as above
func H_SettleFunding_Short() { settleFunding(perptypes.Position_SHORT) }

func closePos(pos perptypes.Position) { closePosColl(pos, usdc) }

func closePosColl(pos perptypes.Position, collAsset string) {
	estNoFail = true
	s, m := setupPosColl(pos, collAsset)
	env, ctx := s.env, s.env.Ctx
	amt := vrf.Int("closeAmount")
	vrf.Assume(amt.IsPositive())
	_, err := env.Perp.Close(ctx, &perptypes.MsgClose{Creator: trader.String(), Id: 1, Amount: amt})
	if err != nil {
		return // failed transaction: rolled back by baseapp
	}
	vrf.Cover("close-ok")
	if _, gerr := env.Perp.GetMTP(ctx, trader, 1); gerr != nil {
		vrf.Cover("position-gone")
		if pos == perptypes.Position_SHORT && amt.LT(m.Liabilities) {
			// a PARTIAL close that removed the position: its custody had been used up by interest / funding. That
			// case is the known finding C09-short-partial-close-destroys, decided by H_Finding_ShortPartialCloseDestroys
			vrf.Cover("custody-exhausted")
			return
		}
	}
	s.check("close")
}

// close (partial or full) by the owner: interest settlement, funding settlement, repay, payout
//
//vrf:cover close-ok
//vrf:bound 1 explicit LONG position + symbolic remainder; close amount symbolic; amm estimates havocked
//vrf:max-paths 6000
//vrf:tier thorough
func H_Close_Long() { closePos(perptypes.Position_LONG) }

//vrf:cover close-ok
//vrf:bound 1 explicit LONG position with trading-asset collateral + symbolic remainder; close amount symbolic; amm estimates havocked
//vrf:max-paths 6000
//vrf:tier thorough
func H_Close_Long_AtomCollateral() { closePosColl(perptypes.Position_LONG, atom) }

//vrf:cover close-ok
//vrf:bound 1 explicit SHORT position + symbolic remainder; close amount symbolic; amm estimates havocked
//vrf:max-paths 6000
//vrf:tier thorough
func H_Close_Short() { closePos(perptypes.Position_SHORT) }

// close-positions from a third party naming the trader's position in its liquidate list: the handler swallows the
// per-position error, so whatever a failed liquidation leaves behind is part of the step
func closePositions(pos perptypes.Position) { closePositionsColl(pos, usdc) }

func closePositionsColl(pos perptypes.Position, collAsset string) {
	estFailOnce = true
	failAt = vrf.I64("failingEstimate", 0, 8)
	s, _ := setupPosColl(pos, collAsset)
	env, ctx := s.env, s.env.Ctx
	srv := perpkeeper.NewMsgServerImpl(*env.Perp)
	bot := sdk.AccAddress([]byte("third_party_________"))
	_, err := srv.ClosePositions(ctx, &perptypes.MsgClosePositions{Creator: bot.String(), Liquidate: []perptypes.PositionRequest{{Address: trader.String(), Id: 1}}})
	if err != nil {
		return
	}
	vrf.Cover("done")
	if m2, gerr := env.Perp.GetMTP(ctx, trader, 1); gerr != nil {
		vrf.Cover("liquidated")
	} else {
		vrf.Observe("mtpCustody", m2.Custody)
		vrf.Observe("mtpLiab", m2.Liabilities)
		vrf.Observe("mtpUnpaid", m2.BorrowInterestUnpaidLiability)
	}
	pp2, _ := env.Perp.GetPool(ctx, 1)
	ap2, _ := env.Amm.GetPool(ctx, 1)
	for i, d := range []string{atom, usdc} {
		vrf.Observe("book_"+d, ap2.PoolAssets[i].Token.Amount)
		vrf.Observe("bank_"+d, env.W.BalOf(poolAddr, d))
		vrf.Observe("longCust_"+d, pp2.PoolAssetsLong[i].Custody)
		vrf.Observe("shortCust_"+d, pp2.PoolAssetsShort[i].Custody)
	}
	s.check("close-positions(liquidate)")
}

//vrf:cover done
//vrf:bound 1 explicit LONG position + symbolic remainder named in the liquidate list of a third party's MsgClosePositions; amm estimates havocked (may fail); errors swallowed by the handler
//vrf:max-paths 8000
//vrf:tier thorough
func H_ClosePositions_Long() { closePositions(perptypes.Position_LONG) }

//vrf:cover done
//vrf:bound as above, SHORT
//vrf:max-paths 8000
//vrf:tier thorough
func H_ClosePositions_Short() { closePositions(perptypes.Position_SHORT) }

//vrf:cover done
//vrf:bound as H_ClosePositions_Long with trading-asset collateral (the quick-tier representative of the close / liquidation steps)
//vrf:max-paths 8000
func H_ClosePositions_Long_AtomCollateral() { closePositionsColl(perptypes.Position_LONG, atom) }

// close right after a settlement in the same block (no interest or funding accrues): the quick-tier representative
// of the owner's partial / full close
//
//vrf:cover close-ok
//vrf:bound 1 explicit LONG position (uusdc collateral) + symbolic remainder, settled in the current block; close amount symbolic; amm estimates havocked
//vrf:max-paths 4000
func H_Close_Long_SameBlock() {
	settledThisBlock = true
	closePos(perptypes.Position_LONG)
}

//vrf:cover close-ok
//vrf:bound as above, SHORT
//vrf:max-paths 4000
func H_Close_Short_SameBlock() {
	settledThisBlock = true
	closePos(perptypes.Position_SHORT)
}

// Setup exposes the symbolic perpetual pool state (no explicit position) to other harness packages (C18).
func Setup() *wire.Env { return setup().env }

// ---- two pools trading the same asset ----

var poolAddr2 = ammtypes.NewPoolAddress(2)

// addPool2: a second oracle amm pool uatom/uusdc with ample reserves, its (empty) perpetual pool and accounted pool
func (s *state) addPool2() {
	env, ctx := s.env, s.env.Ctx
	big := sdkmath.NewIntWithDecimal(1, 30)
	ammPool := ammtypes.Pool{
		PoolId: 2, Address: poolAddr2.String(), RebalanceTreasury: ammtypes.NewPoolRebalanceTreasury(2).String(),
		PoolParams:  ammtypes.PoolParams{UseOracle: true, SwapFee: sdkmath.LegacyZeroDec(), FeeDenom: usdc},
		TotalShares: sdk.Coin{Denom: ammtypes.GetPoolShareDenom(2), Amount: sdkmath.NewInt(1000000)},
		PoolAssets: []ammtypes.PoolAsset{
			{Token: sdk.Coin{Denom: atom, Amount: big}, Weight: sdkmath.NewInt(1), ExternalLiquidityRatio: sdkmath.LegacyOneDec()},
			{Token: sdk.Coin{Denom: usdc, Amount: big}, Weight: sdkmath.NewInt(1), ExternalLiquidityRatio: sdkmath.LegacyOneDec()},
		},
		TotalWeight: sdkmath.NewInt(2),
	}
	env.Amm.SetPool(ctx, ammPool)
	pp := perptypes.NewPool(ammPool)
	z := sdkmath.ZeroInt()
	for i := range pp.PoolAssetsLong {
		pp.PoolAssetsLong[i].Collateral, pp.PoolAssetsLong[i].TakeProfitCustody, pp.PoolAssetsLong[i].TakeProfitLiabilities = z, z, z
		pp.PoolAssetsShort[i].Collateral, pp.PoolAssetsShort[i].TakeProfitCustody, pp.PoolAssetsShort[i].TakeProfitLiabilities = z, z, z
	}
	env.Perp.SetPool(ctx, pp)
	acc := aptypes_acc.AccountedPool{PoolId: 2}
	for _, d := range []string{atom, usdc} {
		env.W.SetBal(poolAddr2, d, big)
		dl, _ := env.Amm.GetDenomLiquidity(ctx, d)
		env.Amm.SetDenomLiquidity(ctx, ammtypes.DenomLiquidity{Denom: d, Liquidity: dl.Liquidity.Add(big)})
		acc.TotalTokens = append(acc.TotalTokens, sdk.Coin{Denom: d, Amount: big})
		acc.NonAmmPoolTokens = append(acc.NonAmmPoolTokens, sdk.Coin{Denom: d, Amount: z})
	}
	env.Acc.SetAccountedPool(ctx, acc)
	s.twoPools = true
}

// checkPool2: pool 2 started empty, so its totals are exactly the sums over the trader's positions recorded on it
func (s *state) checkPool2(label string) {
	env, ctx := s.env, s.env.Ctx
	pp, found := env.Perp.GetPool(ctx, 2)
	vrf.Assert(found, label+": perpetual pool 2 still stored")
	for i, d := range []string{atom, usdc} {
		var wl, ws side
		wl, ws = side{sdkmath.ZeroInt(), sdkmath.ZeroInt(), sdkmath.ZeroInt()}, side{sdkmath.ZeroInt(), sdkmath.ZeroInt(), sdkmath.ZeroInt()}
		for _, m := range env.Perp.GetAllMTPsForAddress(ctx, trader) {
			if m.AmmPoolId != 2 {
				continue
			}
			tgt := &wl
			if m.Position == perptypes.Position_SHORT {
				tgt = &ws
			}
			if m.LiabilitiesAsset == d {
				tgt.liab = tgt.liab.Add(m.Liabilities)
			}
			if m.CustodyAsset == d {
				tgt.cust = tgt.cust.Add(m.Custody)
			}
			if m.CollateralAsset == d {
				tgt.coll = tgt.coll.Add(m.Collateral)
			}
		}
		vrf.Assert(pp.PoolAssetsLong[i].Liabilities.Equal(wl.liab), "C09 "+label+": pool 2 long liabilities == sum over its positions ("+d+")")
		vrf.Assert(pp.PoolAssetsLong[i].Custody.Equal(wl.cust), "C09 "+label+": pool 2 long custody == sum over its positions ("+d+")")
		vrf.Assert(pp.PoolAssetsLong[i].Collateral.Equal(wl.coll), "C09 "+label+": pool 2 long collateral == sum over its positions ("+d+")")
		vrf.Assert(pp.PoolAssetsShort[i].Liabilities.Equal(ws.liab), "C09 "+label+": pool 2 short liabilities == sum over its positions ("+d+")")
		vrf.Assert(pp.PoolAssetsShort[i].Custody.Equal(ws.cust), "C09 "+label+": pool 2 short custody == sum over its positions ("+d+")")
	}
}

// an owner who holds a position on pool 1 opens the same side / asset / collateral on pool 2
//
//vrf:cover open-ok
//vrf:bound 2 perpetual pools trading the same asset; 1 explicit position on pool 1 (+ symbolic remainder), pool 2 empty with ample reserves; open on pool 2 with symbolic collateral and leverage in (1, 25]
//vrf:max-paths 4000
func H_Open_SameAssetOtherPool() {
	estNoFail = true
	settledThisBlock = true
	pos := perptypes.Position_LONG
	if vrf.Bool("short") {
		pos = perptypes.Position_SHORT
	}
	s, _ := setupPos(pos)
	s.addPool2()
	env, ctx := s.env, s.env.Ctx
	coll := vrf.Int("collateral")
	vrf.Assume(coll.IsPositive())
	vrf.Assume(coll.LTE(sdkmath.NewIntWithDecimal(1, 18)))
	lev := vrf.Dec("leverage")
	vrf.Assume(lev.GT(sdkmath.LegacyOneDec()))
	vrf.Assume(lev.LTE(sdkmath.LegacyNewDec(25)))
	tp := vrf.Dec("takeProfit")
	vrf.Assume(tp.IsPositive())
	msg := &perptypes.MsgOpen{Creator: trader.String(), Position: pos, Leverage: lev, TradingAsset: atom, Collateral: sdk.Coin{Denom: usdc, Amount: coll},
		TakeProfitPrice: tp, StopLossPrice: sdkmath.LegacyZeroDec(), PoolId: 2}
	if _, err := env.Perp.Open(ctx, msg); err != nil {
		return
	}
	vrf.Cover("open-ok")
	s.noC11 = true // pool 1 is not touched; C11 of pool 2 is not modelled here
	s.check("open-on-other-pool")
}

// The known finding on a small state: a SHORT whose custody (<= 10) is dwarfed by its liabilities (>= 1e5), so that the
// accrued interest / funding uses the custody up; a partial close then removes the position.
//
//vrf:cover close-ok
//vrf:bound SHORT position with custody <= 10, liabilities in [1e5, 1e6], close amount < liabilities; amm estimates havocked, never failing
//vrf:max-paths 400
//vrf:assert-ms 20000
//vrf:exact-ms 20000
//vrf:allow-abort path budget exceeded
func H_Finding_ShortPartialCloseDestroys() {
	estNoFail = true
	s, m := setupPos(perptypes.Position_SHORT)
	env, ctx := s.env, s.env.Ctx
	vrf.Assume(m.Custody.LTE(sdkmath.NewInt(10)))
	vrf.Assume(m.Liabilities.GTE(sdkmath.NewInt(100000)))
	vrf.Assume(m.Liabilities.LTE(sdkmath.NewInt(1000000)))
	amt := vrf.Int("closeAmount")
	vrf.Assume(amt.IsPositive())
	vrf.Assume(amt.LT(m.Liabilities))
	if _, err := env.Perp.Close(ctx, &perptypes.MsgClose{Creator: trader.String(), Id: 1, Amount: amt}); err != nil {
		return
	}
	vrf.Cover("close-ok")
	_, gerr := env.Perp.GetMTP(ctx, trader, 1)
	vrf.AssertExcept(gerr == nil, "C09 close: a partial close does not remove the position (and what it still owes) from the books",
		"C09-short-partial-close-destroys", gerr != nil)
}

// ---- consolidating open onto a position that has accrued borrow interest and funding since its last settlement ----

func openConsolidate(pos perptypes.Position) {
	estNoFail = true // a failing estimate fails the transaction (rolled back by baseapp)
	s, m0 := setupPos(pos)
	env, ctx := s.env, s.env.Ctx
	coll := vrf.Int("collateral")
	vrf.Assume(coll.IsPositive())
	lev := vrf.Dec("leverage")
	vrf.Assume(lev.GT(sdkmath.LegacyOneDec()))
	vrf.Assume(lev.LTE(sdkmath.LegacyNewDec(25)))
	msg := &perptypes.MsgOpen{Creator: trader.String(), Position: pos, Leverage: lev, TradingAsset: atom, Collateral: sdk.Coin{Denom: usdc, Amount: coll},
		TakeProfitPrice: m0.TakeProfitPrice, StopLossPrice: sdkmath.LegacyZeroDec(), PoolId: 1}
	res, err := env.Perp.Open(ctx, msg)
	if err != nil {
		return // failed transaction: rolled back by baseapp
	}
	vrf.Cover("open-ok")
	vrf.Assert(res.Id == 1, "C09 consolidate: the open is merged into the trader's existing position")
	vrf.Assert(len(env.Perp.GetAllMTPsForAddress(ctx, trader)) == 1, "C09 consolidate: no second position is left behind")
	s.check("open-consolidate")
}

//vrf:cover open-ok
//vrf:bound 1 explicit LONG position (uusdc collateral, symbolic unpaid interest, interest / funding last settled 10 blocks ago with symbolic cumulative rates) + symbolic remainder; consolidating open with symbolic collateral and leverage in (1, 25]; amm estimates havocked
//vrf:max-paths 8000
func H_Open_Consolidate_Long() { openConsolidate(perptypes.Position_LONG) }

//vrf:cover open-ok
//vrf:bound as H_Open_Consolidate_Long, SHORT
//vrf:max-paths 8000
//vrf:tier thorough
func H_Open_Consolidate_Short() { openConsolidate(perptypes.Position_SHORT) }

// ---- a liquidity-pool operation on a pool that has perpetual positions (C11: only the pool part is refreshed) ----

// An all-asset join of the amm pool (Pool.JoinPool under contract: any shares, any part of the offered coins) while the
// perpetual pool carries arbitrary custody and liabilities: afterwards the accounted balance is still reserve +
// liabilities - custody for every asset, whatever the sign of liabilities - custody.
//
//vrf:summary (*github.com/elys-network/elys/x/amm/types.Pool).JoinPool => h_c02.SumPoolJoin
//vrf:cover join-ok
//vrf:bound symbolic perpetual aggregates (liabilities - custody of either sign per asset) and amm reserves; one join of the amm pool with symbolic amounts; Pool.JoinPool under contract
func H_AmmJoin_KeepsAccountedPool() {
	s := setup()
	env, ctx := s.env, s.env.Ctx
	env.Comm.SetParams(ctx, ctypes.DefaultParams())
	ma, mu := vrf.Int("maxAtom"), vrf.Int("maxUsdc")
	vrf.Assume(ma.IsPositive())
	vrf.Assume(mu.IsPositive())
	_, _, err := env.Amm.JoinPoolNoSwap(ctx, trader, 1, sdkmath.NewInt(1), sdk.Coins{{Denom: atom, Amount: ma}, {Denom: usdc, Amount: mu}})
	if err != nil {
		return
	}
	vrf.Cover("join-ok")
	s.check("amm join")
}

// ---- the feeders' external-liquidity message on a pool that has perpetual positions (C01) ----

// MsgFeedMultipleExternalLiquidity from an active price feeder rewrites the pool's asset records (the external
// liquidity ratios): the reserves in those records stay the amounts the pool really holds, also when the accounted
// balance (reserve + perpetual liabilities - custody) differs from them.
//
//vrf:cover fed
//vrf:bound oracle pool with symbolic perpetual aggregates (accounted != amm balance); one feed naming both assets with symbolic external amounts, depth 0.19
func H_ExternalLiquidityFeed_KeepsReserves() {
	s := setup()
	env, ctx := s.env, s.env.Ctx
	env.Aprof.SetEntry(ctx, aptypes.Entry{BaseDenom: ptypes.BaseCurrency, Denom: usdc, Decimals: 6, DisplayName: "USDC", CommitEnabled: true, WithdrawEnabled: true})
	env.Aprof.SetEntry(ctx, aptypes.Entry{BaseDenom: atom, Denom: atom, Decimals: 6, DisplayName: "ATOM", CommitEnabled: true, WithdrawEnabled: true})
	feeder := sdk.AccAddress([]byte("feeder______________"))
	env.Oracle.SetPriceFeeder(ctx, otypes.PriceFeeder{Feeder: feeder.String(), IsActive: true})
	ea, eu := vrf.Dec("externalAtom"), vrf.Dec("externalUsdc")
	vrf.Assume(ea.IsPositive())
	vrf.Assume(eu.IsPositive())
	depth := sdkmath.LegacyNewDecWithPrec(19, 2)
	srv := ammkeeper.NewMsgServerImpl(*env.Amm)
	_, err := srv.FeedMultipleExternalLiquidity(ctx, &ammtypes.MsgFeedMultipleExternalLiquidity{Sender: feeder.String(), Liquidity: []ammtypes.ExternalLiquidity{{PoolId: 1,
		AmountDepthInfo: []ammtypes.AssetAmountDepth{{Asset: "ATOM", Amount: ea, Depth: depth}, {Asset: "USDC", Amount: eu, Depth: depth}}}}})
	if err != nil {
		return
	}
	vrf.Cover("fed")
	for _, d := range []string{atom, usdc} {
		dl, _ := env.Amm.GetDenomLiquidity(ctx, d)
		vrf.Assert(dl.Liquidity.Equal(s.bal[d]), "C01 external liquidity feed: DenomLiquidity untouched ("+d+")")
	}
	s.check("external liquidity feed")
}
