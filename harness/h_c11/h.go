// Package h_c11: accounted pool balance = pool holdings + perpetual liabilities - custody.
// The obligations are the "C11 ..." assertions of the inductive-step scenarios of package
// h_c09 (perpetual entry points with the real accountedpool hook) and of the amm scenarios
// below (amm entry points refresh only the pool part).
package h_c11

import (
	"github.com/elys-network/elys/zzvrf/h_c09"
	"github.com/elys-network/elys/zzvrf/h_c10"
)

//vrf:cover open-ok
//vrf:bound see h_c09.H_Open_Long_UsdcCollateral
//vrf:max-paths 3000
func H_Open_Long_UsdcCollateral() { h_c09.H_Open_Long_UsdcCollateral() }

//vrf:cover open-ok
//vrf:bound see h_c09.H_Open_Long_AtomCollateral
//vrf:max-paths 3000
func H_Open_Long_AtomCollateral() { h_c09.H_Open_Long_AtomCollateral() }

//vrf:cover open-ok
//vrf:bound see h_c09.H_Open_Short
//vrf:max-paths 3000
func H_Open_Short() { h_c09.H_Open_Short() }

//vrf:cover close-ok
//vrf:bound see h_c09.H_Close_Long_SameBlock
//vrf:max-paths 4000
func H_Close_Long() { h_c09.H_Close_Long_SameBlock() }

//vrf:cover close-ok
//vrf:bound see h_c09.H_Close_Short_SameBlock
//vrf:max-paths 4000
func H_Close_Short() { h_c09.H_Close_Short_SameBlock() }

//vrf:cover done
//vrf:bound see h_c09.H_ClosePositions_Long_AtomCollateral
//vrf:max-paths 8000
func H_ClosePositions_Long() { h_c09.H_ClosePositions_Long_AtomCollateral() }

//vrf:cover done
//vrf:bound see h_c10.H_Perp_ClosePositions_TwoOfOnePool_Ledger
//vrf:max-paths 6000
func H_ClosePositions_TwoOfOnePool() { h_c10.H_Perp_ClosePositions_TwoOfOnePool_Ledger() }

// a liquidity-pool operation refreshes only the pool part of the accounted balance
//
//vrf:summary (*github.com/elys-network/elys/x/amm/types.Pool).JoinPool => h_c02.SumPoolJoin
//vrf:cover join-ok
//vrf:bound see h_c09.H_AmmJoin_KeepsAccountedPool
func H_AmmJoin_WithPerpetualPositions() { h_c09.H_AmmJoin_KeepsAccountedPool() }

//vrf:cover done
//vrf:bound see h_c10.H_Perp_ClosePositions_SamePositionThrice_Ledger
//vrf:max-paths 6000
func H_ClosePositions_SamePositionRepeated() { h_c10.H_Perp_ClosePositions_SamePositionThrice_Ledger() }

//vrf:cover open-ok
//vrf:bound see h_c09.H_Open_Consolidate_Long
//vrf:max-paths 8000
func H_Open_Consolidate_Long() { h_c09.H_Open_Consolidate_Long() }
