// Package h_c10: others can force-close a position only when allowed; new positions
// start healthy. Perpetual part: a stored position of owner B, a close-positions
// message from a third party naming it in one of its lists (or the owner-only Close
// sent by someone else); the position and B's funds may change only if health <= safety
// factor (liquidation list), the stop-loss price is reached (stop-loss list) or the
// take-profit price is reached (take-profit list).
package h_c10

import (
	sdkmath "cosmossdk.io/math"
	sdk "github.com/cosmos/cosmos-sdk/types"
	aptypes_acc "github.com/elys-network/elys/x/accountedpool/types"
	ammkeeper "github.com/elys-network/elys/x/amm/keeper"
	ammtypes "github.com/elys-network/elys/x/amm/types"
	aptypes "github.com/elys-network/elys/x/assetprofile/types"
	otypes "github.com/elys-network/elys/x/oracle/types"
	ptypes "github.com/elys-network/elys/x/parameter/types"
	perpkeeper "github.com/elys-network/elys/x/perpetual/keeper"
	perptypes "github.com/elys-network/elys/x/perpetual/types"
	vrf "github.com/elys-network/elys/zzvrf"
	"github.com/elys-network/elys/zzvrf/wire"
)

var (
	poolAddr = ammtypes.NewPoolAddress(1)
	owner    = sdk.AccAddress([]byte("owner_______________"))
	bot      = sdk.AccAddress([]byte("third_party_________"))
)

const (
	atom = "uatom"
	usdc = "uusdc"
	now  = 1700000000
)

// ammW: swap estimates are a fixed symbolic integer rate r >= 1 (1 uatom = r uusdc), so that the
// health the keeper computes is a function of the position and can be recomputed by the harness
type ammW struct {
	*ammkeeper.Keeper
	r sdkmath.Int
}

func (a ammW) conv(amt sdkmath.Int, from, to string) sdkmath.Int {
	if from == atom && to == usdc {
		return amt.Mul(a.r)
	}
	if from == usdc && to == atom {
		return amt.Quo(a.r)
	}
	return amt
}

func (a ammW) SwapOutAmtGivenIn(ctx sdk.Context, poolId uint64, o ammtypes.OracleKeeper, snap *ammtypes.Pool, tokensIn sdk.Coins, outDenom string, fee, f sdkmath.LegacyDec) (sdk.Coin, sdkmath.LegacyDec, sdkmath.LegacyDec, sdkmath.LegacyDec, sdkmath.LegacyDec, error) {
	z := sdkmath.LegacyZeroDec()
	return sdk.Coin{Denom: outDenom, Amount: a.conv(tokensIn[0].Amount, tokensIn[0].Denom, outDenom)}, z, z, z, z, nil
}

func (a ammW) SwapInAmtGivenOut(ctx sdk.Context, poolId uint64, o ammtypes.OracleKeeper, snap *ammtypes.Pool, tokensOut sdk.Coins, inDenom string, fee, f sdkmath.LegacyDec) (sdk.Coin, sdkmath.LegacyDec, sdkmath.LegacyDec, sdkmath.LegacyDec, sdkmath.LegacyDec, error) {
	z := sdkmath.LegacyZeroDec()
	return sdk.Coin{Denom: inDenom, Amount: a.conv(tokensOut[0].Amount, tokensOut[0].Denom, inDenom)}, z, z, z, z, nil
}

type world struct {
	env   *wire.Env
	mtp   perptypes.MTP
	price sdkmath.LegacyDec
}

// setup: one stored position of `owner` (LONG with uusdc collateral, or SHORT), consistent pool aggregates,
// ample amm reserves, no interest / funding accrued since the last settlement (same block)
func setup(pos perptypes.Position) *world {
	r := vrf.Int("rate")
	vrf.Assume(r.IsPositive())
	vrf.Assume(r.LTE(sdkmath.NewInt(1000000)))
	env := wire.New(wire.Opts{PerpAmm: func(real *ammkeeper.Keeper) perptypes.AmmKeeper { return ammW{real, r} }})
	env.Ctx = vrf.SetBlock(env.Ctx, 100, now)
	ctx := env.Ctx
	w := &world{env: env}
	env.Aprof.SetEntry(ctx, aptypes.Entry{BaseDenom: ptypes.BaseCurrency, Denom: usdc, Decimals: 6, CommitEnabled: true, WithdrawEnabled: true})
	env.Amm.SetParams(ctx, ammtypes.DefaultParams())
	pp0 := perptypes.DefaultParams()
	env.Perp.SetParams(ctx, &pp0)
	env.Param.SetParams(ctx, ptypes.DefaultParams())
	env.Oracle.SetAssetInfo(ctx, otypes.AssetInfo{Denom: atom, Display: "ATOM", Decimal: 6})
	env.Oracle.SetAssetInfo(ctx, otypes.AssetInfo{Denom: usdc, Display: "USDC", Decimal: 6})
	w.price = vrf.Dec("oraclePriceAtom")
	vrf.Assume(w.price.IsPositive())
	env.Oracle.SetPrice(ctx, otypes.Price{Asset: "ATOM", Source: otypes.ELYS, Price: w.price, Timestamp: now, BlockHeight: 100})
	env.Oracle.SetPrice(ctx, otypes.Price{Asset: "USDC", Source: otypes.ELYS, Price: sdkmath.LegacyOneDec(), Timestamp: now, BlockHeight: 100})
	big := sdkmath.NewIntWithDecimal(1, 30)
	ammPool := ammtypes.Pool{
		PoolId: 1, Address: poolAddr.String(), RebalanceTreasury: ammtypes.NewPoolRebalanceTreasury(1).String(),
		PoolParams:  ammtypes.PoolParams{UseOracle: true, SwapFee: sdkmath.LegacyZeroDec(), FeeDenom: usdc},
		TotalShares: sdk.Coin{Denom: ammtypes.GetPoolShareDenom(1), Amount: sdkmath.NewInt(1000000)},
		PoolAssets: []ammtypes.PoolAsset{
			{Token: sdk.Coin{Denom: atom, Amount: big}, Weight: sdkmath.NewInt(1), ExternalLiquidityRatio: sdkmath.LegacyOneDec()},
			{Token: sdk.Coin{Denom: usdc, Amount: big}, Weight: sdkmath.NewInt(1), ExternalLiquidityRatio: sdkmath.LegacyOneDec()},
		},
		TotalWeight: sdkmath.NewInt(2),
	}
	env.Amm.SetPool(ctx, ammPool)
	for _, d := range []string{atom, usdc} {
		env.W.SetBal(poolAddr, d, big)
		env.Amm.SetDenomLiquidity(ctx, ammtypes.DenomLiquidity{Denom: d, Liquidity: big})
	}
	cust, liab, coll := vrf.Int("custody"), vrf.Int("liabilities"), vrf.Int("collateralAmt")
	vrf.Assume(cust.IsPositive())
	vrf.Assume(liab.IsPositive())
	vrf.Assume(coll.IsPositive())
	vrf.Assume(cust.LTE(sdkmath.NewIntWithDecimal(1, 18)))
	vrf.Assume(liab.LTE(sdkmath.NewIntWithDecimal(1, 18)))
	sl, tp := vrf.Dec("stopLoss"), vrf.Dec("takeProfit")
	vrf.Assume(!sl.IsNegative())
	vrf.Assume(tp.IsPositive())
	liabAsset, custAsset := usdc, atom
	if pos == perptypes.Position_SHORT {
		liabAsset, custAsset = atom, usdc
	}
	m := perptypes.NewMTP(ctx, owner.String(), usdc, atom, liabAsset, custAsset, pos, tp, 1)
	m.Id = 1
	m.Custody, m.Liabilities, m.Collateral = cust, liab, coll
	m.StopLossPrice = sl
	m.OpenPrice = sdkmath.LegacyOneDec()
	w.mtp = *m
	env.Perp.SetMTP(ctx, m)
	env.Perp.SetOpenMTPCount(ctx, 1)
	pp := perptypes.NewPool(ammPool)
	assets := &pp.PoolAssetsLong
	if pos == perptypes.Position_SHORT {
		assets = &pp.PoolAssetsShort
	}
	for i := range *assets {
		a := &(*assets)[i]
		a.Collateral, a.TakeProfitCustody, a.TakeProfitLiabilities = sdkmath.ZeroInt(), sdkmath.ZeroInt(), sdkmath.ZeroInt()
		if a.AssetDenom == custAsset {
			a.Custody = cust
		}
		if a.AssetDenom == liabAsset {
			a.Liabilities = liab
		}
		if a.AssetDenom == usdc {
			a.Collateral = coll
		}
	}
	for i := range pp.PoolAssetsLong {
		if pp.PoolAssetsLong[i].Collateral.IsNil() {
			pp.PoolAssetsLong[i].Collateral, pp.PoolAssetsLong[i].TakeProfitCustody, pp.PoolAssetsLong[i].TakeProfitLiabilities = sdkmath.ZeroInt(), sdkmath.ZeroInt(), sdkmath.ZeroInt()
		}
		if pp.PoolAssetsShort[i].Collateral.IsNil() {
			pp.PoolAssetsShort[i].Collateral, pp.PoolAssetsShort[i].TakeProfitCustody, pp.PoolAssetsShort[i].TakeProfitLiabilities = sdkmath.ZeroInt(), sdkmath.ZeroInt(), sdkmath.ZeroInt()
		}
	}
	env.Perp.SetPool(ctx, pp)
	acc := aptypes_acc.AccountedPool{PoolId: 1}
	for _, d := range []string{atom, usdc} {
		acc.TotalTokens = append(acc.TotalTokens, sdk.Coin{Denom: d, Amount: big})
		acc.NonAmmPoolTokens = append(acc.NonAmmPoolTokens, sdk.Coin{Denom: d, Amount: sdkmath.ZeroInt()})
	}
	env.Acc.SetAccountedPool(ctx, acc)
	return w
}

func (w *world) changed() bool {
	env, ctx := w.env, w.env.Ctx
	m, err := env.Perp.GetMTP(ctx, owner, 1)
	if err != nil {
		return true // position gone
	}
	if !m.Custody.Equal(w.mtp.Custody) || !m.Liabilities.Equal(w.mtp.Liabilities) || !m.Collateral.Equal(w.mtp.Collateral) {
		return true
	}
	return !env.W.BalOf(owner, atom).IsZero() || !env.W.BalOf(owner, usdc).IsZero()
}

func pickSide() perptypes.Position {
	if vrf.Bool("short") {
		return perptypes.Position_SHORT
	}
	return perptypes.Position_LONG
}

// liquidation list: the position may change only if its health is at or below the safety factor
//
//vrf:cover untouched liquidated
//vrf:bound 1 position (LONG/uusdc or SHORT), symbolic custody/liabilities <= 1e18, symbolic swap rate, oracle price, stop-loss and take-profit prices; third-party sender
func H_Perp_ClosePositions_Liquidate() {
	w := setup(pickSide())
	env, ctx := w.env, w.env.Ctx
	ammPool, _ := env.Amm.GetPool(ctx, 1)
	h, herr := env.Perp.GetMTPHealth(ctx, w.mtp, ammPool, usdc)
	vrf.Assume(herr == nil)
	srv := perpkeeper.NewMsgServerImpl(*env.Perp)
	_, err := srv.ClosePositions(ctx, &perptypes.MsgClosePositions{Creator: bot.String(), Liquidate: []perptypes.PositionRequest{{Address: owner.String(), Id: 1}}})
	vrf.Assert(err == nil, "C10: the batch handler itself does not fail")
	if !w.changed() {
		vrf.Cover("untouched")
		return
	}
	vrf.Cover("liquidated")
	vrf.Assert(h.LTE(perptypes.DefaultParams().SafetyFactor), "C10: a third party can liquidate only when health <= safety factor")
}

// stop-loss list
//
//vrf:cover untouched closed
func H_Perp_ClosePositions_StopLoss() {
	w := setup(pickSide())
	env, ctx := w.env, w.env.Ctx
	srv := perpkeeper.NewMsgServerImpl(*env.Perp)
	_, err := srv.ClosePositions(ctx, &perptypes.MsgClosePositions{Creator: bot.String(), StopLoss: []perptypes.PositionRequest{{Address: owner.String(), Id: 1}}})
	vrf.Assert(err == nil, "C10: the batch handler itself does not fail")
	if !w.changed() {
		vrf.Cover("untouched")
		return
	}
	vrf.Cover("closed")
	// a zero stop-loss price means "not set" (Open replaces it, UpdateStopLoss exempts it from its side check)
	reached := !w.mtp.StopLossPrice.IsZero() && w.price.LTE(w.mtp.StopLossPrice)
	if w.mtp.Position == perptypes.Position_SHORT {
		reached = !w.mtp.StopLossPrice.IsZero() && w.price.GTE(w.mtp.StopLossPrice)
	}
	vrf.Assert(reached, "C10: a third party can close at stop-loss only when the market has reached the stop-loss price")
}

// take-profit list
//
//vrf:cover untouched closed
func H_Perp_ClosePositions_TakeProfit() {
	w := setup(pickSide())
	env, ctx := w.env, w.env.Ctx
	srv := perpkeeper.NewMsgServerImpl(*env.Perp)
	_, err := srv.ClosePositions(ctx, &perptypes.MsgClosePositions{Creator: bot.String(), TakeProfit: []perptypes.PositionRequest{{Address: owner.String(), Id: 1}}})
	vrf.Assert(err == nil, "C10: the batch handler itself does not fail")
	if !w.changed() {
		vrf.Cover("untouched")
		return
	}
	vrf.Cover("closed")
	reached := w.price.GTE(w.mtp.TakeProfitPrice)
	if w.mtp.Position == perptypes.Position_SHORT {
		reached = w.price.LTE(w.mtp.TakeProfitPrice)
	}
	vrf.Assert(reached, "C10: a third party can close at take-profit only when the market has reached the take-profit price")
}

// owner-only messages sent by someone else name the sender's own (non-existent) position: refused, nothing changes
//
//vrf:cover refused
func H_Perp_OwnerOnly_ByOther() {
	w := setup(pickSide())
	env, ctx := w.env, w.env.Ctx
	srv := perpkeeper.NewMsgServerImpl(*env.Perp)
	before := env.W.TotalWrites()
	var err error
	switch vrf.I64("op", 0, 2) {
	case 0:
		_, err = srv.Close(ctx, &perptypes.MsgClose{Creator: bot.String(), Id: 1, Amount: vrf.Int("closeAmount")})
	case 1:
		_, err = srv.UpdateStopLoss(ctx, &perptypes.MsgUpdateStopLoss{Creator: bot.String(), Id: 1, Price: vrf.Dec("newStopLoss")})
	case 2:
		_, err = srv.UpdateTakeProfitPrice(ctx, &perptypes.MsgUpdateTakeProfitPrice{Creator: bot.String(), Id: 1, Price: vrf.Dec("newTakeProfit")})
	}
	vrf.Cover("refused")
	vrf.Assert(err != nil, "C10/C17: close / update of someone else's position is refused")
	vrf.Assert(env.W.TotalWrites() == before, "C10/C17: a refused close / update changes nothing")
	vrf.Assert(!w.changed(), "C10/C17: the owner's position and funds are untouched")
}

// a successful open onto an existing position of the same owner (consolidation) leaves the merged position
// with health strictly above the safety factor, recomputed here from the stored position (not read from it)
//
//vrf:cover open-ok
//vrf:bound 1 existing position (LONG/uusdc or SHORT) of arbitrary health, consolidating open of the same side by its owner: symbolic collateral, leverage in [1, 10], swap rate; same block as the last settlement
//vrf:max-paths 3000
func H_Perp_OpenConsolidate_Healthy() {
	pos := pickSide()
	w := setup(pos)
	env, ctx := w.env, w.env.Ctx
	coll := vrf.Int("newCollateral")
	vrf.Assume(coll.IsPositive())
	vrf.Assume(coll.LTE(sdkmath.NewIntWithDecimal(1, 18)))
	env.W.SetBal(owner, usdc, coll)
	lev := vrf.Dec("leverage")
	vrf.Assume(lev.GTE(sdkmath.LegacyOneDec()))
	vrf.Assume(lev.LTE(sdkmath.LegacyNewDec(10)))
	msg := &perptypes.MsgOpen{Creator: owner.String(), Position: pos, Leverage: lev, TradingAsset: atom, Collateral: sdk.Coin{Denom: usdc, Amount: coll},
		TakeProfitPrice: w.mtp.TakeProfitPrice, StopLossPrice: sdkmath.LegacyZeroDec(), PoolId: 1}
	res, err := env.Perp.Open(ctx, msg)
	if err != nil {
		return // failed transaction: rolled back by baseapp
	}
	vrf.Cover("open-ok")
	vrf.Assert(res.Id == 1, "C10 consolidate: the open is merged into the owner's existing position")
	m, gerr := env.Perp.GetMTP(ctx, owner, 1)
	vrf.Assert(gerr == nil, "C10 consolidate: the merged position is stored")
	ammPool, _ := env.Amm.GetPool(ctx, 1)
	h, herr := env.Perp.GetMTPHealth(ctx, m, ammPool, usdc)
	vrf.Assert(herr == nil, "C10 consolidate: health of the merged position is computable")
	if herr == nil {
		vrf.Assert(h.GT(perptypes.DefaultParams().SafetyFactor), "C10 consolidate: a successful consolidating open leaves the merged position's health strictly above the safety factor")
	}
}

// ---- ledger after a close-positions message over two positions of one pool (C01 / C09 / C11) ----

// Two LONG positions of the same owner-pool, the second with borrow interest accrued since block 90, both named in
// one liquidate list; swap estimates are the fixed integer rate of this package (deterministic, so the path count
// stays small). Afterwards: amm bank == book, pool totals == sums over the remaining positions, accounted pool ==
// reserve + liabilities - custody.
//
//vrf:cover done
//vrf:bound 2 LONG positions (uusdc collateral) of one pool, no other positions; custody / liabilities <= 1e18, symbolic integer swap rate, oracle price, cumulative interest rates over a 10-block interval for the second position
//vrf:max-paths 6000
func H_Perp_ClosePositions_TwoOfOnePool_Ledger() {
	w := setup(perptypes.Position_LONG)
	env, ctx := w.env, w.env.Ctx
	cust, liab, coll := vrf.Int("custody2"), vrf.Int("liabilities2"), vrf.Int("collateralAmt2")
	for _, x := range []sdkmath.Int{cust, liab, coll} {
		vrf.Assume(x.IsPositive())
		vrf.Assume(x.LTE(sdkmath.NewIntWithDecimal(1, 18)))
	}
	m := perptypes.NewMTP(ctx, owner.String(), usdc, atom, usdc, atom, perptypes.Position_LONG, w.mtp.TakeProfitPrice, 1)
	m.Id = 2
	m.Custody, m.Liabilities, m.Collateral = cust, liab, coll
	m.StopLossPrice = sdkmath.LegacyZeroDec()
	m.OpenPrice = sdkmath.LegacyOneDec()
	m.LastInterestCalcBlock, m.LastInterestCalcTime = 90, now-60
	env.Perp.SetMTP(ctx, m)
	env.Perp.SetOpenMTPCount(ctx, 2)
	env.Perp.SetMTPCount(ctx, 2)
	i0, i1 := vrf.Dec("interest0"), vrf.Dec("interest1")
	vrf.Assume(!i0.IsNegative())
	vrf.Assume(i1.GTE(i0))
	vrf.Assume(i1.LTE(sdkmath.LegacyNewDec(10)))
	env.Perp.SetBorrowRate(ctx, 90, 1, perptypes.InterestBlock{InterestRate: i0, BlockHeight: 90, BlockTime: now - 60})
	env.Perp.SetBorrowRate(ctx, 100, 1, perptypes.InterestBlock{InterestRate: i1, BlockHeight: 100, BlockTime: now})
	pp, _ := env.Perp.GetPool(ctx, 1)
	for i := range pp.PoolAssetsLong {
		a := &pp.PoolAssetsLong[i]
		if a.AssetDenom == atom {
			a.Custody = a.Custody.Add(cust)
		}
		if a.AssetDenom == usdc {
			a.Liabilities = a.Liabilities.Add(liab)
			a.Collateral = a.Collateral.Add(coll)
		}
	}
	env.Perp.SetPool(ctx, pp)
	syncAccounted(w)
	srv := perpkeeper.NewMsgServerImpl(*env.Perp)
	_, err := srv.ClosePositions(ctx, &perptypes.MsgClosePositions{Creator: bot.String(), Liquidate: []perptypes.PositionRequest{{Address: owner.String(), Id: 1}, {Address: owner.String(), Id: 2}}})
	vrf.Assert(err == nil, "C10: the batch handler itself does not fail")
	vrf.Cover("done")
	ledger(w, "close-positions(two)")
}

// syncAccounted: the accounted pool as the hooks keep it for the owner's positions (there are no others): amm reserve
// (1e30) + liabilities - custody
func syncAccounted(w *world) {
	env, ctx := w.env, w.env.Ctx
	acc, _ := env.Acc.GetAccountedPool(ctx, 1)
	for i := range acc.TotalTokens {
		d := acc.TotalTokens[i].Denom
		delta := sdkmath.ZeroInt()
		for _, x := range env.Perp.GetAllMTPsForAddress(ctx, owner) {
			if x.LiabilitiesAsset == d {
				delta = delta.Add(x.Liabilities)
			}
			if x.CustodyAsset == d {
				delta = delta.Sub(x.Custody)
			}
		}
		big := sdkmath.NewIntWithDecimal(1, 30)
		acc.TotalTokens[i].Amount = big.Add(delta)
		acc.NonAmmPoolTokens[i].Amount = delta
	}
	env.Acc.SetAccountedPool(ctx, acc)
}

// ledger: amm bank == book, perpetual pool totals == sums over the owner's remaining positions (there are no others),
// custody backed, accounted pool == reserve + liabilities - custody, counter == number of positions
func ledger(w *world, label string) {
	env, ctx := w.env, w.env.Ctx
	ammPool, _ := env.Amm.GetPool(ctx, 1)
	pp2, _ := env.Perp.GetPool(ctx, 1)
	acc2, _ := env.Acc.GetAccountedPool(ctx, 1)
	mtps := env.Perp.GetAllMTPsForAddress(ctx, owner)
	for i, a := range ammPool.PoolAssets {
		d := a.Token.Denom
		vrf.Assert(env.W.BalOf(poolAddr, d).Equal(a.Token.Amount), "C01 "+label+": amm bank == book ("+d+")")
		l, c, k := sdkmath.ZeroInt(), sdkmath.ZeroInt(), sdkmath.ZeroInt()
		for _, x := range mtps {
			if x.LiabilitiesAsset == d {
				l = l.Add(x.Liabilities)
			}
			if x.CustodyAsset == d {
				c = c.Add(x.Custody)
			}
			if x.CollateralAsset == d {
				k = k.Add(x.Collateral)
			}
		}
		vrf.Assert(pp2.PoolAssetsLong[i].Liabilities.Equal(l), "C09 "+label+": long liabilities == sum over positions ("+d+")")
		vrf.Assert(pp2.PoolAssetsLong[i].Custody.Equal(c), "C09 "+label+": long custody == sum over positions ("+d+")")
		vrf.Assert(pp2.PoolAssetsLong[i].Collateral.Equal(k), "C09 "+label+": long collateral == sum over positions ("+d+")")
		vrf.Assert(a.Token.Amount.GTE(c), "C09 "+label+": the liquidity pool holds at least the total custody ("+d+")")
		vrf.Assert(acc2.TotalTokens[i].Amount.Equal(a.Token.Amount.Add(l).Sub(c)), "C11 "+label+": accounted balance == reserve + liabilities - custody ("+d+")")
	}
	vrf.Assert(env.Perp.GetOpenMTPCount(ctx) == uint64(len(mtps)), "C09 "+label+": open-position counter == number of stored positions")
}

// the same position named in all three lists of one MsgClosePositions (liquidate, stop-loss, take-profit): whatever an
// earlier entry did to it (settlement, close), the later entries work on the position as stored then
//
//vrf:cover done
//vrf:bound 1 LONG position (uusdc collateral) named three times in one message by a third party; custody / liabilities <= 1e18, symbolic integer swap rate, oracle price, stop-loss and take-profit prices
//vrf:max-paths 6000
func H_Perp_ClosePositions_SamePositionThrice_Ledger() {
	w := setup(perptypes.Position_LONG)
	env, ctx := w.env, w.env.Ctx
	srv := perpkeeper.NewMsgServerImpl(*env.Perp)
	syncAccounted(w)
	req := perptypes.PositionRequest{Address: owner.String(), Id: 1}
	_, err := srv.ClosePositions(ctx, &perptypes.MsgClosePositions{Creator: bot.String(), Liquidate: []perptypes.PositionRequest{req, req}, StopLoss: []perptypes.PositionRequest{req}, TakeProfit: []perptypes.PositionRequest{req}})
	vrf.Assert(err == nil, "C10: the batch handler itself does not fail")
	vrf.Cover("done")
	ledger(w, "close-positions(same position repeated)")
}
