package h_c10

import (
	"github.com/elys-network/elys/zzvrf/h_c08"
	"github.com/elys-network/elys/zzvrf/h_c09"
)

// every successful open leaves the position with health strictly above the safety factor (scenarios of h_c09)
//
//vrf:cover open-ok
//vrf:max-paths 3000
func H_Perp_Open_Long_Healthy() { h_c09.H_Open_Long_UsdcCollateral() }

//vrf:cover open-ok
//vrf:max-paths 3000
func H_Perp_Open_Short_Healthy() { h_c09.H_Open_Short() }

//vrf:cover untouched closed
//vrf:bound see h_c08.H_ClosePositions_StopLoss
//vrf:max-paths 3000
func H_LeveragedLp_ClosePositions_StopLoss() { h_c08.H_ClosePositions_StopLoss() }

//vrf:cover untouched liquidated
//vrf:bound see h_c08.H_ClosePositions_Liquidate
//vrf:max-paths 3000
func H_LeveragedLp_ClosePositions_Liquidate() { h_c08.H_ClosePositions_Liquidate() }

//vrf:cover done closed-at-stop-loss
//vrf:bound see h_c08.H_BeginBlocker_TwoPositions_StopLossGate (the chain's own sweep over two positions of one pool)
//vrf:assert-prefix C10
//vrf:max-paths 6000
func H_LeveragedLp_Sweep_StopLossGate() { h_c08.H_BeginBlocker_TwoPositions_StopLossGate() }

//vrf:cover open-ok
//vrf:bound see h_c08.H_Open_New
//vrf:assert-prefix C10
//vrf:max-paths 3000
func H_LeveragedLp_Open_Healthy() { h_c08.H_Open_New() }

//vrf:cover open-ok top-up
//vrf:bound see h_c08.H_Open_Consolidate (leverage 1 = collateral top-up included)
//vrf:assert-prefix C10
//vrf:max-paths 3000
func H_LeveragedLp_OpenConsolidate_Healthy() { h_c08.H_Open_Consolidate() }
