// Package h_c16: the oracle returns the newest live price of exactly the asked
// asset from the preferred source; only active feeders can write. The real
// oracle keeper (PriceKey, reverse prefix iterators, EndBlock, FeedPrice) runs on
// the store model with symbolic key bytes.
package h_c16

import (
	sdkmath "cosmossdk.io/math"
	sdk "github.com/cosmos/cosmos-sdk/types"
	okeeper "github.com/elys-network/elys/x/oracle/keeper"
	otypes "github.com/elys-network/elys/x/oracle/types"
	vrf "github.com/elys-network/elys/zzvrf"
	"github.com/elys-network/elys/zzvrf/wire"
)

const maxT = 1 << 40

// two stored prices with symbolic names, look-up of a symbolic name
func wrongAsset(la1, ls1, la2, ls2, lq int) {
	env := wire.New(wire.Opts{})
	ctx, k := env.Ctx, env.Oracle
	a1, s1 := vrf.Str("a1", la1), vrf.Str("s1", ls1)
	a2, s2 := vrf.Str("a2", la2), vrf.Str("s2", ls2)
	q := vrf.Str("q", lq)
	t1 := vrf.U64("t1", 1, maxT)
	t2 := vrf.U64("t2", 1, maxT)
	k.SetPrice(ctx, otypes.Price{Asset: a1, Source: s1, Price: sdkmath.LegacyOneDec(), Timestamp: t1, BlockHeight: 5})
	k.SetPrice(ctx, otypes.Price{Asset: a2, Source: s2, Price: sdkmath.LegacyNewDec(2), Timestamp: t2, BlockHeight: 5})
	p, found := k.GetAssetPrice(ctx, q)
	if !found {
		vrf.Cover("not-found")
		// completeness: a stored price of exactly the asked asset must be found.
		// known finding: keys are asset||source||/||timestamp without a separator between asset and
		// source, so two different (asset, source) pairs with the same concatenation and timestamp
		// share one key and the later feed overwrites the earlier one
		sameKey := a1+s1 == a2+s2 && t1 == t2
		vrf.AssertExcept(a1 != q, "C16: a stored price of the asked asset is found (1)", "C16-key-overwrite", sameKey)
		vrf.Assert(a2 != q, "C16: a stored price of the asked asset is found (2)")
		return
	}
	vrf.Cover("found")
	// (fixed, see known_findings.txt) a different asset whose asset||source starts with the asked name was returned
	vrf.Assert(p.Asset == q, "C16: returned price is for the asked asset")
}

//vrf:cover found not-found
//vrf:bound 2 stored prices; asset 2 bytes + source 4 bytes each, query 2 bytes; bytes in '0'..'z'; timestamps < 2^40
func H_WrongAsset_EqualShapes() { wrongAsset(2, 4, 2, 4, 2) }

//vrf:cover found not-found
//vrf:bound 2 stored prices; asset 1 byte + source 5 bytes vs asset 2 bytes + source 1 byte, query 2 bytes (prefix/concatenation shapes)
func H_WrongAsset_PrefixShapes() { wrongAsset(1, 5, 2, 1, 2) }

//vrf:cover found not-found
//vrf:bound asset 1 + source 4 (can spell elys/band) vs asset 3 + source 2, query 1 byte
func H_WrongAsset_ShortQuery() { wrongAsset(1, 4, 3, 2, 1) }

//vrf:cover found not-found
//vrf:tier thorough
//vrf:bound asset 3 + source 6 vs asset 2 + source 4, query 3 bytes
func H_WrongAsset_Long() { wrongAsset(3, 6, 2, 4, 3) }

// newest of the same asset and source wins
//
//vrf:cover found
//vrf:bound 2 prices of one asset from one source (elys, band or another; symbolic) at symbolic distinct timestamps
func H_Newest() {
	env := wire.New(wire.Opts{})
	ctx, k := env.Ctx, env.Oracle
	t1, t2 := vrf.U64("t1", 1, maxT), vrf.U64("t2", 1, maxT)
	vrf.Assume(t1 != t2)
	src := otypes.ELYS
	switch vrf.I64("source", 0, 2) {
	case 1:
		src = otypes.BAND
	case 2:
		src = "binance" // any other source
	}
	k.SetPrice(ctx, otypes.Price{Asset: "ATOM", Source: src, Price: sdkmath.LegacyNewDec(1), Timestamp: t1, BlockHeight: 5})
	k.SetPrice(ctx, otypes.Price{Asset: "ATOM", Source: src, Price: sdkmath.LegacyNewDec(2), Timestamp: t2, BlockHeight: 5})
	p, found := k.GetAssetPrice(ctx, "ATOM")
	vrf.Assert(found, "C16: stored price is found")
	vrf.Cover("found")
	vrf.Assert(p.Timestamp >= t1, "C16: newest price wins (1)")
	vrf.Assert(p.Timestamp >= t2, "C16: newest price wins (2)")
}

// source preference: elys, then band, then any
//
//vrf:cover found
//vrf:bound 3 prices of one asset from elys/band/other, each present or absent (symbolic), symbolic timestamps
func H_Preference() {
	env := wire.New(wire.Opts{})
	ctx, k := env.Ctx, env.Oracle
	hasE, hasB, hasO := vrf.Bool("hasElys"), vrf.Bool("hasBand"), vrf.Bool("hasOther")
	if hasE {
		k.SetPrice(ctx, otypes.Price{Asset: "ATOM", Source: otypes.ELYS, Price: sdkmath.LegacyNewDec(1), Timestamp: vrf.U64("tE", 1, maxT), BlockHeight: 5})
	}
	if hasB {
		k.SetPrice(ctx, otypes.Price{Asset: "ATOM", Source: otypes.BAND, Price: sdkmath.LegacyNewDec(2), Timestamp: vrf.U64("tB", 1, maxT), BlockHeight: 5})
	}
	if hasO {
		k.SetPrice(ctx, otypes.Price{Asset: "ATOM", Source: "zother", Price: sdkmath.LegacyNewDec(3), Timestamp: vrf.U64("tO", 1, maxT), BlockHeight: 5})
	}
	p, found := k.GetAssetPrice(ctx, "ATOM")
	if !found {
		vrf.Assert(!hasE, "C16: elys price found")
		vrf.Assert(!hasB, "C16: band price found")
		vrf.Assert(!hasO, "C16: any-source price found")
		return
	}
	vrf.Cover("found")
	if hasE {
		vrf.Assert(p.Source == otypes.ELYS, "C16: elys preferred")
	} else if hasB {
		vrf.Assert(p.Source == otypes.BAND, "C16: band preferred over others")
	}
}

// after EndBlock no returned price is expired by either rule
//
//vrf:cover found expired-gone
//vrf:bound 2 prices of one asset (elys, band), symbolic timestamps/heights/expiry params < 2^40
func H_Expiry() {
	env := wire.New(wire.Opts{})
	k := env.Oracle
	now := vrf.I64("now", 1, maxT)
	height := vrf.I64("height", 1, maxT)
	ctx := vrf.SetBlock(env.Ctx, height, now)
	p := otypes.DefaultParams()
	p.PriceExpiryTime = vrf.U64("expiry", 0, maxT)
	p.LifeTimeInBlocks = vrf.U64("life", 0, maxT)
	k.SetParams(ctx, p)
	t1, t2 := vrf.U64("t1", 1, maxT), vrf.U64("t2", 1, maxT)
	h1, h2 := vrf.U64("h1", 1, maxT), vrf.U64("h2", 1, maxT)
	k.SetPrice(ctx, otypes.Price{Asset: "ATOM", Source: otypes.ELYS, Price: sdkmath.LegacyNewDec(1), Timestamp: t1, BlockHeight: h1})
	k.SetPrice(ctx, otypes.Price{Asset: "ATOM", Source: otypes.BAND, Price: sdkmath.LegacyNewDec(2), Timestamp: t2, BlockHeight: h2})
	k.EndBlock(ctx)
	got, found := k.GetAssetPrice(ctx, "ATOM")
	if !found {
		vrf.Cover("expired-gone")
		// liveness: a price that is live by both rules is still served
		live1 := t1+p.PriceExpiryTime >= uint64(now) && h1+p.LifeTimeInBlocks >= uint64(height)
		vrf.Assert(!live1, "C16: a live price is not removed")
		return
	}
	vrf.Cover("found")
	vrf.Assert(got.Timestamp+p.PriceExpiryTime >= uint64(now), "C16: served price not expired by time")
	vrf.Assert(got.BlockHeight+p.LifeTimeInBlocks >= uint64(height), "C16: served price not expired by height")
}

// a denom without asset info, or without a live price, yields zero
//
//vrf:cover no-info no-price priced
func H_NoPrice() {
	env := wire.New(wire.Opts{})
	ctx, k := env.Ctx, env.Oracle
	hasInfo, hasPrice := vrf.Bool("hasInfo"), vrf.Bool("hasPrice")
	if hasInfo {
		k.SetAssetInfo(ctx, otypes.AssetInfo{Denom: "uatom", Display: "ATOM", Decimal: 6})
	}
	if hasPrice {
		k.SetPrice(ctx, otypes.Price{Asset: "ATOM", Source: otypes.ELYS, Price: sdkmath.LegacyNewDec(7), Timestamp: 5, BlockHeight: 5})
	}
	// a foreign price that must never be served for uatom
	k.SetPrice(ctx, otypes.Price{Asset: "USDC", Source: otypes.ELYS, Price: sdkmath.LegacyNewDec(1), Timestamp: 5, BlockHeight: 5})
	got := k.GetAssetPriceFromDenom(ctx, "uatom")
	switch {
	case !hasInfo:
		vrf.Cover("no-info")
		vrf.Assert(got.IsZero(), "C16: no asset info => no price")
	case !hasPrice:
		vrf.Cover("no-price")
		vrf.Assert(got.IsZero(), "C16: no live price => no price")
	default:
		vrf.Cover("priced")
		vrf.Assert(got.Equal(sdkmath.LegacyNewDecWithPrec(7, 6)), "C16: price scaled by decimals")
	}
}

// only a registered and active feeder can write a price
//
//vrf:cover refused accepted
//vrf:bound FeedPrice and FeedMultiplePrices (1 price); feeder record absent / inactive / active (symbolic)
func H_FeederGuard() {
	env := wire.New(wire.Opts{})
	ctx, k := env.Ctx, env.Oracle
	feeder := sdk.AccAddress([]byte("feeder______________"))
	registered, active := vrf.Bool("registered"), vrf.Bool("active")
	if registered {
		k.SetPriceFeeder(ctx, otypes.PriceFeeder{Feeder: feeder.String(), IsActive: active})
	}
	before := env.W.TotalWrites()
	srv := okeeper.NewMsgServerImpl(*k)
	var err error
	if vrf.Bool("multi") {
		_, err = srv.FeedMultiplePrices(ctx, &otypes.MsgFeedMultiplePrices{Creator: feeder.String(),
			FeedPrices: []otypes.FeedPrice{{Asset: "ATOM", Price: sdkmath.LegacyNewDec(9), Source: otypes.ELYS}}})
	} else {
		_, err = srv.FeedPrice(ctx, &otypes.MsgFeedPrice{Provider: feeder.String(),
			FeedPrice: otypes.FeedPrice{Asset: "ATOM", Price: sdkmath.LegacyNewDec(9), Source: otypes.ELYS}})
	}
	allowed := registered && active
	if !allowed {
		vrf.Cover("refused")
		vrf.Assert(err != nil, "C16: non-feeder / inactive feeder is refused")
		vrf.Assert(env.W.TotalWrites() == before, "C16: refused feed writes nothing")
		_, found := k.GetAssetPrice(ctx, "ATOM")
		vrf.Assert(!found, "C16: refused feed leaves no price")
		return
	}
	vrf.Cover("accepted")
	vrf.Assert(err == nil, "C16: active feeder accepted")
}

// a feed accepted from an active feeder becomes the newest record of its asset and source: it carries the block time
// and height of the feed (which is what expiry is counted from), whatever the feeder had fed before - a different
// value, the same value, or nothing - and the look-up serves it
//
//vrf:cover fed
//vrf:bound 1 active feeder; an earlier record of the same asset / source from the same or another provider with a symbolic price (equal to the new one included) at a symbolic earlier time, or none; FeedPrice and FeedMultiplePrices (1 price); then the end blocker with symbolic expiry params
func H_Refeed_IsNewest() {
	env := wire.New(wire.Opts{})
	k := env.Oracle
	now := vrf.I64("now", 2, maxT)
	height := vrf.I64("height", 2, maxT)
	ctx := vrf.SetBlock(env.Ctx, height, now)
	p := otypes.DefaultParams()
	p.PriceExpiryTime = vrf.U64("expiry", 0, maxT)
	p.LifeTimeInBlocks = vrf.U64("life", 0, maxT)
	k.SetParams(ctx, p)
	feeder := sdk.AccAddress([]byte("feeder______________"))
	other := sdk.AccAddress([]byte("other_feeder________"))
	k.SetPriceFeeder(ctx, otypes.PriceFeeder{Feeder: feeder.String(), IsActive: true})
	newPrice := vrf.Dec("newPrice")
	vrf.Assume(newPrice.IsPositive())
	if vrf.Bool("earlierRecord") {
		old := vrf.Dec("oldPrice")
		vrf.Assume(old.IsPositive())
		t0, h0 := vrf.U64("t0", 1, maxT), vrf.U64("h0", 1, maxT)
		vrf.Assume(t0 < uint64(now))
		vrf.Assume(h0 < uint64(height))
		prov := feeder.String()
		if vrf.Bool("otherProvider") {
			prov = other.String()
		}
		k.SetPrice(ctx, otypes.Price{Asset: "ATOM", Source: otypes.ELYS, Price: old, Provider: prov, Timestamp: t0, BlockHeight: h0})
	}
	srv := okeeper.NewMsgServerImpl(*k)
	var err error
	if vrf.Bool("multi") {
		_, err = srv.FeedMultiplePrices(ctx, &otypes.MsgFeedMultiplePrices{Creator: feeder.String(),
			FeedPrices: []otypes.FeedPrice{{Asset: "ATOM", Price: newPrice, Source: otypes.ELYS}}})
	} else {
		_, err = srv.FeedPrice(ctx, &otypes.MsgFeedPrice{Provider: feeder.String(),
			FeedPrice: otypes.FeedPrice{Asset: "ATOM", Price: newPrice, Source: otypes.ELYS}})
	}
	vrf.Assert(err == nil, "C16: active feeder accepted")
	if err != nil {
		return
	}
	vrf.Cover("fed")
	got, found := k.GetLatestPriceFromAssetAndSource(ctx, "ATOM", otypes.ELYS)
	vrf.Assert(found, "C16: an accepted feed is on record")
	if found {
		vrf.Assert(got.Timestamp == uint64(now) && got.BlockHeight == uint64(height), "C16: the newest record of a fed asset carries the time and height of the latest accepted feed")
		vrf.Assert(got.Price.Equal(newPrice), "C16: the newest record carries the fed value")
	}
	// the block ends: a price fed in this very block is live whatever the expiry parameters are
	k.EndBlock(ctx)
	served, ok := k.GetAssetPrice(ctx, "ATOM")
	vrf.Assert(ok, "C16: a price fed in this block is still served after the block's expiry pass")
	if ok {
		vrf.Assert(served.Timestamp == uint64(now), "C16: the served price is the most recently fed one")
	}
}

// the price-feeder set is governance's: after governance removed an account from it (or never admitted it), nothing
// that account sends on its own - switching itself on or off, deleting itself, feeding - makes it a feeder again
//
//vrf:cover removed-stays-out never-admitted-stays-out
//vrf:bound 1 account whose feeder record is absent / inactive / active (symbolic); optionally governance's MsgRemovePriceFeeders naming it; then up to two self-service messages of the account (SetPriceFeeder with a symbolic flag, DeletePriceFeeder) and a feed
func H_FeederSet_GovernanceOnly() {
	env := wire.New(wire.Opts{})
	ctx, k := env.Ctx, env.Oracle
	feeder := sdk.AccAddress([]byte("feeder______________"))
	registered, active := vrf.Bool("registered"), vrf.Bool("active")
	if registered {
		k.SetPriceFeeder(ctx, otypes.PriceFeeder{Feeder: feeder.String(), IsActive: active})
	}
	srv := okeeper.NewMsgServerImpl(*k)
	removed := vrf.Bool("governanceRemoves")
	if removed {
		_, err := srv.RemovePriceFeeders(ctx, &otypes.MsgRemovePriceFeeders{Authority: wire.Gov, Feeders: []string{feeder.String()}})
		vrf.Assert(err == nil, "C17: governance can remove a price feeder")
	}
	if registered && !removed {
		return // still a member of the set: what it may do is H_FeederGuard's subject
	}
	for i := 0; i < 2; i++ {
		switch vrf.I64("selfService"+string(rune('1'+i)), 0, 2) {
		case 0:
			srv.SetPriceFeeder(ctx, &otypes.MsgSetPriceFeeder{Feeder: feeder.String(), IsActive: vrf.Bool("flag" + string(rune('1'+i)))})
		case 1:
			srv.DeletePriceFeeder(ctx, &otypes.MsgDeletePriceFeeder{Feeder: feeder.String()})
		}
	}
	_, err := srv.FeedPrice(ctx, &otypes.MsgFeedPrice{Provider: feeder.String(),
		FeedPrice: otypes.FeedPrice{Asset: "ATOM", Price: sdkmath.LegacyNewDec(9), Source: otypes.ELYS}})
	if removed {
		vrf.Cover("removed-stays-out")
	} else {
		vrf.Cover("never-admitted-stays-out")
	}
	vrf.Assert(err != nil, "C17/C16: an account that governance removed from (or never admitted to) the price-feeder set cannot feed a price, whatever it sends itself")
	f, found := k.GetPriceFeeder(ctx, feeder)
	vrf.Assert(!found || !f.IsActive, "C17/C16: only governance adds an active price feeder")
	_, has := k.GetAssetPrice(ctx, "ATOM")
	vrf.Assert(!has, "C17/C16: no price was written by the removed account")
}
