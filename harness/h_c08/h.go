// Package h_c08: leveraged-LP pool totals equal the sum of open positions, each
// position's LP amount equals the shares committed at its own address, the counter
// equals the number of stored positions, a full close leaves nothing behind (C08);
// the vault equation survives (C06); third parties can close only when allowed and
// opens are healthy (C10). The real leveragelp, stablestake, commitment, masterchef
// and amm keepers run; the amm keeper as leveragelp sees it performs the real
// join/exit state changes with havocked share / coin amounts.
package h_c08

import (
	sdkmath "cosmossdk.io/math"
	sdk "github.com/cosmos/cosmos-sdk/types"
	authtypes "github.com/cosmos/cosmos-sdk/x/auth/types"
	acctypes "github.com/elys-network/elys/x/accountedpool/types"
	ammkeeper "github.com/elys-network/elys/x/amm/keeper"
	ammtypes "github.com/elys-network/elys/x/amm/types"
	aptypes "github.com/elys-network/elys/x/assetprofile/types"
	ctypes "github.com/elys-network/elys/x/commitment/types"
	levkeeper "github.com/elys-network/elys/x/leveragelp/keeper"
	levtypes "github.com/elys-network/elys/x/leveragelp/types"
	mctypes "github.com/elys-network/elys/x/masterchef/types"
	otypes "github.com/elys-network/elys/x/oracle/types"
	ptypes "github.com/elys-network/elys/x/parameter/types"
	perptypes "github.com/elys-network/elys/x/perpetual/types"
	sstypes "github.com/elys-network/elys/x/stablestake/types"
	vrf "github.com/elys-network/elys/zzvrf"
	"github.com/elys-network/elys/zzvrf/wire"
)

var (
	poolAddr = ammtypes.NewPoolAddress(1)
	owner    = sdk.AccAddress([]byte("owner_______________"))
	bot      = sdk.AccAddress([]byte("third_party_________"))
	commMod  = authtypes.NewModuleAddress(ctypes.ModuleName)
	ssMod    = authtypes.NewModuleAddress(sstypes.ModuleName)
	share    = ammtypes.GetPoolShareDenom(1)
)

const (
	atom = "uatom"
	usdc = "uusdc"
	now  = 1700000000
)

// ammW: the amm keeper as leveragelp sees it. Join and exit perform the real state changes
// (bank moves, mint/burn, commit/uncommit, hooks) with havocked amounts; the exit estimate used for
// the health is one symbolic value per run.
type ammW struct {
	*ammkeeper.Keeper
	est sdkmath.Int
	n   *int
}

func (a ammW) JoinPoolNoSwap(ctx sdk.Context, sender sdk.AccAddress, poolId uint64, shareOut sdkmath.Int, maxs sdk.Coins) (sdk.Coins, sdkmath.Int, error) {
	*a.n++
	tag := string(rune('0' + *a.n))
	if vrf.Bool("joinFails" + tag) {
		return nil, sdkmath.ZeroInt(), ammtypes.ErrAmountTooLow
	}
	pool, found := a.Keeper.GetPool(ctx, poolId)
	if !found {
		return nil, sdkmath.ZeroInt(), ammtypes.ErrInvalidPoolId
	}
	shares := vrf.Int("sharesMinted" + tag)
	vrf.Assume(shares.IsPositive())
	if err := pool.IncreaseLiquidity(shares, maxs); err != nil {
		return nil, sdkmath.ZeroInt(), err
	}
	if err := a.Keeper.ApplyJoinPoolStateChange(ctx, pool, sender, shares, maxs, sdkmath.LegacyZeroDec()); err != nil {
		return nil, sdkmath.ZeroInt(), err
	}
	if err := a.Keeper.RecordTotalLiquidityIncrease(ctx, maxs); err != nil {
		return nil, sdkmath.ZeroInt(), err
	}
	return maxs, shares, nil
}

func (a ammW) ExitPool(ctx sdk.Context, sender sdk.AccAddress, poolId uint64, shareIn sdkmath.Int, mins sdk.Coins, outDenom string, isLiquidation bool) (sdk.Coins, error) {
	*a.n++
	tag := string(rune('0' + *a.n))
	if vrf.Bool("exitFails" + tag) {
		return sdk.Coins{}, ammtypes.ErrAmountTooLow
	}
	pool, found := a.Keeper.GetPool(ctx, poolId)
	if !found {
		return sdk.Coins{}, ammtypes.ErrInvalidPoolId
	}
	if shareIn.GTE(pool.TotalShares.Amount) || !shareIn.IsPositive() {
		return sdk.Coins{}, ammtypes.ErrInvalidMathApprox
	}
	out := vrf.Int("exitAmount" + tag)
	vrf.Assume(out.IsPositive())
	for i := range pool.PoolAssets {
		if pool.PoolAssets[i].Token.Denom == outDenom {
			if out.GTE(pool.PoolAssets[i].Token.Amount) {
				return sdk.Coins{}, ammtypes.ErrInvalidMathApprox
			}
			pool.PoolAssets[i].Token.Amount = pool.PoolAssets[i].Token.Amount.Sub(out)
		}
	}
	pool.TotalShares.Amount = pool.TotalShares.Amount.Sub(shareIn)
	coins := sdk.Coins{sdk.NewCoin(outDenom, out)}
	if err := a.Keeper.ApplyExitPoolStateChange(ctx, pool, sender, shareIn, coins, isLiquidation); err != nil {
		return sdk.Coins{}, err
	}
	if err := a.Keeper.RecordTotalLiquidityDecrease(ctx, coins); err != nil {
		return sdk.Coins{}, err
	}
	if exitObserver != nil {
		exitObserver(ctx)
	}
	return coins, nil
}

// exitObserver (ghost): called after every exit the leveragelp keeper performs, with the context the exit ran in
var exitObserver func(ctx sdk.Context)

func (a ammW) ExitPoolEst(ctx sdk.Context, poolId uint64, shareIn sdkmath.Int, outDenom string) (sdk.Coins, sdkmath.LegacyDec, error) {
	return sdk.Coins{sdk.NewCoin(outDenom, a.est)}, sdkmath.LegacyZeroDec(), nil
}

// lockedPosition: the explicit position's shares are still under the commitment lock (set before setup)
var lockedPosition bool

type state struct {
	env                *wire.Env
	T, restLp, posLp   sdkmath.Int // amm total shares, other positions' LP, owner position's LP
	tv, cash, restDebt sdkmath.Int // vault: value, cash, other borrowers' debt
	debt               sdkmath.Int // owner position's principal
	coll               sdkmath.Int
	wallet             sdkmath.Int
	est                sdkmath.Int
	count              uint64
	hasPos             bool
	stopLoss           sdkmath.LegacyDec
}

func nonneg(name string) sdkmath.Int {
	v := vrf.Int(name)
	vrf.Assume(!v.IsNegative())
	return v
}

// setup: leverage-enabled oracle amm pool 1; hypotheses: C08 (pool total = posLp + restLp, position LP =
// committed shares at its address, counter = number of positions), C02 (supply = sum committed = custody),
// C06 (TotalValue = cash + sum of debts), C01 (bank = book)
func setup(withPosition bool) *state {
	n := 0
	s := &state{hasPos: withPosition}
	s.est = vrf.Int("exitEstimate")
	vrf.Assume(!s.est.IsNegative())
	env := wire.New(wire.Opts{LevAmm: func(real *ammkeeper.Keeper) levtypes.AmmKeeper { return ammW{real, s.est, &n} }})
	s.env = env
	env.Ctx = vrf.SetBlock(env.Ctx, 100, now)
	ctx := env.Ctx
	env.Aprof.SetEntry(ctx, aptypes.Entry{BaseDenom: ptypes.BaseCurrency, Denom: usdc, Decimals: 6, CommitEnabled: true, WithdrawEnabled: true})
	env.Aprof.SetEntry(ctx, aptypes.Entry{BaseDenom: share, Denom: share, Decimals: 18, CommitEnabled: true, WithdrawEnabled: true})
	env.Amm.SetParams(ctx, ammtypes.DefaultParams())
	env.Comm.SetParams(ctx, ctypes.DefaultParams())
	env.Mc.SetParams(ctx, mctypes.DefaultParams())
	env.Param.SetParams(ctx, ptypes.DefaultParams())
	lp := levtypes.DefaultParams()
	env.Lev.SetParams(ctx, &lp)
	env.Oracle.SetAssetInfo(ctx, otypes.AssetInfo{Denom: atom, Display: "ATOM", Decimal: 6})
	env.Oracle.SetAssetInfo(ctx, otypes.AssetInfo{Denom: usdc, Display: "USDC", Decimal: 6})
	env.Oracle.SetPrice(ctx, otypes.Price{Asset: "ATOM", Source: otypes.ELYS, Price: sdkmath.LegacyNewDec(5), Timestamp: now, BlockHeight: 100})
	env.Oracle.SetPrice(ctx, otypes.Price{Asset: "USDC", Source: otypes.ELYS, Price: sdkmath.LegacyOneDec(), Timestamp: now, BlockHeight: 100})
	big := sdkmath.NewIntWithDecimal(1, 30)
	s.T = vrf.Int("ammTotalShares")
	s.restLp = nonneg("otherPositionsLp")
	vrf.Assume(s.T.IsPositive())
	s.posLp = sdkmath.ZeroInt()
	if withPosition {
		s.posLp = vrf.Int("positionLp")
		vrf.Assume(s.posLp.IsPositive())
	}
	vrf.Assume(s.posLp.Add(s.restLp).LT(s.T))
	ammPool := ammtypes.Pool{
		PoolId: 1, Address: poolAddr.String(), RebalanceTreasury: ammtypes.NewPoolRebalanceTreasury(1).String(),
		PoolParams:  ammtypes.PoolParams{UseOracle: true, SwapFee: sdkmath.LegacyZeroDec(), FeeDenom: usdc},
		TotalShares: sdk.Coin{Denom: share, Amount: s.T},
		PoolAssets: []ammtypes.PoolAsset{
			{Token: sdk.Coin{Denom: atom, Amount: big}, Weight: sdkmath.NewInt(1), ExternalLiquidityRatio: sdkmath.LegacyOneDec()},
			{Token: sdk.Coin{Denom: usdc, Amount: big}, Weight: sdkmath.NewInt(1), ExternalLiquidityRatio: sdkmath.LegacyOneDec()},
		},
		TotalWeight: sdkmath.NewInt(2),
	}
	env.Amm.SetPool(ctx, ammPool)
	for _, d := range []string{atom, usdc} {
		env.W.SetBal(poolAddr, d, big)
		env.Amm.SetDenomLiquidity(ctx, ammtypes.DenomLiquidity{Denom: d, Liquidity: big})
	}
	env.Mc.InitPoolParams(ctx, 1)
	// the perpetual pool created when leverage was enabled on the pool (no perpetual positions) and its accounted pool
	pdef := perptypes.DefaultParams()
	env.Perp.SetParams(ctx, &pdef)
	ppool := perptypes.NewPool(ammPool)
	for i := range ppool.PoolAssetsLong {
		z := sdkmath.ZeroInt()
		ppool.PoolAssetsLong[i].Collateral, ppool.PoolAssetsLong[i].TakeProfitCustody, ppool.PoolAssetsLong[i].TakeProfitLiabilities = z, z, z
		ppool.PoolAssetsShort[i].Collateral, ppool.PoolAssetsShort[i].TakeProfitCustody, ppool.PoolAssetsShort[i].TakeProfitLiabilities = z, z, z
	}
	env.Perp.SetPool(ctx, ppool)
	acc := acctypes.AccountedPool{PoolId: 1}
	for _, d := range []string{atom, usdc} {
		acc.TotalTokens = append(acc.TotalTokens, sdk.Coin{Denom: d, Amount: big})
		acc.NonAmmPoolTokens = append(acc.NonAmmPoolTokens, sdk.Coin{Denom: d, Amount: sdkmath.ZeroInt()})
	}
	env.Acc.SetAccountedPool(ctx, acc)
	env.W.Supply[share] = s.T
	env.W.SetBal(commMod, share, s.T)
	cp := env.Comm.GetParams(ctx)
	cp.TotalCommitted = sdk.Coins{sdk.NewCoin(share, s.T)}
	env.Comm.SetParams(ctx, cp)
	// leveragelp pool
	pool := levtypes.NewPool(1, sdkmath.LegacyNewDec(10))
	pool.LeveragedLpAmount = s.posLp.Add(s.restLp)
	env.Lev.SetPool(ctx, pool)
	// vault
	s.tv, s.cash, s.restDebt = nonneg("vaultTV"), nonneg("vaultCash"), nonneg("otherDebts")
	s.debt = sdkmath.ZeroInt()
	sp := sstypes.DefaultParams()
	s.count = vrf.U64("openCount", 0, 1000)
	if withPosition {
		s.debt = vrf.Int("positionDebt")
		vrf.Assume(s.debt.IsPositive())
		s.coll = vrf.Int("positionCollateral")
		vrf.Assume(s.coll.IsPositive())
		s.stopLoss = vrf.Dec("stopLossPrice")
		vrf.Assume(!s.stopLoss.IsNegative())
		p := levtypes.NewPosition(owner.String(), sdk.NewCoin(usdc, s.coll), 1)
		p.Id = 1
		p.LeveragedLpAmount, p.Liabilities, p.StopLossPrice = s.posLp, s.debt, s.stopLoss
		env.Lev.SetPosition(ctx, p)
		env.Lev.SetPositionCount(ctx, 1)
		s.count++
		c := env.Comm.GetCommitments(ctx, p.GetPositionAddress())
		unlock := uint64(0)
		if lockedPosition {
			unlock = now + 3600 // the one-hour lock of an oracle-pool join, not yet expired
		}
		c.AddCommittedTokens(share, s.posLp, unlock)
		env.Comm.SetCommitments(ctx, c)
		env.Stable.SetDebt(ctx, sstypes.Debt{Address: p.GetPositionAddress().String(), Borrowed: s.debt, InterestStacked: sdkmath.ZeroInt(), InterestPaid: sdkmath.ZeroInt(),
			BorrowTime: now, LastInterestCalcTime: now, LastInterestCalcBlock: 100})
	}
	env.Lev.SetOpenPositionCount(ctx, s.count)
	vrf.Assume(s.tv.Equal(s.cash.Add(s.restDebt).Add(s.debt))) // C06 hypothesis
	sp.TotalValue = s.tv
	env.Stable.SetParams(ctx, sp)
	env.W.SetBal(ssMod, usdc, s.cash)
	s.wallet = nonneg("ownerWallet")
	env.W.SetBal(owner, usdc, s.wallet)
	return s
}

// check re-establishes C08 and C06 for the owner's position (id) if it still exists
func (s *state) check(label string, id uint64) {
	env, ctx := s.env, s.env.Ctx
	pool, found := env.Lev.GetPool(ctx, 1)
	vrf.Assert(found, label+": leveragelp pool still stored")
	posAddr := levtypes.GetPositionAddress(id)
	cm := env.Comm.GetCommitments(ctx, posAddr)
	committed := cm.GetCommittedAmountForDenom(share)
	p, err := env.Lev.GetPosition(ctx, owner, id)
	stored := uint64(0)
	lp := sdkmath.ZeroInt()
	if err == nil {
		stored = 1
		lp = p.LeveragedLpAmount
	} else {
		vrf.Cover("position-gone")
		vrf.Assert(committed.IsZero(), "C08 "+label+": a removed position leaves none of its shares behind")
	}
	vrf.Observe("committed", committed)
	vrf.Assert(lp.Equal(committed), "C08 "+label+": position LP amount == shares committed at the position's address")
	vrf.Assert(pool.LeveragedLpAmount.Equal(lp.Add(s.restLp)), "C08 "+label+": pool leveraged-LP total == sum over open positions")
	others := s.count
	if s.hasPos {
		others--
	}
	vrf.Assert(env.Lev.GetOpenPositionCount(ctx) == others+stored, "C08 "+label+": open-position counter == number of stored positions")
	// C02: supply == custody == committed everywhere
	vrf.Assert(env.W.SupplyOf(share).Equal(env.W.BalOf(commMod, share)), "C02 "+label+": every LP share is in commitment custody")
	// C06: TotalValue == cash + sum of debts
	sum := env.W.BalOf(ssMod, usdc).Add(s.restDebt)
	for _, d := range env.Stable.GetAllDebts(ctx) {
		sum = sum.Add(d.Borrowed).Add(d.InterestStacked).Sub(d.InterestPaid)
	}
	vrf.Assert(env.Stable.GetParams(ctx).TotalValue.Equal(sum), "C06 "+label+": vault TotalValue == cash + sum(principal + accrued - paid)")
}

// open of a new position
//
//vrf:cover open-ok
//vrf:bound 1 new position from a symbolic pool / vault state (other positions and borrowers folded into symbolic sums); leverage in (1, 10], collateral symbolic; join amount havocked
//vrf:max-paths 3000
func H_Open_New() {
	s := setup(false)
	env, ctx := s.env, s.env.Ctx
	coll := vrf.Int("collateral")
	vrf.Assume(coll.IsPositive())
	vrf.Assume(coll.LTE(sdkmath.NewIntWithDecimal(1, 15)))
	lev := vrf.Dec("leverage")
	vrf.Assume(lev.GT(sdkmath.LegacyOneDec()))
	vrf.Assume(lev.LTE(sdkmath.LegacyNewDec(10)))
	_, err := env.Lev.Open(ctx, &levtypes.MsgOpen{Creator: owner.String(), CollateralAsset: usdc, CollateralAmount: coll, AmmPoolId: 1, Leverage: lev, StopLossPrice: sdkmath.LegacyZeroDec()})
	if err != nil {
		return // failed transaction: rolled back by baseapp
	}
	vrf.Cover("open-ok")
	id := env.Lev.GetPositionCount(ctx)
	p, gerr := env.Lev.GetPosition(ctx, owner, id)
	vrf.Assert(gerr == nil, "C08 open: the new position is stored")
	vrf.Assert(p.PositionHealth.GT(levtypes.DefaultParams().SafetyFactor), "C10 open: a successful open leaves health strictly above the safety factor")
	vrf.Assert(env.W.BalOf(owner, usdc).Equal(s.wallet.Sub(coll)), "C08 open: the owner pays exactly the collateral")
	s.check("open", id)
}

// close by the owner (partial or full)
//
//vrf:cover close-ok position-gone
//vrf:bound 1 existing position; requested LP amount symbolic (<= 0 / > position = full); exit amount havocked; shortfall and surplus both reachable
//vrf:max-paths 3000
func H_Close_ByOwner() {
	s := setup(true)
	env, ctx := s.env, s.env.Ctx
	amt := vrf.Int("closeLp")
	_, err := env.Lev.Close(ctx, &levtypes.MsgClose{Creator: owner.String(), Id: 1, LpAmount: amt})
	if err != nil {
		return
	}
	vrf.Cover("close-ok")
	s.check("close", 1)
}

// close-positions from a third party: liquidate list
//
//vrf:cover untouched liquidated
//vrf:bound 1 existing position named in the liquidate list by a third party; errors are swallowed by the handler, so partial effects are part of the step
//vrf:max-paths 3000
func H_ClosePositions_Liquidate() {
	s := setup(true)
	env, ctx := s.env, s.env.Ctx
	srv := levkeeper.NewMsgServerImpl(*env.Lev)
	_, err := srv.ClosePositions(ctx, &levtypes.MsgClosePositions{Creator: bot.String(), Liquidate: []*levtypes.PositionRequest{{Address: owner.String(), Id: 1}}})
	if err != nil {
		return
	}
	// health as the keeper computes it: exit estimate / debt
	healthy := s.est.ToLegacyDec().Quo(s.debt.ToLegacyDec()).GT(levtypes.DefaultParams().SafetyFactor)
	cm := env.Comm.GetCommitments(ctx, levtypes.GetPositionAddress(1))
	touched := !cm.GetCommittedAmountForDenom(share).Equal(s.posLp) || !env.W.BalOf(owner, usdc).Equal(s.wallet)
	if touched {
		vrf.Cover("liquidated")
		vrf.Assert(!healthy, "C10: a third party can liquidate a leveraged-LP position only when health <= safety factor")
	} else {
		vrf.Cover("untouched")
	}
	s.check("close-positions(liquidate)", 1)
}

// close-positions naming the same position more than once (twice in the liquidate list, or in the liquidate and the
// stop-loss list): whatever the first entry did, the later entry works on the position as it is then
//
//vrf:cover done position-gone
//vrf:bound 1 existing position named twice in one MsgClosePositions by a third party (symbolic: liquidate+liquidate or liquidate+stop-loss); exit amounts havocked
//vrf:max-paths 4000
func H_ClosePositions_SamePositionTwice() {
	s := setup(true)
	env, ctx := s.env, s.env.Ctx
	srv := levkeeper.NewMsgServerImpl(*env.Lev)
	req := &levtypes.PositionRequest{Address: owner.String(), Id: 1}
	msg := &levtypes.MsgClosePositions{Creator: bot.String(), Liquidate: []*levtypes.PositionRequest{req}, StopLoss: []*levtypes.PositionRequest{req}}
	if vrf.Bool("twiceInLiquidateList") {
		msg = &levtypes.MsgClosePositions{Creator: bot.String(), Liquidate: []*levtypes.PositionRequest{req, req}}
	}
	if _, err := srv.ClosePositions(ctx, msg); err != nil {
		return
	}
	vrf.Cover("done")
	s.check("close-positions(same position twice)", 1)
}

// governance's pool messages on a pool that has open positions: MsgAddPool for the pool that is already enabled (any
// leverage cap) and MsgRemovePool - accepted or refused, the pool total still equals the sum over the open positions
//
//vrf:cover done
//vrf:bound 1 existing position + symbolic remainder; MsgAddPool (symbolic leverage cap) or MsgRemovePool for its pool from the governance authority
func H_Gov_PoolMessages_KeepTotals() {
	s := setup(true)
	env, ctx := s.env, s.env.Ctx
	srv := levkeeper.NewMsgServerImpl(*env.Lev)
	if vrf.Bool("removePool") {
		_, err := srv.RemovePool(ctx, &levtypes.MsgRemovePool{Authority: wire.Gov, Id: 1})
		if err == nil {
			vrf.Assert(false, "C08: a pool with open positions cannot be removed")
			return
		}
	} else {
		lm := vrf.Dec("leverageMax")
		vrf.Assume(lm.GTE(sdkmath.LegacyOneDec()))
		vrf.Assume(lm.LTE(sdkmath.LegacyNewDec(100)))
		srv.AddPool(ctx, &levtypes.MsgAddPool{Authority: wire.Gov, Pool: levtypes.AddPool{AmmPoolId: 1, LeverageMax: lm}})
	}
	vrf.Cover("done")
	s.check("governance pool message", 1)
}

// owner-only close sent by someone else
//
//vrf:cover refused
func H_Close_ByOther() {
	s := setup(true)
	env, ctx := s.env, s.env.Ctx
	before := env.W.TotalWrites()
	_, err := env.Lev.Close(ctx, &levtypes.MsgClose{Creator: bot.String(), Id: 1, LpAmount: vrf.Int("closeLp")})
	vrf.Cover("refused")
	vrf.Assert(err != nil, "C10/C17: closing someone else's leveraged-LP position is refused")
	vrf.Assert(env.W.TotalWrites() == before, "C10/C17: a refused close changes nothing")
}

// ---- two positions of one pool processed in one pass ----

var owner2 = sdk.AccAddress([]byte("owner_two___________"))

// setupTwo: setup(true) plus a second position (id 2, another owner) carved out of the symbolic remainders
// (its LP amount out of the other positions' LP, its debt out of the other borrowers' debt)
func setupTwo() (*state, sdkmath.Int, sdkmath.Int) {
	s := setup(true)
	env, ctx := s.env, s.env.Ctx
	lp2, debt2 := vrf.Int("position2Lp"), vrf.Int("position2Debt")
	vrf.Assume(lp2.IsPositive())
	vrf.Assume(debt2.IsPositive())
	vrf.Assume(lp2.LTE(s.restLp))
	vrf.Assume(debt2.LTE(s.restDebt))
	s.restLp = s.restLp.Sub(lp2)
	s.restDebt = s.restDebt.Sub(debt2)
	vrf.Assume(s.count >= 2) // the counter already counts it
	coll2 := vrf.Int("position2Collateral")
	vrf.Assume(coll2.IsPositive())
	p := levtypes.NewPosition(owner2.String(), sdk.NewCoin(usdc, coll2), 1)
	p.Id = 2
	p.LeveragedLpAmount, p.Liabilities, p.StopLossPrice = lp2, debt2, stopLoss2
	env.Lev.SetPosition(ctx, p)
	env.Lev.SetPositionCount(ctx, 2)
	c := env.Comm.GetCommitments(ctx, p.GetPositionAddress())
	c.AddCommittedTokens(share, lp2, 0)
	env.Comm.SetCommitments(ctx, c)
	env.Stable.SetDebt(ctx, sstypes.Debt{Address: p.GetPositionAddress().String(), Borrowed: debt2, InterestStacked: sdkmath.ZeroInt(), InterestPaid: sdkmath.ZeroInt(),
		BorrowTime: now, LastInterestCalcTime: now, LastInterestCalcBlock: 100})
	return s, lp2, debt2
}

// checkTwo: C08 over both explicit positions and the remainder
func (s *state) checkTwo(label string) {
	env, ctx := s.env, s.env.Ctx
	pool, found := env.Lev.GetPool(ctx, 1)
	vrf.Assert(found, label+": leveragelp pool still stored")
	sum := s.restLp
	stored := uint64(0)
	for id, who := range []sdk.AccAddress{owner, owner2} {
		pid := uint64(id + 1)
		cm := env.Comm.GetCommitments(ctx, levtypes.GetPositionAddress(pid))
		committed := cm.GetCommittedAmountForDenom(share)
		lp := sdkmath.ZeroInt()
		if p, err := env.Lev.GetPosition(ctx, who, pid); err == nil {
			stored++
			lp = p.LeveragedLpAmount
		} else {
			vrf.Cover("position-gone")
		}
		vrf.Assert(lp.Equal(committed), "C08 "+label+": position LP amount == shares committed at the position's address")
		sum = sum.Add(lp)
	}
	vrf.Assert(pool.LeveragedLpAmount.Equal(sum), "C08 "+label+": pool leveraged-LP total == sum over open positions (two closes in one pass)")
	vrf.Assert(env.Lev.GetOpenPositionCount(ctx) == s.count-2+stored, "C08 "+label+": open-position counter == number of stored positions")
	tot := env.W.BalOf(ssMod, usdc).Add(s.restDebt)
	for _, d := range env.Stable.GetAllDebts(ctx) {
		tot = tot.Add(d.Borrowed).Add(d.InterestStacked).Sub(d.InterestPaid)
	}
	vrf.Assert(env.Stable.GetParams(ctx).TotalValue.Equal(tot), "C06 "+label+": vault TotalValue == cash + sum(principal + accrued - paid)")
}

// the begin-blocker's fallback pass over two positions of the same pool (liquidations and stop-loss closes)
//
//vrf:cover position-gone done
//vrf:bound 2 explicit positions of one pool + symbolic remainder; one pass of the begin-blocker (epoch length 1, page of 1000)
//vrf:max-paths 4000
func H_BeginBlocker_TwoPositions() {
	s, _, _ := setupTwo()
	s.env.Lev.BeginBlocker(s.env.Ctx)
	vrf.Cover("done")
	s.checkTwo("begin-blocker")
}

// close-positions naming both positions in its liquidate list
//
//vrf:cover position-gone done
//vrf:bound 2 explicit positions of one pool named in one MsgClosePositions by a third party
//vrf:max-paths 4000
func H_ClosePositions_Two() {
	s, _, _ := setupTwo()
	env, ctx := s.env, s.env.Ctx
	srv := levkeeper.NewMsgServerImpl(*env.Lev)
	_, err := srv.ClosePositions(ctx, &levtypes.MsgClosePositions{Creator: bot.String(), Liquidate: []*levtypes.PositionRequest{{Address: owner.String(), Id: 1}, {Address: owner2.String(), Id: 2}}})
	if err != nil {
		return
	}
	vrf.Cover("done")
	s.checkTwo("close-positions(two)")
}

// open by an owner who already holds a position of the same pool and collateral: consolidated into it
//
//vrf:cover open-ok top-up
//vrf:bound 1 existing position (of any health) + symbolic remainder; consolidating open with symbolic collateral and leverage in [1, 10] (1 = top-up without borrowing); join amount havocked
//vrf:max-paths 3000
func H_Open_Consolidate() {
	s := setup(true)
	env, ctx := s.env, s.env.Ctx
	coll := vrf.Int("collateral")
	vrf.Assume(coll.IsPositive())
	vrf.Assume(coll.LTE(sdkmath.NewIntWithDecimal(1, 15)))
	lev := vrf.Dec("leverage")
	vrf.Assume(lev.GTE(sdkmath.LegacyOneDec())) // leverage 1 = a pure collateral top-up, nothing is borrowed
	vrf.Assume(lev.LTE(sdkmath.LegacyNewDec(10)))
	_, err := env.Lev.Open(ctx, &levtypes.MsgOpen{Creator: owner.String(), CollateralAsset: usdc, CollateralAmount: coll, AmmPoolId: 1, Leverage: lev, StopLossPrice: sdkmath.LegacyZeroDec()})
	if err != nil {
		return // failed transaction: rolled back by baseapp
	}
	vrf.Cover("open-ok")
	if lev.Equal(sdkmath.LegacyOneDec()) {
		vrf.Cover("top-up")
	}
	// health as the keeper computes it (exit estimate over the debt), recomputed from the stored debt
	d := env.Stable.GetDebt(ctx, levtypes.GetPositionAddress(1))
	vrf.Assert(s.est.ToLegacyDec().Quo(d.GetTotalLiablities().ToLegacyDec()).GT(levtypes.DefaultParams().SafetyFactor), "C10 consolidate: a successful consolidating re-open (a pure collateral top-up included) leaves the position's health strictly above the safety factor")
	vrf.Assert(env.Lev.GetPositionCount(ctx) == 1, "C08 consolidate: no new position id is allocated")
	vrf.Assert(env.W.BalOf(owner, usdc).Equal(s.wallet.Sub(coll)), "C08 consolidate: the owner pays exactly the collateral")
	s.check("open-consolidate", 1)
}

// stopLoss2: stop-loss price of the second explicit position (0 = not set unless a harness makes it symbolic before setupTwo)
var stopLoss2 = sdkmath.LegacyZeroDec()

// the begin-blocker sweep over two positions of one pool, seen from C10: a position that the sweep closes although
// it is healthy must have a stop-loss price set, and the market LP price (accounted TVL per share) must have been at
// or below it at some moment of the sweep - before it, or after an earlier exit of the same sweep changed the pool.
//
//vrf:cover done closed-at-stop-loss
//vrf:bound 2 explicit positions of one pool with symbolic stop-loss prices + symbolic remainder; one pass of the begin-blocker; exit amounts havocked (the LP price after an exit is arbitrary); share supply <= 1e40
//vrf:max-paths 6000
func H_BeginBlocker_TwoPositions_StopLossGate() {
	stopLoss2 = vrf.Dec("stopLossPrice2")
	vrf.Assume(!stopLoss2.IsNegative())
	s, lp2, debt2 := setupTwo()
	env, ctx := s.env, s.env.Ctx
	vrf.Assume(s.T.LTE(sdkmath.NewIntWithDecimal(1, 40)))
	price := func(c sdk.Context) (sdkmath.LegacyDec, bool) {
		ap, _ := env.Amm.GetPool(c, 1)
		m, err := ap.LpTokenPrice(c, env.Oracle, env.Acc)
		return m, err == nil
	}
	p0, ok0 := price(ctx)
	vrf.Assume(ok0)
	seen := []sdkmath.LegacyDec{}
	exitObserver = func(c sdk.Context) {
		if m, ok := price(c); ok {
			seen = append(seen, m)
		}
	}
	env.Lev.BeginBlocker(ctx)
	exitObserver = nil
	vrf.Cover("done")
	sf := levtypes.DefaultParams().SafetyFactor
	type pos struct {
		id       uint64
		who      sdk.AccAddress
		lp, debt sdkmath.Int
		sl       sdkmath.LegacyDec
		wallet   sdkmath.Int
	}
	for _, q := range []pos{{1, owner, s.posLp, s.debt, s.stopLoss, s.wallet}, {2, owner2, lp2, debt2, stopLoss2, sdkmath.ZeroInt()}} {
		cm := env.Comm.GetCommitments(ctx, levtypes.GetPositionAddress(q.id))
		touched := !cm.GetCommittedAmountForDenom(share).Equal(q.lp) || !env.W.BalOf(q.who, usdc).Equal(q.wallet)
		healthy := s.est.ToLegacyDec().Quo(q.debt.ToLegacyDec()).GT(sf)
		if !touched || !healthy {
			continue
		}
		vrf.Cover("closed-at-stop-loss")
		vrf.Assert(!q.sl.IsZero(), "C10 sweep: a healthy position without a stop-loss price is not closed by the chain's sweep")
		// the lowest market price the sweep can have seen for this position: before the sweep, or after an earlier exit
		// (the last recorded price is the one after this position's own exit)
		low := p0
		for i := 0; i+1 < len(seen); i++ {
			if seen[i].LT(low) {
				low = seen[i]
			}
		}
		vrf.Assert(low.LTE(q.sl), "C10 sweep: a healthy position is closed by the chain's sweep only when the market LP price (accounted TVL over the current share supply) has reached its stop-loss price")
	}
}

// SetupTwoPositions exposes the two-position state to other harness packages (C18).
func SetupTwoPositions() *wire.Env {
	s, _, _ := setupTwo()
	return s.env
}

// the owner's close while the position's shares are still under the one-hour commitment lock (whatever the
// position's health): only a real liquidation may override the lock
//
//vrf:cover refused
//vrf:bound 1 existing position whose committed shares are all under an unexpired lock; owner's MsgClose with a symbolic LP amount; exit estimate (health) symbolic
//vrf:max-paths 3000
func H_Close_ByOwner_WhileLocked() {
	lockedPosition = true
	s := setup(true)
	env, ctx := s.env, s.env.Ctx
	amt := vrf.Int("closeLp")
	_, err := env.Lev.Close(ctx, &levtypes.MsgClose{Creator: owner.String(), Id: 1, LpAmount: amt})
	if err != nil {
		vrf.Cover("refused")
		return // failed transaction: rolled back by baseapp
	}
	cm := env.Comm.GetCommitments(ctx, levtypes.GetPositionAddress(1))
	vrf.Assert(cm.GetCommittedAmountForDenom(share).Equal(s.posLp), "C12: shares under an unexpired lock are not withdrawn by their owner's close, healthy or not (only a liquidation overrides the lock)")
}

// close-positions from a third party: stop-loss list. The position may change only if a stop-loss price is set
// (non-zero) and the market LP-token price (the pool's accounted TVL per share) is at or below it.
//
//vrf:cover untouched closed
//vrf:bound 1 existing position named in the stop-loss list by a third party; stop-loss price symbolic >= 0; the accounted pool exceeds the amm reserves by a symbolic amount (liquidity lent to perpetual positions); oracle prices present or absent
//vrf:max-paths 3000
func H_ClosePositions_StopLoss() {
	s := setup(true)
	env, ctx := s.env, s.env.Ctx
	// liquidity of the pool that is lent out: the accounted pool is larger than the amm reserves
	extra := nonneg("accountedExtraUsdc")
	vrf.Assume(extra.LTE(sdkmath.NewIntWithDecimal(1, 30)))
	acc, _ := env.Acc.GetAccountedPool(ctx, 1)
	for i := range acc.TotalTokens {
		if acc.TotalTokens[i].Denom == usdc {
			acc.TotalTokens[i].Amount = acc.TotalTokens[i].Amount.Add(extra)
			acc.NonAmmPoolTokens[i].Amount = acc.NonAmmPoolTokens[i].Amount.Add(extra)
		}
	}
	env.Acc.SetAccountedPool(ctx, acc)
	if vrf.Bool("oracleOutage") {
		env.Oracle.RemovePrice(ctx, "ATOM", otypes.ELYS, now)
		env.Oracle.RemovePrice(ctx, "USDC", otypes.ELYS, now)
	}
	// share supplies are at most 1e40 here (a pool starts with 1e20 shares for its first deposit): with the reserves of
	// the setup (1e30 each) the LP price is far from rounding to zero
	vrf.Assume(s.T.LTE(sdkmath.NewIntWithDecimal(1, 40)))
	ammPool, _ := env.Amm.GetPool(ctx, 1)
	market, perr := ammPool.LpTokenPrice(ctx, env.Oracle, env.Acc)
	srv := levkeeper.NewMsgServerImpl(*env.Lev)
	_, err := srv.ClosePositions(ctx, &levtypes.MsgClosePositions{Creator: bot.String(), StopLoss: []*levtypes.PositionRequest{{Address: owner.String(), Id: 1}}})
	if err != nil {
		return
	}
	cm := env.Comm.GetCommitments(ctx, levtypes.GetPositionAddress(1))
	touched := !cm.GetCommittedAmountForDenom(share).Equal(s.posLp) || !env.W.BalOf(owner, usdc).Equal(s.wallet)
	if !touched {
		vrf.Cover("untouched")
		s.check("close-positions(stop-loss)", 1)
		return
	}
	vrf.Cover("closed")
	vrf.Assert(perr == nil, "C10: a stop-loss close needs a market price")
	vrf.Assert(!s.stopLoss.IsZero(), "C10: a position without a stop-loss price (0 = not set) cannot be closed at stop-loss by a third party")
	if perr == nil {
		vrf.Assert(market.LTE(s.stopLoss), "C10: a third party can close at stop-loss only when the market LP price (accounted TVL per share) has reached the stop-loss price")
	}
	s.check("close-positions(stop-loss)", 1)
}

// ---- the tier module's portfolio valuation is read-only ----

// The tier hooks run inside other modules' transactions (after a bond, an unbond, a join, an open ...) and value the
// user's holdings. The ledger harnesses leave them out under the frame contract "tier writes the tier store only";
// here the valuation functions themselves run on a state with a leveraged-LP position (vault debt included) and must
// not write anything: no interest is booked, no debt record or vault total changes while a portfolio is valued.
//
//vrf:cover valued
//vrf:bound 1 leveraged-LP position of the user with a symbolic vault debt last accrued 10 blocks / 60 s ago; the tier keeper's leverage-LP, pool, liquid-asset and tradeshield valuations
//vrf:max-paths 3000
func H_Tier_PortfolioValuation_ReadOnly() {
	s := setup(true)
	env, ctx := s.env, s.env.Ctx
	// the position's debt was last accrued some time ago: there is pending interest to book for whoever "updates" it
	d := env.Stable.GetDebt(ctx, levtypes.GetPositionAddress(1))
	d.LastInterestCalcTime, d.LastInterestCalcBlock = now-60, 90
	env.Stable.SetDebt(ctx, d)
	tv := env.Stable.GetParams(ctx).TotalValue
	before := env.W.TotalWrites()
	env.Tier.RetrieveLeverageLpTotal(ctx, owner)
	vrf.Assert(env.W.TotalWrites() == before, "C07/C06: valuing a user's leveraged-LP positions for the tier portfolio writes nothing (no interest is booked on the side)")
	vrf.Assert(env.Stable.GetParams(ctx).TotalValue.Equal(tv), "C07/C06: the vault's TotalValue is untouched by a portfolio valuation")
	env.Tier.RetrievePoolTotal(ctx, owner)
	env.Tier.RetrieveLiquidAssetsTotal(ctx, owner)
	env.Tier.RetrieveTradeshieldTotal(ctx, owner)
	vrf.Cover("valued")
	vrf.Assert(env.W.TotalWrites() == before, "C07/C06: the tier module's portfolio valuation functions are read-only")
}
