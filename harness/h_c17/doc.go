// Package h_c17: governance-only and owner-only messages are refused from anyone
// else, leaving the state untouched. The governance part (zz_gen.go) is generated
// on every run by the driver from /repo's current source: see engine/cmd/gosymx/gen17.go.
package h_c17
