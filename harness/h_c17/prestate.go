package h_c17

import (
	aptypes "github.com/elys-network/elys/x/assetprofile/types"
	tktypes "github.com/elys-network/elys/x/tokenomics/types"
	"github.com/elys-network/elys/zzvrf/wire"
)

// adversarialState puts the state in the position most favourable to the non-governance sender before a
// governance-only handler runs: every object the message names exists and is recorded as owned by the
// sender (so that a stored-owner check, if it were the only guard, would let the message through).
func adversarialState(env *wire.Env, msg interface{}, sender string) {
	ctx := env.Ctx
	switch m := msg.(type) {
	case *aptypes.MsgUpdateEntry:
		env.Aprof.SetEntry(ctx, aptypes.Entry{BaseDenom: m.BaseDenom, Denom: m.BaseDenom, Decimals: 6, Authority: sender})
	case *aptypes.MsgDeleteEntry:
		env.Aprof.SetEntry(ctx, aptypes.Entry{BaseDenom: m.BaseDenom, Denom: m.BaseDenom, Decimals: 6, Authority: sender})
	case *tktypes.MsgUpdateAirdrop:
		env.Tokenomics.SetAirdrop(ctx, tktypes.Airdrop{Intent: m.Intent, Authority: sender})
	case *tktypes.MsgDeleteAirdrop:
		env.Tokenomics.SetAirdrop(ctx, tktypes.Airdrop{Intent: m.Intent, Authority: sender})
	case *tktypes.MsgUpdateTimeBasedInflation:
		env.Tokenomics.SetTimeBasedInflation(ctx, tktypes.TimeBasedInflation{StartBlockHeight: m.StartBlockHeight, EndBlockHeight: m.EndBlockHeight, Authority: sender})
	case *tktypes.MsgDeleteTimeBasedInflation:
		env.Tokenomics.SetTimeBasedInflation(ctx, tktypes.TimeBasedInflation{StartBlockHeight: m.StartBlockHeight, EndBlockHeight: m.EndBlockHeight, Authority: sender})
	}
}
