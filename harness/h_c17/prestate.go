package h_c17

import (
	sdkmath "cosmossdk.io/math"
	sdk "github.com/cosmos/cosmos-sdk/types"
	acctypes "github.com/elys-network/elys/x/accountedpool/types"
	ammtypes "github.com/elys-network/elys/x/amm/types"
	aptypes "github.com/elys-network/elys/x/assetprofile/types"
	levtypes "github.com/elys-network/elys/x/leveragelp/types"
	ptypes "github.com/elys-network/elys/x/parameter/types"
	perptypes "github.com/elys-network/elys/x/perpetual/types"
	tktypes "github.com/elys-network/elys/x/tokenomics/types"
	"github.com/elys-network/elys/zzvrf/wire"
)

// adversarialState puts the state in the position most favourable to the non-governance sender before a
// governance-only handler runs: every object the message names exists and is recorded as owned by the
// sender (so that a stored-owner check, if it were the only guard, would let the message through).
func adversarialState(env *wire.Env, msg interface{}, sender string) {
	ctx := env.Ctx
	// pool 1 exists in every module that keeps per-pool records, so that "pool not found" is never the reason a
	// governance-only message about a pool is refused
	env.Aprof.SetEntry(ctx, aptypes.Entry{BaseDenom: ptypes.BaseCurrency, Denom: "uusdc", Decimals: 6, Authority: sender})
	ammPool := ammtypes.Pool{
		PoolId: 1, Address: ammtypes.NewPoolAddress(1).String(), RebalanceTreasury: ammtypes.NewPoolRebalanceTreasury(1).String(),
		PoolParams:  ammtypes.PoolParams{UseOracle: true, SwapFee: sdkmath.LegacyZeroDec(), FeeDenom: "uusdc"},
		TotalShares: sdk.Coin{Denom: ammtypes.GetPoolShareDenom(1), Amount: sdkmath.NewInt(1000000)},
		PoolAssets: []ammtypes.PoolAsset{
			{Token: sdk.Coin{Denom: "uatom", Amount: sdkmath.NewInt(1000000)}, Weight: sdkmath.NewInt(1), ExternalLiquidityRatio: sdkmath.LegacyOneDec()},
			{Token: sdk.Coin{Denom: "uusdc", Amount: sdkmath.NewInt(1000000)}, Weight: sdkmath.NewInt(1), ExternalLiquidityRatio: sdkmath.LegacyOneDec()},
		},
		TotalWeight: sdkmath.NewInt(2),
	}
	env.Amm.SetPool(ctx, ammPool)
	env.Perp.SetPool(ctx, perptypes.NewPool(ammPool))
	env.Lev.SetPool(ctx, levtypes.NewPool(1, sdkmath.LegacyNewDec(10)))
	env.Mc.InitPoolParams(ctx, 1)
	env.Acc.SetAccountedPool(ctx, acctypes.AccountedPool{PoolId: 1, TotalTokens: sdk.Coins{}, NonAmmPoolTokens: sdk.Coins{}})
	switch m := msg.(type) {
	case *aptypes.MsgUpdateEntry:
		env.Aprof.SetEntry(ctx, aptypes.Entry{BaseDenom: m.BaseDenom, Denom: m.BaseDenom, Decimals: 6, Authority: sender})
	case *aptypes.MsgDeleteEntry:
		env.Aprof.SetEntry(ctx, aptypes.Entry{BaseDenom: m.BaseDenom, Denom: m.BaseDenom, Decimals: 6, Authority: sender})
	case *tktypes.MsgUpdateAirdrop:
		env.Tokenomics.SetAirdrop(ctx, tktypes.Airdrop{Intent: m.Intent, Authority: sender})
	case *tktypes.MsgDeleteAirdrop:
		env.Tokenomics.SetAirdrop(ctx, tktypes.Airdrop{Intent: m.Intent, Authority: sender})
	case *tktypes.MsgUpdateTimeBasedInflation:
		env.Tokenomics.SetTimeBasedInflation(ctx, tktypes.TimeBasedInflation{StartBlockHeight: m.StartBlockHeight, EndBlockHeight: m.EndBlockHeight, Authority: sender})
	case *tktypes.MsgDeleteTimeBasedInflation:
		env.Tokenomics.SetTimeBasedInflation(ctx, tktypes.TimeBasedInflation{StartBlockHeight: m.StartBlockHeight, EndBlockHeight: m.EndBlockHeight, Authority: sender})
	}
}
