package h_c17

import (
	"github.com/elys-network/elys/zzvrf/h_c08"
	"github.com/elys-network/elys/zzvrf/h_c10"
	"github.com/elys-network/elys/zzvrf/h_c16"
	"github.com/elys-network/elys/zzvrf/h_c20"
)

// Owner-scoped messages (the second half of the property): the harnesses live with the ledgers they protect and are
// re-run here; each sends the owner-only message from someone else (symbolic choice where both are covered) and
// requires an error and no write.

//vrf:cover other-refused owner-cancelled owner-updated
//vrf:bound see h_c20.H_Spot_UpdateCancel (single and batch forms)
func H_Owner_Tradeshield_SpotUpdateCancel() { h_c20.H_Spot_UpdateCancel() }

//vrf:cover other-refused owner-cancelled
//vrf:bound see h_c20.H_Perp_Cancel (single and batch forms)
func H_Owner_Tradeshield_PerpCancel() { h_c20.H_Perp_Cancel() }

//vrf:cover refused
//vrf:bound see h_c10.H_Perp_OwnerOnly_ByOther (Close, UpdateStopLoss, UpdateTakeProfitPrice)
func H_Owner_Perpetual_CloseUpdate() { h_c10.H_Perp_OwnerOnly_ByOther() }

//vrf:cover refused
//vrf:bound see h_c08.H_Close_ByOther
func H_Owner_Leveragelp_Close() { h_c08.H_Close_ByOther() }

//vrf:cover removed-stays-out never-admitted-stays-out
//vrf:bound see h_c16.H_FeederSet_GovernanceOnly
func H_Oracle_FeederSet_GovernanceOnly() { h_c16.H_FeederSet_GovernanceOnly() }
