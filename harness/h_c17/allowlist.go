package h_c17

import (
	sdkmath "cosmossdk.io/math"
	sdk "github.com/cosmos/cosmos-sdk/types"
	ammkeeper "github.com/elys-network/elys/x/amm/keeper"
	ammtypes "github.com/elys-network/elys/x/amm/types"
	vrf "github.com/elys-network/elys/zzvrf"
	"github.com/elys-network/elys/zzvrf/wire"
)

// Pool listing is gated by the governance-maintained allow-list of pool creators (amm Params.AllowedPoolCreators):
// whatever the list holds - nobody, governance only, some other account - MsgCreatePool from an account that is not on
// it is refused and changes nothing.
//
//vrf:cover refused
//vrf:bound allow-list of 0..2 entries chosen among {governance, another account} (symbolic); MsgCreatePool of a well-formed two-asset pool by a funded account that is not on the list
func H_Amm_CreatePool_AllowList() {
	env := wire.New(wire.Opts{})
	ctx := env.Ctx
	outsider := sdk.AccAddress([]byte("outsider____________"))
	listed := sdk.AccAddress([]byte("listed_creator______"))
	p := ammtypes.DefaultParams()
	p.AllowedPoolCreators = nil
	if vrf.Bool("govListed") {
		p.AllowedPoolCreators = append(p.AllowedPoolCreators, wire.Gov)
	}
	if vrf.Bool("otherListed") {
		p.AllowedPoolCreators = append(p.AllowedPoolCreators, listed.String())
	}
	p.BaseAssets = []string{"uusdc"}
	env.Amm.SetParams(ctx, p)
	adversarialState(env, nil, outsider.String())
	for _, d := range []string{"uusdc", "uatom", "uelys"} {
		env.W.SetBal(outsider, d, sdkmath.NewIntWithDecimal(1, 12))
	}
	before := env.W.TotalWrites()
	srv := ammkeeper.NewMsgServerImpl(*env.Amm)
	_, err := srv.CreatePool(ctx, &ammtypes.MsgCreatePool{Sender: outsider.String(),
		PoolParams: ammtypes.PoolParams{SwapFee: sdkmath.LegacyZeroDec(), UseOracle: false, FeeDenom: "uusdc"},
		PoolAssets: []ammtypes.PoolAsset{
			{Token: sdk.NewCoin("uatom", sdkmath.NewInt(1000000)), Weight: sdkmath.NewInt(1)},
			{Token: sdk.NewCoin("uusdc", sdkmath.NewInt(1000000)), Weight: sdkmath.NewInt(1)},
		}})
	vrf.Cover("refused")
	vrf.Assert(err != nil, "C17: MsgCreatePool from an account that is not on the governance-maintained allow-list of pool creators is refused")
	vrf.Assert(env.W.TotalWrites() == before, "C17: a refused MsgCreatePool changes nothing")
}
