#!/bin/sh
# tools/ovbuild.sh <harness-id-lower|-> [pkg...] : native type-check/build of overlay packages (no output binary kept)
export GOFLAGS=-mod=mod GOPROXY=off GOSUMDB=off GOTOOLCHAIN=local
T=$(mktemp -d)
python3 - "$T" "$1" <<'PY'
import json,os,sys,glob
t,h=sys.argv[1],sys.argv[2]
rep={}
for f in glob.glob('/verif/zzvrf/*.go'): rep['/repo/zzvrf/'+os.path.basename(f)]=f
for f in glob.glob('/verif/zzvrf/wire/*.go'): rep['/repo/zzvrf/wire/'+os.path.basename(f)]=f
if h!='-':
    for f in glob.glob('/verif/harness/h_%s/*.go'%h): rep['/repo/zzvrf/h_%s/'%h+os.path.basename(f)]=f
json.dump({'Replace':rep},open(t+'/ov.json','w'))
PY
shift
cd /repo && go build -overlay $T/ov.json "$@"
rc=$?
rm -rf $T
exit $rc
