#!/usr/bin/env python3
"""Regenerates /verif/MANIFEST.json from the table below (claimed checks) and
properties.jsonl (everything else goes to not_applicable with its reason)."""
import json, os
V = os.path.dirname(os.path.dirname(os.path.abspath(__file__)))
props = [json.loads(l) for l in open(os.path.join(V, "properties.jsonl"))]

TECH = "bounded symbolic execution of the real Go SSA (own go/ssa interpreter fork) with SMT (z3 5.1) deciding every assertion; models replayed natively"
NOTE = ("Trusted: go/ssa, the interpreter fork, the SMT definitions of cosmossdk.io/math, the Go models of store/bank/codec "
        "(package zzvrf), z3. Outside the claim: sdkmath bit-length overflow panics, gas, ante/signature checks, protobuf "
        "round-trip (identity assumed), everything beyond the stated bounds.")

# id -> (level text, design ref)
CLAIMED = {}
NOT_APPLICABLE = {}

def load_tables():
    p = os.path.join(V, "tools", "claims.json")
    d = json.load(open(p))
    return d["claimed"], d.get("not_applicable", {})

claimed, na = load_tables()
checks = []
for p in props:
    i = p["id"]
    if i in claimed:
        c = claimed[i]
        checks.append({
            "property_id": i,
            "quick_cmd": f"./check {i} --tier quick",
            "thorough_cmd": f"./check {i} --tier thorough",
            "evidence_file": f"/verif/evidence/{i}.json",
            "replay_cmd_template": f"./check {i} --replay {{path}}",
            "engine": "gosymx",
            "level_claimed": {"category": "model_checking", "text": c["text"], "design_ref": c.get("design_ref", "DESIGN.md §6 " + i)},
            "level_note": c.get("note", NOTE),
            "technique": c.get("technique", TECH),
        })
not_app = []
for p in props:
    i = p["id"]
    if i not in claimed:
        not_app.append({"property_id": i, "reason": na.get(i, "check not built yet in this session (work in progress); no claim is made")})
m = {
    "version": 1,
    "setup_cmd": "cd /verif/engine && GOFLAGS=-mod=mod GOPROXY=off GOSUMDB=off GOTOOLCHAIN=local go build -o /verif/bin/gosymx ./cmd/gosymx && /verif/bin/gosymx selftest",
    "hooks": {
        "guard": "none (no source hooks: harness packages and the model package zzvrf are injected with go/packages and `go build -overlay`; /repo is modified only by `fix:` commits)",
        "enable": "overlay only: `./check <ID>` maps /verif/zzvrf and /verif/harness/h_<id> to /repo/zzvrf/... with build tag gosymx for the symbolic load",
        "baseline_off_cmd": "cd /repo && go test -json -vet=off -count=1 -timeout 25m ./...",
        "source_commits": json.load(open(os.path.join(V, "tools", "claims.json"))).get("source_commits", []),
        "add_only": True,
    },
    "engines": [{"name": "gosymx", "path": "/verif/engine", "serves_properties": sorted(claimed.keys()),
                 "kind_free_text": "symbolic executor for Go SSA (fork of x/tools go/ssa/interp v0.29.0) + SMT-LIB2 back end (z3 5.1.0 primary)"}],
    "checks": checks,
    "not_applicable": not_app,
    "notes": "See DESIGN.md. exit 0 = all obligations discharged within the stated bounds; 1 = VIOLATION (replayed); 2 = inconclusive (never reported as success).",
}
json.dump(m, open(os.path.join(V, "MANIFEST.json"), "w"), indent=1)
print("claimed:", sorted(claimed.keys()), "not_applicable:", len(not_app))
