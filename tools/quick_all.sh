#!/bin/bash
# runs every quick check on /repo's current tree (regenerates /verif/evidence); summary in out/quick.log
cd /verif
: > out/quick.log
for i in 01 02 03 04 05 06 07 08 09 10 11 12 13 14 15 16 17 18 19 20; do
  s=$(date +%s)
  ./check C$i --tier quick > out/quick_C$i.log 2>&1
  rc=$?
  echo "C$i exit=$rc secs=$(( $(date +%s) - s )) $(tail -1 out/quick_C$i.log | cut -c1-200)" >> out/quick.log
done
cat out/quick.log
