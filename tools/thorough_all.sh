#!/bin/bash
cd /verif
: > out/thorough.log
for i in 01 02 03 04 05 06 07 08 09 10 11 12 13 14 15 16 17 18 19 20; do
  s=$(date +%s)
  ./check C$i --tier thorough > out/thorough_C$i.log 2>&1
  rc=$?
  echo "C$i exit=$rc secs=$(( $(date +%s) - s )) $(tail -1 out/thorough_C$i.log)" >> out/thorough.log
done
