#!/bin/bash
# usage: tools/seedround.sh <suffix> <ids...>   runs seeded/<id><suffix> against the quick check of <id>, sequentially
cd /verif
s=$1; shift
for p in "$@"; do tools/seedrun.sh ${p}${s} $p | head -3; done
