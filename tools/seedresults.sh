#!/bin/bash
# seeded/RESULTS.txt from the logs of the latest run of every seed against its own property's quick check
cd /verif
out=seeded/RESULTS.txt
: > $out
for n in $(ls seeded | grep "^C"); do
  p=${n:0:3}; f=out/seed_${n}_${p}.log
  if [ ! -f $f ]; then echo "seed=$n prop=$p not-run" >> $out; continue; fi
  rc=$(grep -o "exit=[0-9]*" $f | tail -1); v=$(grep -c "^VIOLATION" $f)
  [ -n "$rc" ] || rc="exit=?"
  echo "seed=$n prop=$p $rc violations=$v" >> $out
done
grep -c "exit=1" $out
