#!/bin/bash
# usage: tools/seedverify.sh <worktree-with-SEED-dir> <name>
# Confirms a seeded change independently of its author: patch applies to /repo HEAD, tree builds, the existing tests
# (./x/... ./app/...) pass with the patch and without the demonstration, the demonstration fails with the patch and
# passes without it. Writes <worktree>/SEED/VERIFY.txt; prints one summary line.
export GOFLAGS=-mod=mod GOPROXY=off GOSUMDB=off GOTOOLCHAIN=local
wt=$1; name=$2
cd $wt || exit 3
log=$wt/SEED/VERIFY.txt; : > $log
git checkout -q -- . ; git clean -qfd -e SEED
git -C /repo diff --quiet HEAD || echo "note: /repo dirty" >> $log
git -C /repo apply --check $wt/SEED/patch.diff || echo "note: patch does not apply to the current /repo HEAD (made against $(git rev-parse --short HEAD))" >> $log
git apply SEED/patch.diff || { echo "$name: patch does not apply"; exit 3; }
go build ./... >> $log 2>&1 || { echo "$name: build fails"; exit 3; }
echo "== existing tests with patch" >> $log
timeout 3000 go test -vet=off -count=1 ./x/... ./app/... 2>&1 | grep -v "no test files" > $wt/SEED/suite.txt
suite=ok; grep -q "^FAIL\|^--- FAIL\|panic:" $wt/SEED/suite.txt && suite=FAIL
grep -c "^ok" $wt/SEED/suite.txt >> $log; grep "^FAIL\|^--- FAIL" $wt/SEED/suite.txt >> $log
# demonstration
path=$(head -5 SEED/demonstration_test.go.txt | grep -o '[a-z][a-zA-Z0-9_/]*/[a-zA-Z0-9_]*_test\.go' | head -1)
[ -n "$path" ] || { echo "$name: cannot find demo path"; exit 3; }
cp SEED/demonstration_test.go.txt $path
pkg=./$(dirname $path)/
fn=$(grep -o 'func (suite[^)]*) \(Test[A-Za-z0-9_]*\)\|func (s [^)]*) \(Test[A-Za-z0-9_]*\)\|^func \(Test[A-Za-z0-9_]*\)' $path | grep -o 'Test[A-Za-z0-9_]*' | tr '\n' '|' | sed 's/|$//')
runarg="-run ."
if grep -q "testify.m\|suite.Suite\|) Test" $path; then runarg="-run Test -testify.m ($fn)"; else runarg="-run ($fn)"; fi
echo "== demo with patch: go test $pkg $runarg" >> $log
timeout 1500 go test -vet=off -count=1 $pkg $runarg > $wt/SEED/demo_patched.txt 2>&1; r1=$?
git apply -R SEED/patch.diff
echo "== demo without patch" >> $log
timeout 1500 go test -vet=off -count=1 $pkg $runarg > $wt/SEED/demo_clean.txt 2>&1; r2=$?
tail -3 $wt/SEED/demo_patched.txt >> $log; tail -3 $wt/SEED/demo_clean.txt >> $log
rm -f $path
v=CONFIRMED; { [ $suite = ok ] && [ $r1 -ne 0 ] && [ $r2 -eq 0 ]; } || v=REJECTED
echo "$name: $v suite=$suite demo_patched_exit=$r1 demo_clean_exit=$r2 demo=$path" | tee -a $log
