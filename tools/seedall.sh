#!/bin/bash
# runs every seeded change (seeded/<ID>[b-f]) against the quick check of its own property, each in its own scratch
# worktree (never in /repo), 5 at a time; then writes seeded/RESULTS.txt from the logs (tools/seedresults.sh).
cd /verif
ls seeded | grep "^C" | xargs -P 5 -I{} bash -c 'n={}; p=${n:0:3}; cd /verif; tools/seedrun.sh $n $p > /dev/null 2>&1'
tools/seedresults.sh
