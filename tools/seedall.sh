#!/bin/bash
# runs every seeded change (seeded/<ID> and seeded/<ID>b) against the quick check of its own property, each in its own
# scratch worktree (never in /repo); writes seeded/RESULTS.txt. Up to 3 run at a time.
cd /verif
out=seeded/RESULTS.txt
tmp=$(mktemp -d)
run() { n=$1; p=${n:0:3}; tools/seedrun.sh $n $p > $tmp/$n.txt 2>&1; }
i=0
for d in seeded/C*/; do
  n=$(basename $d)
  run $n &
  i=$((i+1)); if [ $((i % 3)) -eq 0 ]; then wait; fi
done
wait
: > $out
for d in seeded/C*/; do
  n=$(basename $d); p=${n:0:3}
  r=$(grep "^seed=" $tmp/$n.txt)
  v=$(grep -c "^VIOLATION" out/seed_${n}_${p}.log)
  echo "$r violations=$v" >> $out
done
rm -rf $tmp
cat $out
