#!/bin/bash
# runs every seeded change against the quick check of its own property; writes seeded/RESULTS.txt
cd /verif
out=seeded/RESULTS.txt
: > $out
for d in seeded/C*/; do
  n=$(basename $d)
  r=$(tools/seedrun.sh $n $n | grep "^seed=")
  v=$(grep -c "^VIOLATION" out/seed_${n}_${n}.log)
  echo "$r violations=$v" >> $out
done
cat $out
