#!/bin/bash
# usage: tools/seedrun.sh <seed-dir-name> <PROP> [extra args to ./check]
# Applies /verif/seeded/<name>/patch.diff to a scratch worktree of /repo (never to /repo itself), runs
# ./check <PROP> against it with evidence / replay files redirected to a scratch directory, removes the worktree.
set -u
name=$1; prop=$2; shift 2
cd /verif
wt=$(mktemp -d /tmp/seedwt.XXXXXX); rmdir $wt
git -C /repo worktree add --detach $wt HEAD >/dev/null 2>&1 || { echo "cannot create worktree"; exit 3; }
git -C $wt apply /verif/seeded/$name/patch.diff || { echo "patch does not apply"; git -C /repo worktree remove --force $wt; exit 3; }
out=/verif/out/seedruns/${name}_${prop}; rm -rf $out; mkdir -p $out
VERIF_REPO=$wt VERIF_OUT=$out ./check $prop "$@" > /verif/out/seed_${name}_${prop}.log 2>&1
rc=$?
git -C /repo worktree remove --force $wt; git -C /repo worktree prune
echo "seed=$name prop=$prop exit=$rc"
grep -E "^VIOLATION|^KNOWN|^CHECK|INCONCLUSIVE" /verif/out/seed_${name}_${prop}.log | cut -c1-400 | head -12
exit 0
