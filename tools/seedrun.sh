#!/bin/bash
# usage: tools/seedrun.sh <seed-dir-name> <PROP> [extra args to ./check]
# Applies /verif/seeded/<name>/patch.diff to /repo, runs ./check <PROP>, undoes the change.
set -u
name=$1; prop=$2; shift 2
cd /verif
if ! git -C /repo diff --quiet; then echo "/repo has uncommitted changes; refusing"; exit 3; fi
git -C /repo apply /verif/seeded/$name/patch.diff || { echo "patch does not apply"; exit 3; }
./check $prop "$@" > /verif/out/seed_${name}_${prop}.log 2>&1
rc=$?
git -C /repo checkout -- . 
git -C /repo status --short | grep -v '^??' | head -3
echo "seed=$name prop=$prop exit=$rc"
grep -E "^VIOLATION|^KNOWN|^CHECK|INCONCLUSIVE" /verif/out/seed_${name}_${prop}.log | cut -c1-400 | head -12
exit 0
