package zzvrf

// Post-conditions used by the meta-checks (C15, C19), which run the scenarios of the
// other harness packages and then inspect the world they left behind.

import (
	"fmt"
	authtypes "github.com/cosmos/cosmos-sdk/x/auth/types"
	"sort"
	"strings"
)

// CheckSupply (C15): every bank mint / burn performed by the scenario must be one the
// protocol is entitled to: pool and vault share tokens by their own module, the Eden family
// by the commitment module, the native token minted only on the vesting release paths and
// burnt only by the burner module (which burns whatever sits at the burn address); no other
// denom (base stablecoin, traded assets, vouchers) is ever minted or burnt.
func CheckSupply() {
	w := LastWorld
	if w == nil {
		return
	}
	Cover("c15-checked")
	// share tokens pass through their module's account: minted and sent on to the depositor (or custody), collected
	// and burnt on withdrawal. Whatever a scenario mints must have been issued against the deposit, so nothing of a
	// share denom it minted or burnt may be left sitting in the minting module's own account.
	seen := map[string]bool{}
	for _, r := range w.MintLog {
		isShare := strings.HasPrefix(r.Denom, "amm/pool/") || r.Denom == "stablestake/share"
		if !isShare || seen[r.Module+"|"+r.Denom] {
			continue
		}
		seen[r.Module+"|"+r.Denom] = true
		Assert(w.BalOf(authtypes.NewModuleAddress(r.Module), r.Denom).IsZero(), fmt.Sprintf("C15: every %s token minted by module %s was issued against a deposit (none is left unbacked in the module's own account)", r.Denom, r.Module))
	}
	for _, r := range w.MintLog {
		ok := false
		switch {
		case strings.HasPrefix(r.Denom, "amm/pool/"):
			ok = r.Module == "amm"
		case r.Denom == "stablestake/share":
			ok = r.Module == "stablestake"
		case r.Denom == "ueden" || r.Denom == "uedenb":
			ok = true // protocol-issued reward denoms (kept on the commitment ledger; the property does not restrict them)
		case r.Burn && r.Module == "burner":
			ok = true // explicit burn of what was sent to the burn address
		case r.Denom == "uelys" && !r.Burn:
			ok = r.Module == "commitment" && (r.Callers == "" || strings.Contains(r.Callers, "ClaimVesting") || strings.Contains(r.Callers, "VestNow"))
		}
		what := "mint"
		if r.Burn {
			what = "burn"
		}
		label := fmt.Sprintf("C15: %s of %s by module %s is not one the protocol is entitled to", what, r.Denom, r.Module)
		if strings.Contains(r.Callers, "MatchAmmBalances") && strings.Contains(r.Callers, "H_AmmMigration_MatchAmmBalances") {
			// known finding: the amm v8->v9 migration helper, run as the migration, mints / burns pool assets to make bank match book
			// (the same helper reached from a message handler or a blocker is not covered by the finding)
			AssertExcept(ok, label, "C15-amm-migration-mints", true)
			continue
		}
		Assert(ok, label)
	}
}

// ObserveWorld (C19): every balance, supply and store entry of the world becomes an
// observation, so that two runs of one scenario can be compared output by output.
func ObserveWorld() {
	w := LastWorld
	if w == nil {
		return
	}
	var names []string
	for n := range w.Stores {
		names = append(names, n)
	}
	sort.Strings(names)
	for _, n := range names {
		st := w.Stores[n]
		Observe("store/"+n+"/len", len(st.Ents))
		for i, e := range st.Ents {
			ObserveValue(fmt.Sprintf("store/%s/%d/key", n, i), e.K)
			ObserveBlob(fmt.Sprintf("store/%s/%d/val", n, i), e.V)
		}
	}
	var addrs []string
	for a := range w.Bal {
		addrs = append(addrs, a)
	}
	sort.Strings(addrs)
	for _, a := range addrs {
		var ds []string
		for d := range w.Bal[a] {
			ds = append(ds, d)
		}
		sort.Strings(ds)
		for _, d := range ds {
			Observe(fmt.Sprintf("bal/%x/%s", a, d), w.Bal[a][d])
		}
	}
	var sd []string
	for d := range w.Supply {
		sd = append(sd, d)
	}
	sort.Strings(sd)
	for _, d := range sd {
		Observe("supply/"+d, w.Supply[d])
	}
	Observe("sends", w.Sends)
}
