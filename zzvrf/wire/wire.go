// Package wire builds the real Elys keepers over the zzvrf world model,
// mirroring app/keepers/keepers.go (construction order, value/pointer copies
// and hook wiring). SDK-owned keepers (auth, bank, staking, distribution, IBC)
// are replaced by models or nil.
package wire

import (
	"context"

	corestore "cosmossdk.io/core/store"
	sdkmath "cosmossdk.io/math"
	storetypes "cosmossdk.io/store/types"
	"github.com/cosmos/cosmos-sdk/codec"
	"github.com/cosmos/cosmos-sdk/runtime"
	sdk "github.com/cosmos/cosmos-sdk/types"
	authtypes "github.com/cosmos/cosmos-sdk/x/auth/types"
	disttypes "github.com/cosmos/cosmos-sdk/x/distribution/types"
	stakingkeeper "github.com/cosmos/cosmos-sdk/x/staking/keeper"
	stakingtypes "github.com/cosmos/cosmos-sdk/x/staking/types"
	"github.com/cosmos/gogoproto/proto"

	accountedpoolkeeper "github.com/elys-network/elys/x/accountedpool/keeper"
	accountedpooltypes "github.com/elys-network/elys/x/accountedpool/types"
	ammkeeper "github.com/elys-network/elys/x/amm/keeper"
	ammtypes "github.com/elys-network/elys/x/amm/types"
	assetprofilekeeper "github.com/elys-network/elys/x/assetprofile/keeper"
	assetprofiletypes "github.com/elys-network/elys/x/assetprofile/types"
	burnerkeeper "github.com/elys-network/elys/x/burner/keeper"
	burnertypes "github.com/elys-network/elys/x/burner/types"
	commitmentkeeper "github.com/elys-network/elys/x/commitment/keeper"
	commitmenttypes "github.com/elys-network/elys/x/commitment/types"
	epochskeeper "github.com/elys-network/elys/x/epochs/keeper"
	epochstypes "github.com/elys-network/elys/x/epochs/types"
	estakingkeeper "github.com/elys-network/elys/x/estaking/keeper"
	estakingtypes "github.com/elys-network/elys/x/estaking/types"
	leveragelpkeeper "github.com/elys-network/elys/x/leveragelp/keeper"
	leveragelptypes "github.com/elys-network/elys/x/leveragelp/types"
	masterchefkeeper "github.com/elys-network/elys/x/masterchef/keeper"
	mastercheftypes "github.com/elys-network/elys/x/masterchef/types"
	oraclekeeper "github.com/elys-network/elys/x/oracle/keeper"
	oracletypes "github.com/elys-network/elys/x/oracle/types"
	parameterkeeper "github.com/elys-network/elys/x/parameter/keeper"
	parametertypes "github.com/elys-network/elys/x/parameter/types"
	perpetualkeeper "github.com/elys-network/elys/x/perpetual/keeper"
	perpetualtypes "github.com/elys-network/elys/x/perpetual/types"
	stablestakekeeper "github.com/elys-network/elys/x/stablestake/keeper"
	stablestaketypes "github.com/elys-network/elys/x/stablestake/types"
	tierkeeper "github.com/elys-network/elys/x/tier/keeper"
	tiertypes "github.com/elys-network/elys/x/tier/types"
	tokenomicskeeper "github.com/elys-network/elys/x/tokenomics/keeper"
	tokenomicstypes "github.com/elys-network/elys/x/tokenomics/types"
	tradeshieldkeeper "github.com/elys-network/elys/x/tradeshield/keeper"
	tradeshieldtypes "github.com/elys-network/elys/x/tradeshield/types"
	vrf "github.com/elys-network/elys/zzvrf"
)

// Gov is the governance authority string handed to every keeper.
var Gov = authtypes.NewModuleAddress("gov").String()

// OracleLike is what the modules expect from the oracle keeper.
type OracleLike interface {
	ammtypes.OracleKeeper
	perpetualtypes.OracleKeeper
	mastercheftypes.OracleKeeper
	tiertypes.OracleKeeper
}

type storeService = corestore.KVStoreService

type Staking struct{}

func (Staking) BondDenom(ctx context.Context) (string, error) { return "uelys", nil }
func (Staking) GetUnbondingDelegations(ctx context.Context, delegator sdk.AccAddress, maxRetrieve uint16) ([]stakingtypes.UnbondingDelegation, error) {
	return nil, nil
}
func (Staking) GetDelegatorValidators(ctx context.Context, delegatorAddr sdk.AccAddress, maxRetrieve uint32) (stakingtypes.Validators, error) {
	return stakingtypes.Validators{}, nil
}
func (Staking) GetAllDelegatorDelegations(ctx context.Context, delegator sdk.AccAddress) ([]stakingtypes.Delegation, error) {
	return nil, nil
}

type Distr struct{}

func (Distr) WithdrawDelegationRewards(ctx context.Context, delAddr sdk.AccAddress, valAddr sdk.ValAddress) (sdk.Coins, error) {
	return nil, nil
}
func (Distr) IncrementValidatorPeriod(ctx context.Context, val stakingtypes.ValidatorI) (uint64, error) {
	return 0, nil
}
func (Distr) CalculateDelegationRewards(ctx context.Context, val stakingtypes.ValidatorI, del stakingtypes.DelegationI, endingPeriod uint64) (sdk.DecCoins, error) {
	return nil, nil
}
func (Distr) GetDelegatorStartingInfo(ctx context.Context, val sdk.ValAddress, del sdk.AccAddress) (disttypes.DelegatorStartingInfo, error) {
	return disttypes.DelegatorStartingInfo{}, nil
}

type Env struct {
	W   *vrf.World
	Ctx sdk.Context

	Bank       vrf.Bank
	Param      *parameterkeeper.Keeper
	Aprof      *assetprofilekeeper.Keeper
	Comm       *commitmentkeeper.Keeper
	Tokenomics *tokenomicskeeper.Keeper
	Estaking   *estakingkeeper.Keeper
	Oracle     *oraclekeeper.Keeper
	Acc        *accountedpoolkeeper.Keeper
	Amm        *ammkeeper.Keeper
	Stable     *stablestakekeeper.Keeper
	Perp       *perpetualkeeper.Keeper
	Mc         *masterchefkeeper.Keeper
	Burner     *burnerkeeper.Keeper
	Lev        *leveragelpkeeper.Keeper
	Tier       *tierkeeper.Keeper
	Ts         *tradeshieldkeeper.Keeper
	Epochs     *epochskeeper.Keeper
}

type Opts struct {
	// Oracle replaces the oracle keeper handed to the other modules (e.g. a
	// wrapper with symbolic prices). nil = the real oracle keeper.
	Oracle OracleLike
	// TierHooks wires the tier hooks as app/keepers does; false leaves them out
	// (frame contract: tier hooks write the tier store only).
	TierHooks bool
	// PerpAmm / LevAmm wrap the amm keeper handed to the perpetual / leveragelp keeper (which see it
	// through an expected-keeper interface), e.g. to replace the pricing estimates by contracts.
	PerpAmm func(real *ammkeeper.Keeper) perpetualtypes.AmmKeeper
	LevAmm  func(real *ammkeeper.Keeper) leveragelptypes.AmmKeeper
	// CommHooks replaces the commitment hooks (estaking, which calls into the SDK staking keeper for Eden and
	// EdenB amounts) by the given implementation, for steps on Eden commitments. nil = the real estaking hooks.
	CommHooks commitmenttypes.CommitmentHooks
	// SdkStaking is the SDK staking keeper embedded in the estaking keeper (nil = none; harnesses that reach it pass
	// a zero value whose methods are under contract).
	SdkStaking *stakingkeeper.Keeper
}

func New(o Opts) *Env {
	e := &Env{W: vrf.NewWorld()}
	e.Ctx = vrf.NewCtx(e.W)
	cdc := vrf.Codec{}
	ss := func(n string) storeService { return runtime.NewKVStoreService(storetypes.NewKVStoreKey(n)) }
	ak := vrf.Accounts{}

	e.Param = parameterkeeper.NewKeeper(cdc, ss(parametertypes.StoreKey), Gov)
	e.Aprof = assetprofilekeeper.NewKeeper(cdc, ss(assetprofiletypes.StoreKey), nil, Gov)
	e.Comm = commitmentkeeper.NewKeeper(cdc, ss(commitmenttypes.StoreKey), ak, e.Bank, Staking{}, *e.Aprof, Gov)
	e.Tokenomics = tokenomicskeeper.NewKeeper(cdc, ss(tokenomicstypes.StoreKey), e.Comm, Gov)
	e.Estaking = estakingkeeper.NewKeeper(cdc, ss(estakingtypes.StoreKey), *e.Param, o.SdkStaking, e.Comm, Distr{}, *e.Aprof, *e.Tokenomics, Gov)
	e.Oracle = oraclekeeper.NewKeeper(cdc, ss(oracletypes.StoreKey), Gov, nil, nil, nil)
	var orc OracleLike = *e.Oracle
	if o.Oracle != nil {
		orc = o.Oracle
	}
	e.Acc = accountedpoolkeeper.NewKeeper(cdc, ss(accountedpooltypes.StoreKey), e.Bank)
	e.Amm = ammkeeper.NewKeeper(cdc, ss(ammtypes.StoreKey), storetypes.NewTransientStoreKey(ammtypes.TStoreKey), Gov,
		e.Param, e.Bank, ak, orc, e.Comm, *e.Aprof, *e.Acc, nil)
	e.Stable = stablestakekeeper.NewKeeper(cdc, ss(stablestaketypes.StoreKey), Gov, e.Bank, e.Comm, *e.Aprof)
	if o.CommHooks != nil {
		e.Comm.SetHooks(o.CommHooks)
	} else {
		e.Comm.SetHooks(commitmentkeeper.NewMultiCommitmentHooks(e.Estaking.CommitmentHooks()))
	}
	var perpAmm perpetualtypes.AmmKeeper = e.Amm
	if o.PerpAmm != nil {
		perpAmm = o.PerpAmm(e.Amm)
	}
	e.Perp = perpetualkeeper.NewKeeper(cdc, ss(perpetualtypes.StoreKey), Gov, perpAmm, e.Bank, orc, *e.Aprof, e.Param, nil)
	e.Mc = masterchefkeeper.NewKeeper(cdc, ss(mastercheftypes.StoreKey), *e.Param, e.Comm, e.Amm, orc, *e.Aprof, *e.Acc, e.Stable, *e.Tokenomics, ak, e.Bank, e.Estaking, Gov)
	e.Burner = burnerkeeper.NewKeeper(cdc, ss(burnertypes.StoreKey), e.Bank, Gov)
	var levAmm leveragelptypes.AmmKeeper = e.Amm
	if o.LevAmm != nil {
		levAmm = o.LevAmm(e.Amm)
	}
	e.Lev = leveragelpkeeper.NewKeeper(cdc, ss(leveragelptypes.StoreKey), Gov, levAmm, e.Bank, orc, e.Stable, e.Comm, *e.Aprof, *e.Mc, *e.Acc)
	e.Ts = &tradeshieldkeeper.Keeper{}
	e.Tier = tierkeeper.NewKeeper(cdc, ss(tiertypes.StoreKey), e.Bank, orc, *e.Aprof, e.Amm, e.Estaking, *e.Mc, e.Comm, Staking{}, e.Perp, e.Lev, e.Stable, *e.Ts)
	e.Amm.SetTierKeeper(e.Tier)
	e.Perp.SetTierKeeper(e.Tier)
	e.Ts = tradeshieldkeeper.NewKeeper(cdc, ss(tradeshieldtypes.StoreKey), Gov, e.Bank, e.Amm, e.Perp)
	e.Tier.SetTradeshieldKeeper(e.Ts)

	e.Epochs = epochskeeper.NewKeeper(epochsCodec{B: cdc}, ss(epochstypes.StoreKey))
	e.Epochs = e.Epochs.SetHooks(epochstypes.NewMultiEpochHooks(e.Oracle.Hooks(), e.Comm.Hooks(), e.Burner.Hooks(), e.Perp.EpochHooks(), e.Estaking.EpochHooks()))

	if o.TierHooks {
		e.Stable.SetHooks(stablestakekeeper.NewMultiStableStakeHooks(e.Mc.StableStakeHooks(), e.Tier.StableStakeHooks()))
		e.Lev.SetHooks(leveragelptypes.NewMultiLeverageLpHooks(e.Perp.LeverageLpHooks(), e.Acc.LeverageLpHooks(), e.Tier.LeverageLpHooks()))
		e.Amm.SetHooks(ammtypes.NewMultiAmmHooks(e.Acc.AmmHooks(), e.Perp.AmmHooks(), e.Lev.AmmHooks(), e.Mc.AmmHooks(), e.Tier.AmmHooks()))
		e.Perp.SetHooks(perpetualtypes.NewMultiPerpetualHooks(e.Acc.PerpetualHooks(), e.Tier.PerpetualHooks()))
	} else {
		e.Stable.SetHooks(stablestakekeeper.NewMultiStableStakeHooks(e.Mc.StableStakeHooks()))
		e.Lev.SetHooks(leveragelptypes.NewMultiLeverageLpHooks(e.Perp.LeverageLpHooks(), e.Acc.LeverageLpHooks()))
		e.Amm.SetHooks(ammtypes.NewMultiAmmHooks(e.Acc.AmmHooks(), e.Perp.AmmHooks(), e.Lev.AmmHooks(), e.Mc.AmmHooks()))
		e.Perp.SetHooks(perpetualtypes.NewMultiPerpetualHooks(e.Acc.PerpetualHooks()))
	}
	return e
}

var _ = sdkmath.ZeroInt

// epochsCodec: the epochs keeper wants a codec.Codec; only the BinaryCodec half is used (any
// other method hits the nil embedded interface and panics visibly).
type epochsCodec struct {
	codec.Codec
	B vrf.Codec
}

func (c epochsCodec) Marshal(o proto.Message) ([]byte, error) { return c.B.Marshal(o) }
func (c epochsCodec) MustMarshal(o proto.Message) []byte      { return c.B.MustMarshal(o) }
func (c epochsCodec) MarshalLengthPrefixed(o proto.Message) ([]byte, error) {
	return c.B.MarshalLengthPrefixed(o)
}
func (c epochsCodec) MustMarshalLengthPrefixed(o proto.Message) []byte {
	return c.B.MustMarshalLengthPrefixed(o)
}
func (c epochsCodec) Unmarshal(bz []byte, ptr proto.Message) error { return c.B.Unmarshal(bz, ptr) }
func (c epochsCodec) MustUnmarshal(bz []byte, ptr proto.Message)   { c.B.MustUnmarshal(bz, ptr) }
func (c epochsCodec) UnmarshalLengthPrefixed(bz []byte, ptr proto.Message) error {
	return c.B.UnmarshalLengthPrefixed(bz, ptr)
}
func (c epochsCodec) MustUnmarshalLengthPrefixed(bz []byte, ptr proto.Message) {
	c.B.MustUnmarshalLengthPrefixed(bz, ptr)
}
