package zzvrf

// The world model: KV stores, bank, codec, logger. Plain Go, interpreted by the
// engine like the code under test, and compiled natively for replay.

import (
	"bytes"
	"context"
	"io"
	"sort"
	"time"

	"cosmossdk.io/log"
	sdkmath "cosmossdk.io/math"
	storetypes "cosmossdk.io/store/types"
	"github.com/cosmos/cosmos-sdk/codec/types"
	sdk "github.com/cosmos/cosmos-sdk/types"
	sdkerrors "github.com/cosmos/cosmos-sdk/types/errors"
	authtypes "github.com/cosmos/cosmos-sdk/x/auth/types"
	banktypes "github.com/cosmos/cosmos-sdk/x/bank/types"
	"github.com/cosmos/gogoproto/proto"
)

// ---------------------------------------------------------------- stores

type Entry struct{ K, V []byte }

type Store struct {
	Ents    []Entry
	Writes  int
	Deletes [][]byte
}

func (s *Store) clone() *Store {
	return &Store{Ents: append([]Entry{}, s.Ents...), Writes: s.Writes, Deletes: append([][]byte{}, s.Deletes...)}
}

func (s *Store) GetStoreType() storetypes.StoreType { return storetypes.StoreTypeDB }
func (s *Store) CacheWrap() storetypes.CacheWrap    { panic("zzvrf.Store.CacheWrap") }
func (s *Store) CacheWrapWithTrace(w io.Writer, tc storetypes.TraceContext) storetypes.CacheWrap {
	panic("zzvrf.Store.CacheWrapWithTrace")
}
func (s *Store) Get(key []byte) []byte {
	for _, e := range s.Ents {
		if bytes.Equal(e.K, key) {
			return e.V
		}
	}
	return nil
}
func (s *Store) Has(key []byte) bool { return s.Get(key) != nil }
func (s *Store) Set(key, value []byte) {
	if value == nil {
		panic("value is nil")
	}
	s.Writes++
	k := append([]byte{}, key...)
	for i, e := range s.Ents {
		c := bytes.Compare(e.K, k)
		if c == 0 {
			s.Ents[i].V = value
			return
		}
		if c > 0 {
			s.Ents = append(s.Ents[:i:i], append([]Entry{{k, value}}, s.Ents[i:]...)...)
			return
		}
	}
	s.Ents = append(s.Ents, Entry{k, value})
}
func (s *Store) Delete(key []byte) {
	s.Writes++
	for i, e := range s.Ents {
		if bytes.Equal(e.K, key) {
			s.Deletes = append(s.Deletes, e.K)
			s.Ents = append(s.Ents[:i:i], s.Ents[i+1:]...)
			return
		}
	}
}

// Count returns the number of keys with the given prefix.
func (s *Store) Count(prefix []byte) int {
	n := 0
	for _, e := range s.Ents {
		if bytes.HasPrefix(e.K, prefix) {
			n++
		}
	}
	return n
}

type Iter struct {
	items      []Entry
	pos        int
	start, end []byte
}

func (s *Store) Iterator(start, end []byte) storetypes.Iterator {
	it := &Iter{start: start, end: end}
	for _, e := range s.Ents {
		if (start == nil || bytes.Compare(e.K, start) >= 0) && (end == nil || bytes.Compare(e.K, end) < 0) {
			it.items = append(it.items, e)
		}
	}
	return it
}
func (s *Store) ReverseIterator(start, end []byte) storetypes.Iterator {
	it := s.Iterator(start, end).(*Iter)
	for i, j := 0, len(it.items)-1; i < j; i, j = i+1, j-1 {
		it.items[i], it.items[j] = it.items[j], it.items[i]
	}
	return it
}
func (it *Iter) Domain() ([]byte, []byte) { return it.start, it.end }
func (it *Iter) Valid() bool              { return it.pos < len(it.items) }
func (it *Iter) Next()                    { it.pos++ }
func (it *Iter) Key() []byte              { return it.items[it.pos].K }
func (it *Iter) Value() []byte            { return it.items[it.pos].V }
func (it *Iter) Error() error             { return nil }
func (it *Iter) Close() error             { return nil }

// ---------------------------------------------------------------- world

type World struct {
	Stores  map[string]*Store
	Bal     map[string]map[string]sdkmath.Int // address (string of bytes) -> denom -> amount
	Supply  map[string]sdkmath.Int
	Height  int64
	Unix    int64
	Sends   int // number of successful bank mutations (for "nothing changed" assertions)
	MintLog []MintRec
	Meta    []string // base denoms with bank metadata (IterateAllDenomMetaData)
	parent  *World
	em      *sdk.EventManager
}

type MintRec struct {
	Module  string
	Denom   string
	Amount  sdkmath.Int
	Burn    bool
	Callers string // call chain at the bank call (symbolic engine only; empty natively)
}

// LastWorld is the most recently created root world (meta-checks inspect it after a scenario ran).
var LastWorld *World

func NewWorld() *World {
	w := newWorld()
	LastWorld = w
	return w
}

func newWorld() *World {
	return &World{Stores: map[string]*Store{}, Bal: map[string]map[string]sdkmath.Int{}, Supply: map[string]sdkmath.Int{}, Height: 1, Unix: 1}
}

func (w *World) Clone() *World {
	c := newWorld()
	for n, s := range w.Stores {
		c.Stores[n] = s.clone()
	}
	for a, m := range w.Bal {
		cm := map[string]sdkmath.Int{}
		for d, v := range m {
			cm[d] = v
		}
		c.Bal[a] = cm
	}
	for k, v := range w.Supply {
		c.Supply[k] = v
	}
	c.Height, c.Unix, c.Sends = w.Height, w.Unix, w.Sends
	c.MintLog = append([]MintRec{}, w.MintLog...)
	c.Meta = w.Meta
	return c
}

func (w *World) adopt(c *World) {
	w.Stores, w.Bal, w.Supply, w.Sends, w.MintLog = c.Stores, c.Bal, c.Supply, c.Sends, c.MintLog
}

func (w *World) Store(name string) *Store {
	s, ok := w.Stores[name]
	if !ok {
		s = &Store{}
		w.Stores[name] = s
	}
	return s
}

// TotalWrites is the number of store mutations and bank mutations so far.
func (w *World) TotalWrites() int {
	n := w.Sends
	for _, s := range w.Stores {
		n += s.Writes
	}
	return n
}

// context.Context (so that a *World can sit in sdk.Context.baseCtx under the engine)
func (w *World) Deadline() (time.Time, bool) { return time.Time{}, false }
func (w *World) Done() <-chan struct{}       { return nil }
func (w *World) Err() error                  { return nil }
func (w *World) Value(key any) any           { return nil }

// storetypes.MultiStore / CacheMultiStore (native replay: a real sdk.Context sits on the World)
func (w *World) GetStoreType() storetypes.StoreType { return storetypes.StoreTypeMulti }
func (w *World) CacheWrap() storetypes.CacheWrap    { return w.CacheMultiStore().(storetypes.CacheWrap) }
func (w *World) CacheWrapWithTrace(_ io.Writer, _ storetypes.TraceContext) storetypes.CacheWrap {
	return w.CacheWrap()
}
func (w *World) CacheMultiStore() storetypes.CacheMultiStore {
	c := w.Clone()
	c.parent = w
	return c
}
func (w *World) CacheMultiStoreWithVersion(int64) (storetypes.CacheMultiStore, error) {
	return w.CacheMultiStore(), nil
}
func (w *World) GetStore(k storetypes.StoreKey) storetypes.Store     { return w.Store(k.Name()) }
func (w *World) GetKVStore(k storetypes.StoreKey) storetypes.KVStore { return w.Store(k.Name()) }
func (w *World) TracingEnabled() bool                                { return false }
func (w *World) SetTracer(io.Writer) storetypes.MultiStore           { return w }
func (w *World) SetTracingContext(storetypes.TraceContext) storetypes.MultiStore {
	return w
}
func (w *World) LatestVersion() int64 { return 1 }
func (w *World) Write() {
	if w.parent != nil {
		w.parent.adopt(w)
	}
}

// ---- functions the engine's sdk.Context accessors call (symbolic mode only) ----

func KVStoreOf(ctx sdk.Context, name string) storetypes.KVStore { return WorldOf(ctx).Store(name) }

func CacheContextOf(ctx sdk.Context) (sdk.Context, func()) {
	w := WorldOf(ctx)
	c := w.Clone()
	return NewCtx(c), func() { w.adopt(c) }
}
func HeightOf(ctx sdk.Context) int64 { return WorldOf(ctx).Height }
func UnixOf(ctx sdk.Context) int64   { return WorldOf(ctx).Unix }
func WithHeightOf(ctx sdk.Context, h int64) sdk.Context {
	w := WorldOf(ctx)
	c := w.Clone()
	c.Stores, c.Bal, c.Supply = w.Stores, w.Bal, w.Supply // shares state, differs in height only
	c.Height = h
	return NewCtx(c)
}
func EventManagerOf(ctx sdk.Context) sdk.EventManagerI {
	w := WorldOf(ctx)
	if w.em == nil {
		w.em = sdk.NewEventManager()
	}
	return w.em
}
func LoggerOf(ctx sdk.Context) log.Logger { return NopLogger{} }

type NopLogger struct{}

func (NopLogger) Info(msg string, keyVals ...any)  {}
func (NopLogger) Warn(msg string, keyVals ...any)  {}
func (NopLogger) Error(msg string, keyVals ...any) {}
func (NopLogger) Debug(msg string, keyVals ...any) {}
func (l NopLogger) With(keyVals ...any) log.Logger { return l }
func (NopLogger) Impl() any                        { return nil }

// ---------------------------------------------------------------- codec

// Codec implements codec.BinaryCodec: symbolically an identity round trip through
// an engine-side blob table, natively the real proto codec.
type Codec struct{}

func (Codec) Marshal(o proto.Message) ([]byte, error)               { return BlobPut(o), nil }
func (Codec) MustMarshal(o proto.Message) []byte                    { return BlobPut(o) }
func (Codec) MarshalLengthPrefixed(o proto.Message) ([]byte, error) { return BlobPut(o), nil }
func (Codec) MustMarshalLengthPrefixed(o proto.Message) []byte      { return BlobPut(o) }
func (Codec) Unmarshal(bz []byte, ptr proto.Message) error          { BlobGet(bz, ptr); return nil }
func (Codec) MustUnmarshal(bz []byte, ptr proto.Message)            { BlobGet(bz, ptr) }
func (Codec) UnmarshalLengthPrefixed(bz []byte, ptr proto.Message) error {
	BlobGet(bz, ptr)
	return nil
}
func (Codec) MustUnmarshalLengthPrefixed(bz []byte, ptr proto.Message) { BlobGet(bz, ptr) }
func (Codec) MarshalInterface(i proto.Message) ([]byte, error)         { panic("zzvrf.Codec.MarshalInterface") }
func (Codec) UnmarshalInterface(bz []byte, ptr interface{}) error {
	panic("zzvrf.Codec.UnmarshalInterface")
}
func (Codec) UnpackAny(any *types.Any, iface interface{}) error { panic("zzvrf.Codec.UnpackAny") }

// ---------------------------------------------------------------- bank

// Bank implements the union of the Elys modules' BankKeeper interfaces.
type Bank struct{}

func wOf(ctx context.Context) *World { return WorldOf(sdk.UnwrapSDKContext(ctx)) }

func (w *World) BalOf(addr sdk.AccAddress, denom string) sdkmath.Int {
	if m, ok := w.Bal[string(addr)]; ok {
		if v, ok := m[denom]; ok {
			return v
		}
	}
	return sdkmath.ZeroInt()
}
func (w *World) SetBal(addr sdk.AccAddress, denom string, v sdkmath.Int) {
	m, ok := w.Bal[string(addr)]
	if !ok {
		m = map[string]sdkmath.Int{}
		w.Bal[string(addr)] = m
	}
	m[denom] = v
}
func (w *World) SupplyOf(denom string) sdkmath.Int {
	if v, ok := w.Supply[denom]; ok {
		return v
	}
	return sdkmath.ZeroInt()
}

func (Bank) GetBalance(ctx context.Context, addr sdk.AccAddress, denom string) sdk.Coin {
	return sdk.Coin{Denom: denom, Amount: wOf(ctx).BalOf(addr, denom)}
}
func (Bank) GetSupply(ctx context.Context, denom string) sdk.Coin {
	return sdk.Coin{Denom: denom, Amount: wOf(ctx).SupplyOf(denom)}
}
func (Bank) GetAllBalances(ctx context.Context, addr sdk.AccAddress) sdk.Coins {
	w := wOf(ctx)
	m := w.Bal[string(addr)]
	var denoms []string
	for d := range m {
		denoms = append(denoms, d)
	}
	sort.Strings(denoms)
	var out sdk.Coins
	for _, d := range denoms {
		if m[d].IsPositive() {
			out = append(out, sdk.Coin{Denom: d, Amount: m[d]})
		}
	}
	return out
}
func (b Bank) SpendableCoins(ctx context.Context, addr sdk.AccAddress) sdk.Coins {
	return b.GetAllBalances(ctx, addr)
}
func (b Bank) SpendableCoin(ctx context.Context, addr sdk.AccAddress, denom string) sdk.Coin {
	return b.GetBalance(ctx, addr, denom)
}
func (Bank) BlockedAddr(addr sdk.AccAddress) bool { return false }
func (Bank) HasBalance(ctx context.Context, addr sdk.AccAddress, amt sdk.Coin) bool {
	return wOf(ctx).BalOf(addr, amt.Denom).GTE(amt.Amount)
}
func (Bank) SetDenomMetaData(ctx context.Context, m banktypes.Metadata) {}
func (Bank) GetDenomMetaData(ctx context.Context, denom string) (banktypes.Metadata, bool) {
	return banktypes.Metadata{}, false
}
func (Bank) IterateAllDenomMetaData(ctx context.Context, cb func(banktypes.Metadata) bool) {
	for _, d := range wOf(ctx).Meta {
		if cb(banktypes.Metadata{Base: d}) {
			return
		}
	}
}

func send(w *World, from, to sdk.AccAddress, amt sdk.Coins) error {
	for _, c := range amt {
		if c.Amount.IsNegative() {
			return sdkerrors.ErrInvalidCoins
		}
		if w.BalOf(from, c.Denom).LT(c.Amount) {
			return sdkerrors.ErrInsufficientFunds
		}
	}
	for _, c := range amt {
		w.SetBal(from, c.Denom, w.BalOf(from, c.Denom).Sub(c.Amount))
		w.SetBal(to, c.Denom, w.BalOf(to, c.Denom).Add(c.Amount))
	}
	w.Sends++
	return nil
}
func (Bank) SendCoins(ctx context.Context, from, to sdk.AccAddress, amt sdk.Coins) error {
	return send(wOf(ctx), from, to, amt)
}
func (Bank) SendCoinsFromModuleToAccount(ctx context.Context, m string, to sdk.AccAddress, amt sdk.Coins) error {
	return send(wOf(ctx), authtypes.NewModuleAddress(m), to, amt)
}
func (Bank) SendCoinsFromAccountToModule(ctx context.Context, from sdk.AccAddress, m string, amt sdk.Coins) error {
	return send(wOf(ctx), from, authtypes.NewModuleAddress(m), amt)
}
func (Bank) SendCoinsFromModuleToModule(ctx context.Context, a, b string, amt sdk.Coins) error {
	return send(wOf(ctx), authtypes.NewModuleAddress(a), authtypes.NewModuleAddress(b), amt)
}
func (Bank) MintCoins(ctx context.Context, m string, amt sdk.Coins) error {
	w := wOf(ctx)
	a := authtypes.NewModuleAddress(m)
	for _, c := range amt {
		if c.Amount.IsNegative() {
			return sdkerrors.ErrInvalidCoins
		}
	}
	for _, c := range amt {
		w.Supply[c.Denom] = w.SupplyOf(c.Denom).Add(c.Amount)
		w.SetBal(a, c.Denom, w.BalOf(a, c.Denom).Add(c.Amount))
		w.MintLog = append(w.MintLog, MintRec{Module: m, Denom: c.Denom, Amount: c.Amount, Callers: Callers()})
	}
	w.Sends++
	return nil
}
func (Bank) BurnCoins(ctx context.Context, m string, amt sdk.Coins) error {
	w := wOf(ctx)
	a := authtypes.NewModuleAddress(m)
	for _, c := range amt {
		if c.Amount.IsNegative() {
			return sdkerrors.ErrInvalidCoins
		}
		if w.BalOf(a, c.Denom).LT(c.Amount) {
			return sdkerrors.ErrInsufficientFunds
		}
	}
	for _, c := range amt {
		w.Supply[c.Denom] = w.SupplyOf(c.Denom).Sub(c.Amount)
		w.SetBal(a, c.Denom, w.BalOf(a, c.Denom).Sub(c.Amount))
		w.MintLog = append(w.MintLog, MintRec{Module: m, Denom: c.Denom, Amount: c.Amount, Burn: true, Callers: Callers()})
	}
	w.Sends++
	return nil
}

// Account keeper stand-in (module addresses only).
type Accounts struct{}

func (Accounts) GetModuleAddress(name string) sdk.AccAddress { return authtypes.NewModuleAddress(name) }
func (Accounts) GetModuleAccount(ctx context.Context, moduleName string) sdk.ModuleAccountI {
	return authtypes.NewEmptyModuleAccount(moduleName)
}
func (Accounts) GetAccount(ctx context.Context, addr sdk.AccAddress) sdk.AccountI { return nil }
func (Accounts) HasAccount(ctx context.Context, addr sdk.AccAddress) bool         { return true }
func (Accounts) NewAccount(ctx context.Context, acc sdk.AccountI) sdk.AccountI    { return acc }
func (Accounts) SetAccount(ctx context.Context, acc sdk.AccountI)                 {}
func (Accounts) NewAccountWithAddress(ctx context.Context, addr sdk.AccAddress) sdk.AccountI {
	return nil
}
func (Accounts) SetModuleAccount(ctx context.Context, macc sdk.ModuleAccountI) {}
func (Accounts) NextAccountNumber(ctx context.Context) uint64                  { return 1 }
