//go:build gosymx

package zzvrf

// Intrinsics: bodyless declarations intercepted by the symbolic engine
// (/verif/engine/symx/intrinsics.go). The native twin is vrf_native.go.

import (
	sdkmath "cosmossdk.io/math"
	sdk "github.com/cosmos/cosmos-sdk/types"
)

func Int(name string) sdkmath.Int
func Dec(name string) sdkmath.LegacyDec
func I64(name string, lo, hi int64) int64
func U64(name string, lo, hi uint64) uint64
func Byte(name string, lo, hi byte) byte
func Bool(name string) bool
func Str(name string, n int) string
func Assume(c bool)
func Assert(c bool, label string)

// Lemma is an Assert whose condition, once proved on the path, is added to the path condition.
func Lemma(c bool, label string)
func AssertExcept(c bool, label string, finding string, pred bool)
func Cover(label string)
func Observe(name string, v interface{})
func Symbolic() bool
func Fail(msg string)
func BlobPut(o interface{}) []byte
func BlobGet(bz []byte, ptr interface{})
func NewCtx(w *World) sdk.Context
func WorldOf(ctx sdk.Context) *World
func MapOrder() int
func Callers() string
func ObserveValue(name string, v interface{})
func ObserveBlob(name string, bz []byte)

// SetBlock installs the block height and time (unix seconds) of the context.
func SetBlock(ctx sdk.Context, height int64, unix int64) sdk.Context {
	w := WorldOf(ctx)
	w.Height, w.Unix = height, unix
	return ctx
}
