//go:build !gosymx

package zzvrf

// Native twin of the intrinsics: concrete playback of a solver model. The model
// (name -> decimal string) is read from the file named by $VRF_MODEL.

import (
	"encoding/json"
	"fmt"
	"math/big"
	"os"
	"time"

	"cosmossdk.io/log"
	sdkmath "cosmossdk.io/math"
	cmtproto "github.com/cometbft/cometbft/proto/tendermint/types"
	"github.com/cosmos/cosmos-sdk/codec"
	codectypes "github.com/cosmos/cosmos-sdk/codec/types"
	sdk "github.com/cosmos/cosmos-sdk/types"
	"github.com/cosmos/gogoproto/proto"
)

var model map[string]string

// EndPath is panicked by Assume when the model violates an assumption.
type EndPath struct{ Why string }

func LoadModel() {
	model = map[string]string{}
	if f := os.Getenv("VRF_MODEL"); f != "" {
		b, err := os.ReadFile(f)
		if err != nil {
			panic(err)
		}
		var r struct {
			Model map[string]string `json:"model"`
		}
		if err := json.Unmarshal(b, &r); err != nil {
			panic(err)
		}
		model = r.Model
	}
}

func val(name string) *big.Int {
	if model == nil {
		LoadModel()
	}
	v, ok := model[name]
	if !ok {
		return big.NewInt(0)
	}
	b, ok := new(big.Int).SetString(v, 10)
	if !ok {
		panic("bad model value for " + name + ": " + v)
	}
	return b
}

func Int(name string) sdkmath.Int       { return sdkmath.NewIntFromBigInt(val(name)) }
func Dec(name string) sdkmath.LegacyDec { return sdkmath.LegacyNewDecFromBigIntWithPrec(val(name), 18) }
func I64(name string, lo, hi int64) int64 {
	v := val(name).Int64()
	if v < lo || v > hi {
		panic(EndPath{"range " + name})
	}
	return v
}
func U64(name string, lo, hi uint64) uint64 {
	v := val(name).Uint64()
	if v < lo || v > hi {
		panic(EndPath{"range " + name})
	}
	return v
}
func Byte(name string, lo, hi byte) byte { return byte(U64(name, uint64(lo), uint64(hi))) }
func Bool(name string) bool              { return val(name).Sign() != 0 }
func Str(name string, n int) string {
	b := make([]byte, n)
	for i := range b {
		v := val(fmt.Sprintf("%s_%d", name, i)).Uint64()
		if model[fmt.Sprintf("%s_%d", name, i)] == "" {
			v = 'a'
		}
		b[i] = byte(v)
	}
	return string(b)
}
func Assume(c bool) {
	if !c {
		panic(EndPath{"assumption violated by the model"})
	}
}
func Assert(c bool, label string) {
	if !c {
		fmt.Printf("REPRODUCED %s\n", label)
	} else {
		fmt.Printf("HELD %s\n", label)
	}
}
func Lemma(c bool, label string) { Assert(c, label) }
func AssertExcept(c bool, label string, finding string, pred bool) {
	if !c {
		fmt.Printf("REPRODUCED %s finding=%s pred=%v\n", label, finding, pred)
	} else {
		fmt.Printf("HELD %s\n", label)
	}
}
func Cover(label string) { fmt.Printf("COVER %s\n", label) }
func Observe(name string, v interface{}) {
	switch x := v.(type) {
	case sdkmath.Int:
		fmt.Printf("OBS %s %s\n", name, x.BigInt().String())
	case sdkmath.LegacyDec:
		fmt.Printf("OBS %s %s\n", name, x.BigInt().String())
	case bool:
		if x {
			fmt.Printf("OBS %s 1\n", name)
		} else {
			fmt.Printf("OBS %s 0\n", name)
		}
	case string:
		fmt.Printf("OBS %s %s\n", name, new(big.Int).SetBytes([]byte(x)).String())
	default:
		fmt.Printf("OBS %s %v\n", name, x)
	}
}
func Symbolic() bool                          { return false }
func Fail(msg string)                         { panic("harness: " + msg) }
func MapOrder() int                           { return 0 }
func Callers() string                         { return "" }
func ObserveValue(name string, v interface{}) {}
func ObserveBlob(name string, bz []byte)      {}

var nativeCdc = codec.NewProtoCodec(codectypes.NewInterfaceRegistry())

func BlobPut(o interface{}) []byte { return nativeCdc.MustMarshal(o.(proto.Message)) }
func BlobGet(bz []byte, ptr interface{}) {
	nativeCdc.MustUnmarshal(bz, ptr.(proto.Message))
}

func NewCtx(w *World) sdk.Context {
	return sdk.NewContext(w, cmtproto.Header{Height: 1, Time: time.Unix(1, 0).UTC()}, false, log.NewNopLogger())
}

func WorldOf(ctx sdk.Context) *World { return ctx.MultiStore().(*World) }

func SetBlock(ctx sdk.Context, height int64, unix int64) sdk.Context {
	return ctx.WithBlockHeight(height).WithBlockTime(time.Unix(unix, 0).UTC())
}

// RunHarness runs f, tolerating the EndPath panic, and reports Go panics.
func RunHarness(name string, f func()) {
	defer func() {
		if r := recover(); r != nil {
			if e, ok := r.(EndPath); ok {
				fmt.Printf("ENDPATH %s\n", e.Why)
				return
			}
			fmt.Printf("PANIC %v\n", r)
		}
	}()
	f()
	fmt.Printf("DONE %s\n", name)
}
