package symx

import (
	"fmt"
	"go/token"
	"go/types"
	"math/big"
)

// SymInt is a symbolic machine integer of basic kind K (value is an SMT Int in range of K).
type SymInt struct {
	T *Term
	K types.BasicKind
}

func kindOf(v value) (types.BasicKind, bool) {
	switch v.(type) {
	case int:
		return types.Int, true
	case int8:
		return types.Int8, true
	case int16:
		return types.Int16, true
	case int32:
		return types.Int32, true
	case int64:
		return types.Int64, true
	case uint:
		return types.Uint, true
	case uint8:
		return types.Uint8, true
	case uint16:
		return types.Uint16, true
	case uint32:
		return types.Uint32, true
	case uint64:
		return types.Uint64, true
	case uintptr:
		return types.Uintptr, true
	}
	return 0, false
}

func bitsOf(k types.BasicKind) (bits uint, signed bool) {
	switch k {
	case types.Int, types.Int64:
		return 64, true
	case types.Int32:
		return 32, true
	case types.Int16:
		return 16, true
	case types.Int8:
		return 8, true
	case types.Uint, types.Uint64, types.Uintptr:
		return 64, false
	case types.Uint32:
		return 32, false
	case types.Uint16:
		return 16, false
	case types.Uint8:
		return 8, false
	}
	panic(fmt.Sprint("bitsOf: ", k))
}

func termOfInt(v value) *Term {
	switch x := v.(type) {
	case SymInt:
		return x.T
	case uint, uint8, uint16, uint32, uint64, uintptr:
		return K(new(big.Int).SetUint64(asUint64(x)))
	default:
		return KI(asInt64(x))
	}
}

// wrap reduces t into the range of kind k (Go wrap-around semantics).
func wrap(t *Term, k types.BasicKind) *Term {
	bits, signed := bitsOf(k)
	m := new(big.Int).Lsh(big.NewInt(1), bits)
	if t.IsK() {
		v := new(big.Int).Mod(t.Val, m)
		if signed && v.Bit(int(bits-1)) == 1 {
			v.Sub(v, m)
		}
		return K(v)
	}
	if !signed {
		return &Term{Op: "mod", Args: []*Term{t, K(m)}}
	}
	h := new(big.Int).Rsh(m, 1)
	return Sub(&Term{Op: "mod", Args: []*Term{Add(t, K(h)), K(m)}}, K(h))
}

func concretize(t *Term, k types.BasicKind) value {
	if !t.IsK() {
		return SymInt{t, k}
	}
	switch k {
	case types.Int:
		return int(t.Val.Int64())
	case types.Int8:
		return int8(t.Val.Int64())
	case types.Int16:
		return int16(t.Val.Int64())
	case types.Int32:
		return int32(t.Val.Int64())
	case types.Int64:
		return t.Val.Int64()
	case types.Uint:
		return uint(t.Val.Uint64())
	case types.Uint8:
		return uint8(t.Val.Uint64())
	case types.Uint16:
		return uint16(t.Val.Uint64())
	case types.Uint32:
		return uint32(t.Val.Uint64())
	case types.Uint64:
		return t.Val.Uint64()
	case types.Uintptr:
		return uintptr(t.Val.Uint64())
	}
	panic("concretize")
}

func isSymInt(v value) bool { _, ok := v.(SymInt); return ok }

func symBinop(eng *Engine, op token.Token, x, y value) value {
	var k types.BasicKind
	if s, ok := x.(SymInt); ok {
		k = s.K
	} else if kk, ok := kindOf(x); ok {
		k = kk
	} else {
		k = y.(SymInt).K
	}
	a, b := termOfInt(x), termOfInt(y)
	switch op {
	case token.ADD:
		return concretize(wrap(Add(a, b), k), k)
	case token.SUB:
		return concretize(wrap(Sub(a, b), k), k)
	case token.MUL:
		return concretize(wrap(Mul(a, b), k), k)
	case token.QUO:
		if eng.decide(Cmp("=", b, KI(0))) {
			panic(targetPanic{"runtime error: integer divide by zero"})
		}
		return concretize(wrap(&Term{Op: "tdiv", Args: []*Term{a, b}}, k), k)
	case token.REM:
		if eng.decide(Cmp("=", b, KI(0))) {
			panic(targetPanic{"runtime error: integer divide by zero"})
		}
		return concretize(Sub(a, Mul(b, &Term{Op: "tdiv", Args: []*Term{a, b}})), k)
	case token.SHR:
		if b.IsK() {
			p := new(big.Int).Lsh(big.NewInt(1), uint(b.Val.Uint64()))
			return concretize(&Term{Op: "div", Args: []*Term{a, K(p)}}, k)
		}
	case token.SHL:
		if b.IsK() {
			p := new(big.Int).Lsh(big.NewInt(1), uint(b.Val.Uint64()))
			return concretize(wrap(Mul(a, K(p)), k), k)
		}
	case token.LSS:
		return sb(Cmp("<", a, b))
	case token.LEQ:
		return sb(Cmp("<=", a, b))
	case token.GTR:
		return sb(Cmp(">", a, b))
	case token.GEQ:
		return sb(Cmp(">=", a, b))
	case token.EQL:
		return sb(Cmp("=", a, b))
	case token.NEQ:
		return sb(Not(Cmp("=", a, b)))
	}
	panic(fmt.Sprintf("unsupported symbolic integer op %v", op))
}

func symConv(dst *types.Basic, x SymInt) value {
	if dst.Info()&types.IsInteger == 0 {
		panic("unsupported conversion of symbolic integer to " + dst.String())
	}
	sb_, ss := bitsOf(x.K)
	db, ds := bitsOf(dst.Kind())
	if db > sb_ && (ds == ss || !ss) || (db == sb_ && ds == ss) {
		return SymInt{x.T, dst.Kind()} // value-preserving widening
	}
	return concretize(wrap(x.T, dst.Kind()), dst.Kind())
}

func boolTerm(v value) *Term {
	switch x := v.(type) {
	case bool:
		return TBool(x)
	case SymBool:
		return x.T
	}
	panic("boolTerm")
}

func symBoolBinop(op token.Token, x, y value) value {
	a, b := boolTerm(x), boolTerm(y)
	switch op {
	case token.EQL:
		return sb(&Term{Op: "=", Args: []*Term{a, b}})
	case token.NEQ:
		return sb(Not(&Term{Op: "=", Args: []*Term{a, b}}))
	}
	panic("unsupported symbolic bool op")
}

// SymString is a fixed-length string whose bytes may be symbolic.
type SymString struct{ B []value }

func strBytes(v value) []value {
	switch x := v.(type) {
	case SymString:
		return x.B
	case string:
		out := make([]value, len(x))
		for i := 0; i < len(x); i++ {
			out[i] = x[i]
		}
		return out
	}
	panic("strBytes")
}

func symStrBinop(op token.Token, x, y value) value {
	a, b := strBytes(x), strBytes(y)
	switch op {
	case token.ADD:
		return SymString{append(append([]value{}, a...), b...)}
	case token.EQL, token.NEQ:
		var eq *Term
		if len(a) != len(b) {
			eq = TBool(false)
		} else {
			eq = TBool(true)
			for i := range a {
				c := Cmp("=", termOfInt(a[i]), termOfInt(b[i]))
				if c.Op == "false" {
					eq = c
					break
				}
				if c.Op != "true" {
					if eq.Op == "true" {
						eq = c
					} else {
						eq = And(eq, c)
					}
				}
			}
		}
		if op == token.NEQ {
			eq = Not(eq)
		}
		return sb(eq)
	}
	panic("unsupported symbolic string op " + op.String())
}
