package symx

import (
	"bufio"
	"fmt"
	"io"
	"math/big"
	"os"
	"os/exec"
	"strings"
	"time"
)

// Solver is one persistent SMT solver process (z3 -in / cvc5 --incremental).
type Solver struct {
	bin     string
	cmd     *exec.Cmd
	in      io.WriteCloser
	out     *bufio.Reader
	Queries int
	Time    time.Duration
	Log     *os.File
	open    bool // a (push) frame is open (for get-value)
	Errors  int
	fresh   *Solver // last one-shot (non-incremental) process, kept for LastModel
	oneShot bool
}

var dumpN int

const prelude = `(define-fun rhe ((n Int) (d Int)) Int (let ((s (ite (< n 0) (- 1) 1)) (a (abs n))) (let ((q (div a d)) (r (mod a d))) (* s (ite (< (* 2 r) d) q (ite (> (* 2 r) d) (+ q 1) (ite (= (mod q 2) 0) q (+ q 1))))))))
(define-fun tdiv ((n Int) (d Int)) Int (ite (>= n 0) (ite (> d 0) (div n d) (- (div n (- d)))) (ite (> d 0) (- (div (- n) d)) (div (- n) (- d)))))
(define-fun cdiv ((n Int) (d Int)) Int (- (div (- n) d)))`

func NewSolver(bin string) *Solver {
	s := &Solver{bin: bin}
	s.start()
	return s
}

func (s *Solver) start() {
	var args []string
	if strings.Contains(s.bin, "cvc5") {
		args = []string{"--incremental", "--produce-models", "--lang=smt2"}
	} else {
		args = []string{"-in"}
	}
	cmd := exec.Command(s.bin, args...)
	in, _ := cmd.StdinPipe()
	out, _ := cmd.StdoutPipe()
	cmd.Stderr = os.Stderr
	if err := cmd.Start(); err != nil {
		panic(engineBug{"cannot start solver " + s.bin + ": " + err.Error()})
	}
	s.cmd, s.in, s.out = cmd, in, bufio.NewReaderSize(out, 1<<16)
	if strings.Contains(s.bin, "cvc5") {
		s.send("(set-logic ALL)")
	}
	s.send("(set-option :produce-models true)")
	s.send(prelude)
}

func (s *Solver) Close() {
	if s.fresh != nil {
		s.fresh.Close()
		s.fresh = nil
	}
	if s.cmd != nil {
		s.in.Close()
		s.cmd.Process.Kill()
		s.cmd.Wait()
		s.cmd = nil
	}
}

func (s *Solver) send(line string) {
	if s.Log != nil {
		fmt.Fprintln(s.Log, line)
	}
	if _, err := io.WriteString(s.in, line+"\n"); err != nil {
		panic(pathAbort{"solver pipe closed: " + err.Error()})
	}
}

func (s *Solver) closeFrame() {
	if s.open {
		s.send("(pop)")
		s.open = false
	}
}

// Check returns "sat", "unsat" or "unknown". The frame stays open until the next
// Check so that LastModel can be asked.
func (s *Solver) Check(decls []string, asserts []string, timeoutMs int) string {
	t0 := time.Now()
	s.closeFrame()
	if s.fresh != nil {
		s.fresh.Close()
		s.fresh = nil
	}
	s.Queries++
	var sb strings.Builder
	sb.WriteString("(push)\n")
	for _, d := range decls {
		sb.WriteString(d)
		sb.WriteByte('\n')
	}
	for _, a := range asserts {
		sb.WriteString("(assert ")
		sb.WriteString(a)
		sb.WriteString(")\n")
	}
	if strings.Contains(s.bin, "cvc5") {
		fmt.Fprintf(&sb, "(set-option :tlimit-per %d)\n", timeoutMs)
	} else {
		fmt.Fprintf(&sb, "(set-option :timeout %d)\n", timeoutMs)
	}
	sb.WriteString("(check-sat)")
	s.send(sb.String())
	s.open = true
	res := "unknown"
	// hard wall-clock guard: solver timeouts are soft
	type rd struct {
		line string
		err  error
	}
	ch := make(chan rd, 1)
	out := s.out
	go func() {
		for {
			line, err := out.ReadString('\n')
			l := strings.TrimSpace(line)
			if err != nil || l == "sat" || l == "unsat" || l == "unknown" || strings.HasPrefix(l, "(error") {
				ch <- rd{l, err}
				return
			}
		}
	}()
	select {
	case r := <-ch:
		if r.err != nil {
			s.restart()
			res = "unknown"
		} else if strings.HasPrefix(r.line, "(error") {
			s.Errors++
			fmt.Fprintln(os.Stderr, "SOLVER ERROR:", r.line)
			s.restart()
			res = "unknown"
		} else {
			res = r.line
		}
	case <-time.After(time.Duration(timeoutMs)*time.Millisecond*2 + 10*time.Second):
		s.restart()
		<-ch
		res = "unknown"
	}
	if s.Log != nil {
		fmt.Fprintln(s.Log, "; ->", res, time.Since(t0))
	}
	if d := os.Getenv("VRF_DUMP"); d != "" && res == "unknown" && timeoutMs >= 10000 {
		dumpN++
		os.WriteFile(fmt.Sprintf("%s/q%d_%d.smt2", d, os.Getpid(), dumpN), []byte(prelude+"\n"+strings.Replace(sb.String(), "(push)\n", "", 1)+"\n"), 0o644)
	}
	s.Time += time.Since(t0)
	return res
}

func (s *Solver) restart() {
	s.Close()
	s.open = false
	s.start()
}

// CheckFresh decides the query in a new solver process without push/pop: z3 then uses
// its full (non-incremental) nonlinear pipeline, which closes queries the incremental
// core times out on. The process is kept until the next query so that LastModel works.
func (s *Solver) CheckFresh(decls []string, asserts []string, timeoutMs int) string {
	t0 := time.Now()
	s.closeFrame()
	if s.fresh != nil {
		s.fresh.Close()
		s.fresh = nil
	}
	s.Queries++
	f := &Solver{bin: s.bin, oneShot: true}
	f.start()
	var sb strings.Builder
	for _, d := range decls {
		sb.WriteString(d)
		sb.WriteByte('\n')
	}
	for _, a := range asserts {
		sb.WriteString("(assert ")
		sb.WriteString(a)
		sb.WriteString(")\n")
	}
	if strings.Contains(s.bin, "cvc5") {
		fmt.Fprintf(&sb, "(set-option :tlimit-per %d)\n", timeoutMs)
	} else {
		fmt.Fprintf(&sb, "(set-option :timeout %d)\n", timeoutMs)
	}
	sb.WriteString("(check-sat)")
	f.send(sb.String())
	res := "unknown"
	type rd struct {
		line string
		err  error
	}
	ch := make(chan rd, 1)
	out := f.out
	go func() {
		for {
			line, err := out.ReadString('\n')
			l := strings.TrimSpace(line)
			if err != nil || l == "sat" || l == "unsat" || l == "unknown" || strings.HasPrefix(l, "(error") {
				ch <- rd{l, err}
				return
			}
		}
	}()
	select {
	case r := <-ch:
		if r.err == nil && !strings.HasPrefix(r.line, "(error") {
			res = r.line
		} else if strings.HasPrefix(r.line, "(error") {
			s.Errors++
			fmt.Fprintln(os.Stderr, "SOLVER ERROR:", r.line)
		}
	case <-time.After(time.Duration(timeoutMs)*time.Millisecond + 15*time.Second):
		f.Close()
		<-ch
	}
	if res == "sat" {
		f.open = true
		s.fresh = f
	} else {
		f.Close()
	}
	if d := os.Getenv("VRF_DUMP"); d != "" && res == "unknown" && timeoutMs >= 10000 {
		dumpN++
		os.WriteFile(fmt.Sprintf("%s/f%d_%d.smt2", d, os.Getpid(), dumpN), []byte(prelude+"\n"+sb.String()+"\n"), 0o644)
	}
	s.Time += time.Since(t0)
	return res
}

// LastModel returns the values of the given constants after a sat answer.
func (s *Solver) LastModel(names []string) map[string]string {
	if s.fresh != nil {
		f := s.fresh
		s.fresh = nil
		m := f.LastModel(names)
		f.Close()
		return m
	}
	out := map[string]string{}
	if !s.open || len(names) == 0 {
		return out
	}
	s.send("(get-value (" + strings.Join(names, " ") + "))")
	var sb strings.Builder
	depth := 0
	started := false
	for {
		line, err := s.out.ReadString('\n')
		if err != nil {
			break
		}
		sb.WriteString(line)
		depth += strings.Count(line, "(") - strings.Count(line, ")")
		if strings.Contains(line, "(") {
			started = true
		}
		if started && depth <= 0 {
			break
		}
	}
	parseGetValue(sb.String(), out)
	return out
}

// LastModelOf re-runs a query and returns its model (used when an intermediate query replaced the frame).
func (s *Solver) LastModelOf(decls, asserts []string, timeoutMs int, names []string) map[string]string {
	if s.Check(decls, asserts, timeoutMs) != "sat" {
		return map[string]string{}
	}
	return s.LastModel(names)
}

// parseGetValue parses "((|a| 5) (|b| (- 3)))".
func parseGetValue(txt string, out map[string]string) {
	toks := tokenize(txt)
	// find pairs: "(" name value ")"
	i := 0
	if i < len(toks) && toks[i] == "(" {
		i++
	}
	for i < len(toks) {
		if toks[i] != "(" {
			i++
			continue
		}
		i++
		if i >= len(toks) {
			break
		}
		name := strings.Trim(toks[i], "|")
		i++
		// value: either atom or (- atom)
		if i < len(toks) && toks[i] == "(" {
			// (- n)
			if i+3 < len(toks) && toks[i+1] == "-" {
				out[name] = "-" + toks[i+2]
				i += 4
			} else {
				// skip unknown structure
				d := 0
				for i < len(toks) {
					if toks[i] == "(" {
						d++
					} else if toks[i] == ")" {
						d--
						if d == 0 {
							i++
							break
						}
					}
					i++
				}
			}
		} else if i < len(toks) {
			out[name] = toks[i]
			i++
		}
		if i < len(toks) && toks[i] == ")" {
			i++
		}
	}
}

func tokenize(s string) []string {
	var toks []string
	i := 0
	for i < len(s) {
		c := s[i]
		switch {
		case c == '(' || c == ')':
			toks = append(toks, string(c))
			i++
		case c == ' ' || c == '\n' || c == '\t' || c == '\r':
			i++
		case c == '|':
			j := strings.IndexByte(s[i+1:], '|')
			if j < 0 {
				return toks
			}
			toks = append(toks, s[i:i+j+2])
			i += j + 2
		default:
			j := i
			for j < len(s) && !strings.ContainsRune("() \n\t\r", rune(s[j])) {
				j++
			}
			toks = append(toks, s[i:j])
			i = j
		}
	}
	return toks
}

func modelEnv(m map[string]string) map[string]*big.Int {
	env := map[string]*big.Int{}
	for k, v := range m {
		switch v {
		case "true":
			env[k] = big.NewInt(1)
		case "false":
			env[k] = big.NewInt(0)
		default:
			if b, ok := new(big.Int).SetString(v, 10); ok {
				env[k] = b
			}
		}
	}
	return env
}
