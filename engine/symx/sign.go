package symx

// A cheap syntactic sign analysis over terms. Its only use is to add redundant
// linear lemmas (q >= 0, q > 0, ...) for the fresh quotient variables of the
// relational rounding encoding, so that branch-feasibility queries over the
// linear part of the path condition can prune sign forks. Every lemma is implied
// by the (nonlinear) defining constraints, so nothing is strengthened.

type sign int8

const (
	sUnknown sign = iota
	sZero
	sPos
	sNonNeg
	sNeg
	sNonPos
)

func flip(s sign) sign {
	switch s {
	case sPos:
		return sNeg
	case sNeg:
		return sPos
	case sNonNeg:
		return sNonPos
	case sNonPos:
		return sNonNeg
	}
	return s
}

func mulSign(a, b sign) sign {
	if a == sZero || b == sZero {
		return sZero
	}
	if a == sUnknown || b == sUnknown {
		return sUnknown
	}
	neg := func(s sign) bool { return s == sNeg || s == sNonPos }
	strict := func(s sign) bool { return s == sPos || s == sNeg }
	n := neg(a) != neg(b)
	st := strict(a) && strict(b)
	switch {
	case !n && st:
		return sPos
	case !n:
		return sNonNeg
	case st:
		return sNeg
	}
	return sNonPos
}

func addSign(a, b sign) sign {
	if a == sZero {
		return b
	}
	if b == sZero {
		return a
	}
	nonneg := func(s sign) bool { return s == sPos || s == sNonNeg }
	nonpos := func(s sign) bool { return s == sNeg || s == sNonPos }
	switch {
	case nonneg(a) && nonneg(b):
		if a == sPos || b == sPos {
			return sPos
		}
		return sNonNeg
	case nonpos(a) && nonpos(b):
		if a == sNeg || b == sNeg {
			return sNeg
		}
		return sNonPos
	}
	return sUnknown
}

func joinSign(a, b sign) sign {
	if a == b {
		return a
	}
	nonneg := func(s sign) bool { return s == sPos || s == sNonNeg || s == sZero }
	nonpos := func(s sign) bool { return s == sNeg || s == sNonPos || s == sZero }
	switch {
	case nonneg(a) && nonneg(b):
		return sNonNeg
	case nonpos(a) && nonpos(b):
		return sNonPos
	}
	return sUnknown
}

func meetSign(old, n sign) sign {
	if old == sUnknown {
		return n
	}
	if n == sUnknown {
		return old
	}
	// keep the stronger
	rank := map[sign]int{sZero: 3, sPos: 2, sNeg: 2, sNonNeg: 1, sNonPos: 1}
	if rank[n] > rank[old] {
		return n
	}
	if old == sNonNeg && n == sNonPos || old == sNonPos && n == sNonNeg {
		return sZero
	}
	return old
}

func (e *Engine) signOf(t *Term) sign {
	switch t.Op {
	case "const":
		switch t.Val.Sign() {
		case 0:
			return sZero
		case 1:
			return sPos
		}
		return sNeg
	case "var":
		return e.varSign[t.Name]
	case "*":
		s := sPos
		for _, a := range t.Args {
			s = mulSign(s, e.signOf(a))
		}
		return s
	case "lin":
		var acc sign = sZero
		switch t.lf.c.Sign() {
		case 1:
			acc = sPos
		case -1:
			acc = sNeg
		}
		for i, a := range t.lf.atoms {
			sa := e.signOf(a)
			if t.lf.coefs[i].Sign() < 0 {
				sa = flip(sa)
			}
			acc = addSign(acc, sa)
			if acc == sUnknown {
				return sUnknown
			}
		}
		return acc
	case "abs":
		return sNonNeg
	case "ite":
		return joinSign(e.signOf(t.Args[1]), e.signOf(t.Args[2]))
	case "be8":
		return sNonNeg
	case "mod":
		if s := e.signOf(t.Args[1]); s == sPos {
			return sNonNeg
		}
	case "div", "tdiv", "rhe":
		if e.signOf(t.Args[1]) == sPos {
			switch e.signOf(t.Args[0]) {
			case sPos, sNonNeg:
				return sNonNeg
			case sNeg, sNonPos:
				if t.Op != "div" {
					return sNonPos
				}
			case sZero:
				return sZero
			}
		}
	}
	return sUnknown
}

// noteAtom records sign facts about variables from a conjunct added to the path condition.
func (e *Engine) noteAtom(c *Term) {
	if e.varSign == nil {
		return
	}
	neg := false
	if c.Op == "not" {
		neg = true
		c = c.Args[0]
	}
	if c.Op == "and" && !neg {
		e.noteAtom(c.Args[0])
		e.noteAtom(c.Args[1])
		return
	}
	if len(c.Args) != 2 {
		return
	}
	op := c.Op
	a, b := c.Args[0], c.Args[1]
	if a.IsK() && b.Op == "var" {
		a, b = b, a
		switch op {
		case "<":
			op = ">"
		case "<=":
			op = ">="
		case ">":
			op = "<"
		case ">=":
			op = "<="
		}
	}
	if a.Op != "var" || !b.IsK() {
		return
	}
	if neg {
		switch op {
		case "<":
			op = ">="
		case "<=":
			op = ">"
		case ">":
			op = "<="
		case ">=":
			op = "<"
		case "=":
			// x != k: only useful with an existing weak fact and k == 0
			if b.Val.Sign() == 0 {
				switch e.varSign[a.Name] {
				case sNonNeg:
					e.varSign[a.Name] = sPos
				case sNonPos:
					e.varSign[a.Name] = sNeg
				}
			}
			return
		default:
			return
		}
	}
	k := b.Val.Sign()
	var s sign
	switch op {
	case ">":
		if k >= 0 {
			s = sPos
		}
	case ">=":
		if k > 0 {
			s = sPos
		} else if k == 0 {
			s = sNonNeg
		}
	case "<":
		if k <= 0 {
			s = sNeg
		}
	case "<=":
		if k < 0 {
			s = sNeg
		} else if k == 0 {
			s = sNonPos
		}
	case "=":
		switch {
		case k == 0:
			s = sZero
		case k > 0:
			s = sPos
		default:
			s = sNeg
		}
	}
	if s != sUnknown {
		e.varSign[a.Name] = meetSign(e.varSign[a.Name], s)
	}
}

// signLemma adds the linear sign fact of a fresh quotient variable q whose value
// has the (weak) sign of the dividend n, the divisor being positive.
func (e *Engine) signLemma(q, n *Term, ceil bool) {
	var s sign
	switch e.signOf(n) {
	case sPos:
		s = sNonNeg
		if ceil {
			s = sPos
		}
	case sNonNeg:
		s = sNonNeg
	case sNeg:
		s = sNonPos
	case sNonPos:
		s = sNonPos
	case sZero:
		s = sZero
	default:
		return
	}
	switch s {
	case sPos:
		e.pc = append(e.pc, Cmp(">", q, KI(0)))
	case sNonNeg:
		e.pc = append(e.pc, Cmp(">=", q, KI(0)))
	case sNonPos:
		e.pc = append(e.pc, Cmp("<=", q, KI(0)))
	case sZero:
		e.pc = append(e.pc, Cmp("=", q, KI(0)))
	}
	e.varSign[q.Name] = s
}


// quickDecide settles a comparison whose truth follows from the sign analysis alone
// (true = the condition certainly holds is never claimed: only certain falsity and
// certain truth under the recorded variable signs).
func (e *Engine) quickDecide(c *Term) (bool, bool) {
	neg := false
	if c.Op == "not" {
		neg = true
		c = c.Args[0]
	}
	if len(c.Args) != 2 {
		return false, false
	}
	switch c.Op {
	case "<", "<=", ">", ">=", "=":
	default:
		return false, false
	}
	d := addSign(e.signOf(c.Args[0]), flip(e.signOf(c.Args[1]))) // sign of a - b
	if d == sUnknown {
		return false, false
	}
	var v, ok bool
	switch c.Op {
	case "=":
		switch d {
		case sPos, sNeg:
			v, ok = false, true
		case sZero:
			v, ok = true, true
		}
	case "<":
		switch d {
		case sPos, sNonNeg, sZero:
			v, ok = false, true
		case sNeg:
			v, ok = true, true
		}
	case "<=":
		switch d {
		case sPos:
			v, ok = false, true
		case sNeg, sNonPos, sZero:
			v, ok = true, true
		}
	case ">":
		switch d {
		case sNeg, sNonPos, sZero:
			v, ok = false, true
		case sPos:
			v, ok = true, true
		}
	case ">=":
		switch d {
		case sNeg:
			v, ok = false, true
		case sPos, sNonNeg, sZero:
			v, ok = true, true
		}
	}
	if !ok {
		return false, false
	}
	if neg {
		v = !v
	}
	return v, true
}
