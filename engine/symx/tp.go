package symx

import "go/types"

func mustDeref(t types.Type) types.Type {
	if p, ok := t.Underlying().(*types.Pointer); ok {
		return p.Elem()
	}
	panic("mustDeref: not a pointer: " + t.String())
}
