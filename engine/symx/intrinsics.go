package symx

// Harness intrinsics: bodyless functions of the overlay package zzvrf (build tag
// gosymx) that the engine intercepts, and deterministic / permuted map iteration.

import (
	"fmt"
	"go/types"
	"math/big"
	"sort"
)

// RegisterIntrinsics installs the intrinsics of package path p.
func RegisterIntrinsics(p string) {
	P := p + "."
	x := externals
	named := func(fr *frame, args []value) *Term { return fr.i.eng.namedVar(strOf(args[0])) }
	x[P+"Int"] = func(fr *frame, args []value) value { return mkNum(named(fr, args)) }
	x[P+"Dec"] = func(fr *frame, args []value) value { return mkNum(named(fr, args)) }
	rng := func(k types.BasicKind) externalFn {
		return func(fr *frame, args []value) value {
			e := fr.i.eng
			t := named(fr, args)
			lo, hi := termOfInt(args[1]), termOfInt(args[2])
			if t.IsK() {
				if t.Val.Cmp(lo.Val) < 0 || t.Val.Cmp(hi.Val) > 0 {
					panic(pathEnd{"concrete value outside declared range"})
				}
				return concretize(t, k)
			}
			e.assume(Cmp(">=", t, lo))
			e.assume(Cmp("<=", t, hi))
			return SymInt{t, k}
		}
	}
	x[P+"I64"] = rng(types.Int64)
	x[P+"U64"] = rng(types.Uint64)
	x[P+"Byte"] = rng(types.Uint8)
	x[P+"Bool"] = func(fr *frame, args []value) value {
		e := fr.i.eng
		t := named(fr, args)
		if t.IsK() {
			return t.Val.Sign() != 0
		}
		e.assume(Cmp(">=", t, KI(0)))
		e.assume(Cmp("<=", t, KI(1)))
		return sb(Cmp("=", t, KI(1)))
	}
	x[P+"Str"] = func(fr *frame, args []value) value {
		e := fr.i.eng
		n := args[1].(int)
		out := make([]value, n)
		conc := true
		for i := range out {
			t := e.namedVar(fmt.Sprintf("%s_%d", strOf(args[0]), i))
			if t.IsK() {
				out[i] = uint8(t.Val.Uint64())
				continue
			}
			conc = false
			e.assume(Cmp(">=", t, KI(48))) // '0'..'z': excludes '/' and control bytes
			e.assume(Cmp("<=", t, KI(122)))
			out[i] = SymInt{t, types.Uint8}
		}
		if conc {
			return string(bytesOf(out))
		}
		return SymString{out}
	}
	cond := func(v value) *Term {
		switch c := v.(type) {
		case bool:
			return TBool(c)
		case SymBool:
			return c.T
		}
		panic(engineBug{fmt.Sprintf("condition of type %T", v)})
	}
	x[P+"Assume"] = func(fr *frame, args []value) value {
		fr.i.eng.res.mu.Lock()
		fr.i.eng.res.Assumes++
		fr.i.eng.res.mu.Unlock()
		fr.i.eng.assume(cond(args[0]))
		return nil
	}
	x[P+"Assert"] = func(fr *frame, args []value) value {
		fr.i.eng.assertExcept(cond(args[0]), strOf(args[1]), "", nil)
		return nil
	}
	// Lemma: an assertion that, once proved on this path, is added to the path condition (it is implied by it),
	// so that later nonlinear assertions can build on it
	x[P+"Lemma"] = func(fr *frame, args []value) value {
		e := fr.i.eng
		c := cond(args[0])
		e.assertExcept(c, strOf(args[1]), "", nil)
		if e.lastProved && e.spec.Concrete == nil {
			e.addPC(c)
		}
		return nil
	}
	x[P+"AssertExcept"] = func(fr *frame, args []value) value {
		fr.i.eng.assertExcept(cond(args[0]), strOf(args[1]), strOf(args[2]), cond(args[3]))
		return nil
	}
	x[P+"Cover"] = func(fr *frame, args []value) value { fr.i.eng.cover(strOf(args[0])); return nil }
	x[P+"Symbolic"] = func(fr *frame, args []value) value { return true }
	x[P+"Fail"] = func(fr *frame, args []value) value { panic(pathAbort{"harness: " + strOf(args[0])}) }
	x[P+"Observe"] = func(fr *frame, args []value) value {
		av := args[1]
		if i, ok := av.(iface); ok {
			av = i.v
		}
		var t *Term
		switch v := av.(type) {
		case structure:
			t = cellOf(v)
		case bool:
			t = TBool(v)
		case SymBool:
			t = v.T
		case string:
			h := new(big.Int).SetBytes([]byte(v))
			t = K(h)
		default:
			t = termOfInt(v)
		}
		fr.i.eng.observe(strOf(args[0]), t)
		return nil
	}
	x[P+"BlobPut"] = func(fr *frame, args []value) value {
		e := fr.i.eng
		o := args[0].(iface)
		pv, ok := o.v.(*value)
		if !ok || pv == nil {
			panic(pathAbort{"BlobPut of a non-pointer message"})
		}
		e.blobs = append(e.blobs, [2]value{o.t, deepCopy(*pv)})
		id := len(e.blobs) - 1
		return toVals([]byte{0xFE, byte(id >> 16), byte(id >> 8), byte(id)})
	}
	x[P+"BlobGet"] = func(fr *frame, args []value) value {
		e := fr.i.eng
		b := bytesOf(args[0])
		if len(b) != 4 || b[0] != 0xFE {
			panic(pathAbort{"BlobGet: not a blob token (value not written through the codec model)"})
		}
		id := int(b[1])<<16 | int(b[2])<<8 | int(b[3])
		o := args[1].(iface)
		ptr := o.v.(*value)
		if !types.Identical(o.t, e.blobs[id][0].(types.Type)) {
			panic(pathAbort{fmt.Sprintf("BlobGet: stored %s read as %s", e.blobs[id][0], o.t)})
		}
		*ptr = deepCopy(e.blobs[id][1])
		return nil
	}
	x[P+"NewCtx"] = func(fr *frame, args []value) value {
		ctxT := fr.fn.Signature.Results().At(0).Type()
		c := zero(ctxT).(structure)
		c[0] = iface{t: fr.fn.Signature.Params().At(0).Type(), v: args[0]}
		return c
	}
	x[P+"WorldOf"] = func(fr *frame, args []value) value {
		it, ok := args[0].(structure)[0].(iface)
		if !ok || it.t == nil {
			panic(pathAbort{"WorldOf: context was not made by zzvrf.NewCtx"})
		}
		return it.v
	}
	x[P+"Callers"] = func(fr *frame, args []value) value { return chainOf(fr.caller, 14) }
	x[P+"ObserveValue"] = func(fr *frame, args []value) value {
		av := args[1]
		if i, ok := av.(iface); ok {
			av = i.v
		}
		fr.i.eng.observeDeep(strOf(args[0]), av, 0)
		return nil
	}
	x[P+"ObserveBlob"] = func(fr *frame, args []value) value {
		e := fr.i.eng
		bs, _ := args[1].([]value)
		if len(bs) == 4 {
			if b0, ok := bs[0].(uint8); ok && b0 == 0xFE {
				b := bytesOf(bs)
				id := int(b[1])<<16 | int(b[2])<<8 | int(b[3])
				if id < len(e.blobs) {
					e.observeDeep(strOf(args[0]), e.blobs[id][1], 0)
					return nil
				}
			}
		}
		e.observeDeep(strOf(args[0]), args[1], 0)
		return nil
	}
	x[P+"MapOrder"] = func(fr *frame, args []value) value { return fr.i.eng.spec.MapOrder }
}

func mapOrderOf(fr *frame) int {
	if fr == nil || fr.i.eng == nil || fr.i.eng.spec == nil {
		return 0
	}
	return fr.i.eng.spec.MapOrder
}

type orderedMapIter struct {
	keys []value
	vals []value
	pos  int
}

func keyLess(a, b value) bool {
	switch x := a.(type) {
	case string:
		if y, ok := b.(string); ok {
			return x < y
		}
	case int:
		if y, ok := b.(int); ok {
			return x < y
		}
	case int64:
		if y, ok := b.(int64); ok {
			return x < y
		}
	case uint64:
		if y, ok := b.(uint64); ok {
			return x < y
		}
	}
	return fmt.Sprint(a) < fmt.Sprint(b)
}

func newOrderedMapIter(m map[value]value, order int) iter {
	it := &orderedMapIter{}
	for k := range m {
		it.keys = append(it.keys, k)
	}
	sort.Slice(it.keys, func(i, j int) bool { return keyLess(it.keys[i], it.keys[j]) })
	if order == 1 {
		for i, j := 0, len(it.keys)-1; i < j; i, j = i+1, j-1 {
			it.keys[i], it.keys[j] = it.keys[j], it.keys[i]
		}
	}
	for _, k := range it.keys {
		it.vals = append(it.vals, m[k])
	}
	return it
}

func newOrderedHashmapIter(m *hashmap, order int) iter {
	it := &orderedMapIter{}
	ents := m.sortedEntries()
	if order == 1 {
		for i, j := 0, len(ents)-1; i < j; i, j = i+1, j-1 {
			ents[i], ents[j] = ents[j], ents[i]
		}
	}
	for _, en := range ents {
		it.keys = append(it.keys, en.key)
		it.vals = append(it.vals, en.value)
	}
	return it
}

func (it *orderedMapIter) next() tuple {
	if it.pos >= len(it.keys) {
		return []value{false, nil, nil}
	}
	k, v := it.keys[it.pos], it.vals[it.pos]
	it.pos++
	return []value{true, k, v}
}


// observeDeep turns every leaf of an interpreter value into an observation: symbolic
// leaves as their terms, concrete leaves folded into one hash per value.
func (e *Engine) observeDeep(name string, v value, depth int) {
	if depth > 12 {
		return
	}
	switch x := v.(type) {
	case nil:
	case BigCell:
		e.observe(name, x.T)
	case SymInt:
		e.observe(name, x.T)
	case SymBool:
		e.observe(name, x.T)
	case SymString:
		for i, b := range x.B {
			e.observeDeep(fmt.Sprintf("%s[%d]", name, i), b, depth+1)
		}
	case bool:
		e.observe(name, TBool(x))
	case string:
		e.observe(name, K(new(big.Int).SetBytes([]byte(x))))
	case int, int8, int16, int32, int64, uint, uint8, uint16, uint32, uint64, uintptr:
		e.observe(name, termOfInt(x))
	case *value:
		if x != nil {
			e.observeDeep(name, *x, depth+1)
		}
	case iface:
		e.observeDeep(name, x.v, depth+1)
	case structure:
		for i, f := range x {
			e.observeDeep(fmt.Sprintf("%s.%d", name, i), f, depth+1)
		}
	case array:
		for i, f := range x {
			e.observeDeep(fmt.Sprintf("%s[%d]", name, i), f, depth+1)
		}
	case []value:
		e.observe(name+"#len", KI(int64(len(x))))
		allBytes := len(x) > 0
		for _, b := range x {
			if _, ok := b.(uint8); !ok {
				allBytes = false
			}
		}
		if allBytes {
			e.observe(name, K(new(big.Int).SetBytes(bytesOf(x))))
			return
		}
		for i, f := range x {
			e.observeDeep(fmt.Sprintf("%s[%d]", name, i), f, depth+1)
		}
	}
}
