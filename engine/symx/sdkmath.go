package symx

// SMT model of cosmossdk.io/math v1.4.0 (Int, LegacyDec, Uint) and the few
// math/big entry points Elys reaches through it. An Int/LegacyDec/Uint value is
// structure{ *value -> BigCell{term} }: the cell is the *big.Int, so the
// aliasing behaviour of the *Mut methods is kept.

import (
	"fmt"
	"go/types"
	"math/big"
	"strings"

	"golang.org/x/tools/go/ssa"
)

var kE = K(E18)
var kE36 = K(new(big.Int).Mul(E18, E18))

func cellPtr(v value) *value {
	p := v.(structure)[0].(*value)
	if p == nil {
		panic(targetPanic{"runtime error: invalid memory address or nil pointer dereference (nil sdkmath value)"})
	}
	return p
}

func cellOf(v value) *Term {
	c, ok := (*cellPtr(v)).(BigCell)
	if !ok {
		panic(engineBug{fmt.Sprintf("sdkmath cell holds %T", *cellPtr(v))})
	}
	return c.T
}
func bigOf(v value) *Term {
	p := v.(*value)
	if p == nil {
		panic(targetPanic{"runtime error: invalid memory address or nil pointer dereference (nil *big.Int)"})
	}
	switch c := (*p).(type) {
	case BigCell:
		return c.T
	case structure: // zero big.Int made by new(big.Int)
		return KI(0)
	}
	panic(engineBug{fmt.Sprintf("big.Int cell holds %T", *p)})
}
func mkBig(t *Term) value {
	var cell value = BigCell{t}
	return &cell
}
func mkNum(t *Term) value {
	var cell value = BigCell{t}
	return structure{&cell}
}
func nilNum() value { return structure{(*value)(nil)} }

func sb(t *Term) value {
	switch t.Op {
	case "true":
		return true
	case "false":
		return false
	}
	return SymBool{t}
}

func rheConc(n, d *big.Int) *big.Int {
	neg := n.Sign() < 0
	a := new(big.Int).Abs(n)
	q, r := new(big.Int).QuoRem(a, d, new(big.Int))
	c := new(big.Int).Mul(r, big.NewInt(2)).Cmp(d)
	if c > 0 || (c == 0 && q.Bit(0) == 1) {
		q.Add(q, big.NewInt(1))
	}
	if neg {
		q.Neg(q)
	}
	return q
}

func (e *Engine) relational() bool { return e.spec != nil && e.spec.Relational }

// rhe = round half even of n/d, d > 0.
func (e *Engine) rhe(n, d *Term, hint string) *Term {
	if n.IsK() && d.IsK() {
		return K(rheConc(n.Val, d.Val))
	}
	if d.IsK() && d.Val.Cmp(E18) == 0 {
		if q, ok := DivE(n); ok {
			return q // exactly divisible: nothing to round
		}
	}
	if e.relational() {
		key := "rhe:" + n.String() + "/" + d.String()
		if q, ok := e.roundMemo[key]; ok {
			return q
		}
		q := e.keyedVar(hint+"_q", key)
		e.roundMemo[key] = q
		r := e.keyedVar(hint+"_e", key)
		e.pc = append(e.pc, Cmp("=", Mul(q, d), Add(n, r)))
		e.pc = append(e.pc, Cmp("<=", Mul(KI(2), r), d))
		e.pc = append(e.pc, Cmp(">=", Mul(KI(2), r), Neg(d)))
		e.defs = append(e.defs, Cmp("=", q, Op2("rhe", n, d)))
		e.refine = append(e.refine, e.tieRule(q, r, d, key))
		e.signLemma(q, n, false)
		return q
	}
	return Op2("rhe", n, d)
}

// tieRule: at an exact tie (2r = ±d) the quotient is even (round half to even).
func (e *Engine) tieRule(q, r, d *Term, key string) *Term {
	k := e.keyedVar("even", key)
	tie := Or(Cmp("=", Mul(KI(2), r), d), Cmp("=", Mul(KI(2), r), Neg(d)))
	return Or(Not(tie), Cmp("=", q, Mul(KI(2), k)))
}

// trunc = n/d rounded toward zero, d > 0.
func (e *Engine) trunc(n, d *Term, hint string) *Term {
	if n.IsK() && d.IsK() {
		return K(new(big.Int).Quo(n.Val, d.Val))
	}
	if d.IsK() && d.Val.Cmp(E18) == 0 {
		if q, ok := DivE(n); ok {
			return q // exactly divisible: nothing to round
		}
	}
	if e.relational() {
		key := "trunc:" + n.String() + "/" + d.String()
		if q, ok := e.roundMemo[key]; ok {
			return q
		}
		q := e.keyedVar(hint+"_q", key)
		e.roundMemo[key] = q
		r := e.keyedVar(hint+"_r", key)
		e.pc = append(e.pc, Cmp("=", n, Add(Mul(q, d), r)))
		e.pc = append(e.pc, Ite(Cmp(">=", n, KI(0)),
			And(Cmp(">=", r, KI(0)), Cmp("<", r, d)),
			And(Cmp("<=", r, KI(0)), Cmp(">", r, Neg(d)))))
		e.signLemma(q, n, false)
		return q
	}
	return Op2("tdiv", n, d)
}

// ceil = ceiling of n/d, d > 0.
func (e *Engine) ceil(n, d *Term, hint string) *Term {
	if n.IsK() && d.IsK() {
		q, m := new(big.Int).DivMod(n.Val, d.Val, new(big.Int))
		if m.Sign() != 0 {
			q.Add(q, big.NewInt(1))
		}
		return K(q)
	}
	if e.relational() {
		key := "ceil:" + n.String() + "/" + d.String()
		if q, ok := e.roundMemo[key]; ok {
			return q
		}
		q := e.keyedVar(hint+"_q", key)
		e.roundMemo[key] = q
		r := e.keyedVar(hint+"_r", key)
		e.pc = append(e.pc, Cmp("=", Mul(q, d), Add(n, r)))
		e.pc = append(e.pc, Cmp(">=", r, KI(0)))
		e.pc = append(e.pc, Cmp("<", r, d))
		e.signLemma(q, n, true)
		return q
	}
	return Op2("cdiv", n, d)
}

func (e *Engine) decMul(a, b *Term) *Term {
	if q, ok := DivE(a); ok {
		return Mul(q, b)
	}
	if q, ok := DivE(b); ok {
		return Mul(a, q)
	}
	return e.rhe(Mul(a, b), kE, "mul")
}

func (e *Engine) divZero(b *Term) {
	if e.decide(Cmp("=", b, KI(0))) {
		panic(targetPanic{"division by zero"})
	}
}

// decQuo mirrors LegacyDec.QuoMut: rhe(trunc(a*1e36/b), 1e18).
func (e *Engine) decQuo(a, b *Term) *Term {
	e.divZero(b)
	if a.IsK() && b.IsK() {
		q := new(big.Int).Quo(new(big.Int).Mul(a.Val, kE36.Val), b.Val)
		return K(rheConc(q, E18))
	}
	if a.IsK() && a.Val.Sign() == 0 {
		return KI(0)
	}
	if q, ok := DivE(b); ok && q.IsK() && q.Val.Sign() > 0 {
		// division by an integer-valued constant: trunc(a*1e36/(k*1e18)) then rounding: keep exact two-step only
		// when it matters; a*1e18/k with double rounding
		_ = q
	}
	if !b.IsK() {
		if e.decide(Cmp("<", b, KI(0))) {
			a, b = Neg(a), Neg(b)
		}
	} else if b.Val.Sign() < 0 {
		a, b = Neg(a), Neg(b)
	}
	exact := Op2("rhe", Op2("tdiv", Mul(a, kE36), b), kE)
	if e.relational() {
		key := "quo:" + a.String() + "/" + b.String()
		if q, ok := e.roundMemo[key]; ok {
			return q
		}
		q := e.keyedVar("quo_q", key)
		e.roundMemo[key] = q
		r := e.keyedVar("quo_e", key)
		// q*b = a*1e18 + r ; 2|r|*1e18 <= b*(1e18+2)  (superset of the double rounding)
		e.pc = append(e.pc, Cmp("=", Mul(q, b), Add(Mul(a, kE), r)))
		bound := Mul(b, K(new(big.Int).Add(E18, big.NewInt(2))))
		e.pc = append(e.pc, Cmp("<=", Mul(K(new(big.Int).Mul(big.NewInt(2), E18)), r), bound))
		e.pc = append(e.pc, Cmp(">=", Mul(K(new(big.Int).Mul(big.NewInt(2), E18)), r), Neg(bound)))
		e.defs = append(e.defs, Cmp("=", q, exact))
		// refinement (b > 0 here): t = trunc(a*1e36/b), q = rhe(t, 1e18)
		t, rt, r2 := e.keyedVar("quo_t", key), e.keyedVar("quo_rt", key), e.keyedVar("quo_r2", key)
		e.refine = append(e.refine, Cmp("=", Mul(a, kE36), Add(Mul(t, b), rt)))
		e.refine = append(e.refine, Ite(Cmp(">=", a, KI(0)),
			And(Cmp(">=", rt, KI(0)), Cmp("<", rt, b)),
			And(Cmp("<=", rt, KI(0)), Cmp(">", rt, Neg(b)))))
		e.refine = append(e.refine, Cmp("=", Mul(q, kE), Add(t, r2)))
		e.refine = append(e.refine, Cmp("<=", Mul(KI(2), r2), kE))
		e.refine = append(e.refine, Cmp(">=", Mul(KI(2), r2), Neg(kE)))
		e.refine = append(e.refine, e.tieRule(q, r2, kE, key))
		e.signLemma(q, a, false)
		return q
	}
	return exact
}

func (e *Engine) intRange(t *Term, k types.BasicKind, what string) value {
	bits, signed := bitsOf(k)
	var lo, hi *big.Int
	if signed {
		hi = new(big.Int).Sub(new(big.Int).Lsh(big.NewInt(1), bits-1), big.NewInt(1))
		lo = new(big.Int).Neg(new(big.Int).Lsh(big.NewInt(1), bits-1))
	} else {
		lo = big.NewInt(0)
		hi = new(big.Int).Sub(new(big.Int).Lsh(big.NewInt(1), bits), big.NewInt(1))
	}
	if !e.decide(And(Cmp(">=", t, K(lo)), Cmp("<=", t, K(hi)))) {
		panic(targetPanic{what + " out of bound"})
	}
	return concretize(t, k)
}

func parseDec(s string) (*big.Int, bool) {
	neg := strings.HasPrefix(s, "-")
	s = strings.TrimPrefix(s, "-")
	if s == "" {
		return nil, false
	}
	parts := strings.SplitN(s, ".", 2)
	frac := ""
	if len(parts) == 2 {
		frac = parts[1]
		if frac == "" {
			return nil, false
		}
	}
	if len(frac) > 18 {
		return nil, false
	}
	for len(frac) < 18 {
		frac += "0"
	}
	v, ok := new(big.Int).SetString(parts[0]+frac, 10)
	if !ok {
		return nil, false
	}
	if neg {
		v.Neg(v)
	}
	return v, true
}

func numString(t *Term, dec bool) string {
	if t.IsK() {
		if !dec {
			return t.Val.String()
		}
		neg := t.Val.Sign() < 0
		a := new(big.Int).Abs(t.Val)
		q, r := new(big.Int).QuoRem(a, E18, new(big.Int))
		s := fmt.Sprintf("%s.%018s", q.String(), r.String())
		if neg {
			s = "-" + s
		}
		return s
	}
	s := t.String()
	if len(s) > 40 {
		s = s[:40]
	}
	return "<sym " + s + ">"
}

func init() {
	m := "cosmossdk.io/math."
	ext := map[string]externalFn{}
	eng := func(fr *frame) *Engine { return fr.i.eng }

	bin := func(f func(a, b *Term) *Term) externalFn {
		return func(fr *frame, args []value) value { return mkNum(f(cellOf(args[0]), cellOf(args[1]))) }
	}
	cmp := func(op string) externalFn {
		return func(fr *frame, args []value) value { return sb(Cmp(op, cellOf(args[0]), cellOf(args[1]))) }
	}
	sgn := func(op string) externalFn {
		return func(fr *frame, args []value) value { return sb(Cmp(op, cellOf(args[0]), KI(0))) }
	}
	isNil := func(fr *frame, args []value) value { return args[0].(structure)[0].(*value) == nil }
	mut := func(f func(e *Engine, a, b *Term) *Term) externalFn {
		return func(fr *frame, args []value) value {
			p := cellPtr(args[0])
			*p = BigCell{f(eng(fr), (*p).(BigCell).T, cellOf(args[1]))}
			return args[0]
		}
	}
	signF := func(fr *frame, args []value) value {
		a := cellOf(args[0])
		return concretize(Ite(Cmp("<", a, KI(0)), KI(-1), Ite(Cmp(">", a, KI(0)), KI(1), KI(0))), types.Int)
	}
	minmax := func(op string) externalFn {
		return func(fr *frame, args []value) value {
			a, b := cellOf(args[0]), cellOf(args[1])
			return mkNum(Ite(Cmp(op, a, b), a, b))
		}
	}

	for _, T := range []string{"Int", "LegacyDec", "Uint"} {
		R := "(cosmossdk.io/math." + T + ")."
		ext[R+"Add"] = bin(Add)
		ext[R+"Sub"] = bin(Sub)
		ext[R+"LT"] = cmp("<")
		ext[R+"LTE"] = cmp("<=")
		ext[R+"GT"] = cmp(">")
		ext[R+"GTE"] = cmp(">=")
		ext[R+"Equal"] = cmp("=")
		ext[R+"IsZero"] = sgn("=")
		ext[R+"IsPositive"] = sgn(">")
		ext[R+"IsNegative"] = sgn("<")
		ext[R+"IsNil"] = isNil
		ext[R+"Sign"] = signF
		ext[R+"Neg"] = func(fr *frame, args []value) value { return mkNum(Neg(cellOf(args[0]))) }
		ext[R+"Abs"] = func(fr *frame, args []value) value {
			a := cellOf(args[0])
			return mkNum(Ite(Cmp("<", a, KI(0)), Neg(a), a))
		}
		ext[R+"BigInt"] = func(fr *frame, args []value) value {
			if args[0].(structure)[0].(*value) == nil {
				return (*value)(nil)
			}
			return mkBig(cellOf(args[0]))
		}
		ext[R+"BigIntMut"] = func(fr *frame, args []value) value { return args[0].(structure)[0] }
		dec := T == "LegacyDec"
		ext[R+"String"] = func(fr *frame, args []value) value {
			if args[0].(structure)[0].(*value) == nil {
				return "<nil>"
			}
			return numString(cellOf(args[0]), dec)
		}
	}
	I := "(cosmossdk.io/math.Int)."
	D := "(cosmossdk.io/math.LegacyDec)."
	U := "(cosmossdk.io/math.Uint)."

	// ---- constructors ----
	ext[m+"NewInt"] = func(fr *frame, args []value) value { return mkNum(termOfInt(args[0])) }
	ext[m+"NewIntFromUint64"] = func(fr *frame, args []value) value { return mkNum(termOfInt(args[0])) }
	ext[m+"NewUint"] = func(fr *frame, args []value) value { return mkNum(termOfInt(args[0])) }
	ext[m+"ZeroInt"] = func(fr *frame, args []value) value { return mkNum(KI(0)) }
	ext[m+"OneInt"] = func(fr *frame, args []value) value { return mkNum(KI(1)) }
	ext[m+"ZeroUint"] = func(fr *frame, args []value) value { return mkNum(KI(0)) }
	ext[m+"OneUint"] = func(fr *frame, args []value) value { return mkNum(KI(1)) }
	ext[m+"NewIntFromBigInt"] = func(fr *frame, args []value) value {
		if args[0].(*value) == nil {
			return nilNum()
		}
		return mkNum(bigOf(args[0]))
	}
	ext[m+"NewIntFromBigIntMut"] = ext[m+"NewIntFromBigInt"]
	ext[m+"NewIntWithDecimal"] = func(fr *frame, args []value) value {
		p := new(big.Int).Exp(big.NewInt(10), big.NewInt(int64(args[1].(int))), nil)
		return mkNum(Mul(termOfInt(args[0]), K(p)))
	}
	ext[m+"NewIntFromString"] = func(fr *frame, args []value) value {
		v, ok := new(big.Int).SetString(args[0].(string), 0)
		if !ok {
			return tuple{nilNum(), false}
		}
		return tuple{mkNum(K(v)), true}
	}
	ext[m+"LegacyNewDec"] = func(fr *frame, args []value) value { return mkNum(Mul(termOfInt(args[0]), kE)) }
	ext[m+"LegacyZeroDec"] = func(fr *frame, args []value) value { return mkNum(KI(0)) }
	ext[m+"LegacyOneDec"] = func(fr *frame, args []value) value { return mkNum(kE) }
	ext[m+"LegacySmallestDec"] = func(fr *frame, args []value) value { return mkNum(KI(1)) }
	ext[m+"LegacyNewDecFromInt"] = func(fr *frame, args []value) value { return mkNum(Mul(cellOf(args[0]), kE)) }
	ext[m+"LegacyNewDecFromBigInt"] = func(fr *frame, args []value) value { return mkNum(Mul(bigOf(args[0]), kE)) }
	prec := func(p int64) *Term {
		if p < 0 || p > 18 {
			panic(targetPanic{fmt.Sprintf("too much precision, maximum 18, provided %d", p)})
		}
		return K(new(big.Int).Exp(big.NewInt(10), big.NewInt(18-p), nil))
	}
	ext[m+"LegacyNewDecWithPrec"] = func(fr *frame, args []value) value {
		return mkNum(Mul(termOfInt(args[0]), prec(args[1].(int64))))
	}
	ext[m+"LegacyNewDecFromIntWithPrec"] = func(fr *frame, args []value) value {
		return mkNum(Mul(cellOf(args[0]), prec(args[1].(int64))))
	}
	ext[m+"LegacyNewDecFromBigIntWithPrec"] = func(fr *frame, args []value) value {
		return mkNum(Mul(bigOf(args[0]), prec(args[1].(int64))))
	}
	ext[m+"LegacyMustNewDecFromStr"] = func(fr *frame, args []value) value {
		v, ok := parseDec(args[0].(string))
		if !ok {
			panic(targetPanic{"failed to set decimal string: " + args[0].(string)})
		}
		return mkNum(K(v))
	}
	ext[m+"LegacyNewDecFromStr"] = func(fr *frame, args []value) value {
		v, ok := parseDec(args[0].(string))
		if !ok {
			return tuple{nilNum(), iface{t: fr.i.runtimeErrorString, v: "failed to set decimal string: " + args[0].(string)}}
		}
		return tuple{mkNum(K(v)), iface{}}
	}
	ext[m+"MinInt"] = minmax("<")
	ext[m+"MaxInt"] = minmax(">")
	ext[m+"MinUint"] = minmax("<")
	ext[m+"MaxUint"] = minmax(">")
	ext[m+"LegacyMinDec"] = minmax("<")
	ext[m+"LegacyMaxDec"] = minmax(">")

	// ---- Int ----
	ext[I+"Mul"] = bin(Mul)
	ext[I+"MulRaw"] = func(fr *frame, args []value) value { return mkNum(Mul(cellOf(args[0]), termOfInt(args[1]))) }
	ext[I+"AddRaw"] = func(fr *frame, args []value) value { return mkNum(Add(cellOf(args[0]), termOfInt(args[1]))) }
	ext[I+"SubRaw"] = func(fr *frame, args []value) value { return mkNum(Sub(cellOf(args[0]), termOfInt(args[1]))) }
	iquo := func(fr *frame, a, b *Term) value {
		e := eng(fr)
		e.divZero(b)
		if a.IsK() && b.IsK() {
			return mkNum(K(new(big.Int).Quo(a.Val, b.Val)))
		}
		if !b.IsK() {
			if e.decide(Cmp("<", b, KI(0))) {
				a, b = Neg(a), Neg(b)
			}
		} else if b.Val.Sign() < 0 {
			a, b = Neg(a), Neg(b)
		}
		return mkNum(e.trunc(a, b, "iquo"))
	}
	ext[I+"Quo"] = func(fr *frame, args []value) value { return iquo(fr, cellOf(args[0]), cellOf(args[1])) }
	ext[I+"QuoRaw"] = func(fr *frame, args []value) value { return iquo(fr, cellOf(args[0]), termOfInt(args[1])) }
	ext[I+"Mod"] = func(fr *frame, args []value) value {
		// big.Int.Mod: Euclidean modulus; sdk panics on zero divisor
		e := eng(fr)
		a, b := cellOf(args[0]), cellOf(args[1])
		e.divZero(b)
		return mkNum(Op2("mod", a, b))
	}
	ext[I+"ToLegacyDec"] = func(fr *frame, args []value) value { return mkNum(Mul(cellOf(args[0]), kE)) }
	ext[I+"Int64"] = func(fr *frame, args []value) value { return eng(fr).intRange(cellOf(args[0]), types.Int64, "Int64()") }
	ext[I+"Uint64"] = func(fr *frame, args []value) value { return eng(fr).intRange(cellOf(args[0]), types.Uint64, "Uint64()") }
	ext[U+"Uint64"] = ext[I+"Uint64"]
	ext[I+"IsInt64"] = func(fr *frame, args []value) value {
		t := cellOf(args[0])
		return sb(And(Cmp(">=", t, K(new(big.Int).Neg(new(big.Int).Lsh(big.NewInt(1), 63)))), Cmp("<", t, K(new(big.Int).Lsh(big.NewInt(1), 63)))))
	}
	ext[I+"IsUint64"] = func(fr *frame, args []value) value {
		t := cellOf(args[0])
		return sb(And(Cmp(">=", t, KI(0)), Cmp("<", t, K(new(big.Int).Lsh(big.NewInt(1), 64)))))
	}
	ext[U+"Mul"] = bin(Mul)
	ext[U+"Quo"] = ext[I+"Quo"]
	ext[U+"Sub"] = func(fr *frame, args []value) value {
		e := eng(fr)
		r := Sub(cellOf(args[0]), cellOf(args[1]))
		if e.decide(Cmp("<", r, KI(0))) {
			panic(targetPanic{"Uint overflow"})
		}
		return mkNum(r)
	}

	// ---- LegacyDec ----
	ext[D+"Mul"] = func(fr *frame, args []value) value { return mkNum(eng(fr).decMul(cellOf(args[0]), cellOf(args[1]))) }
	ext[D+"MulTruncate"] = func(fr *frame, args []value) value {
		a, b := cellOf(args[0]), cellOf(args[1])
		if q, ok := DivE(a); ok {
			return mkNum(Mul(q, b))
		}
		if q, ok := DivE(b); ok {
			return mkNum(Mul(a, q))
		}
		return mkNum(eng(fr).trunc(Mul(a, b), kE, "mult"))
	}
	ext[D+"MulInt"] = func(fr *frame, args []value) value { return mkNum(Mul(cellOf(args[0]), cellOf(args[1]))) }
	ext[D+"MulInt64"] = func(fr *frame, args []value) value { return mkNum(Mul(cellOf(args[0]), termOfInt(args[1]))) }
	ext[D+"Quo"] = func(fr *frame, args []value) value { return mkNum(eng(fr).decQuo(cellOf(args[0]), cellOf(args[1]))) }
	quoTrunc := func(e *Engine, a, b *Term) *Term {
		e.divZero(b)
		if !b.IsK() {
			if e.decide(Cmp("<", b, KI(0))) {
				a, b = Neg(a), Neg(b)
			}
		} else if b.Val.Sign() < 0 {
			a, b = Neg(a), Neg(b)
		}
		return e.trunc(Mul(a, kE), b, "quot")
	}
	ext[D+"QuoTruncate"] = func(fr *frame, args []value) value {
		return mkNum(quoTrunc(eng(fr), cellOf(args[0]), cellOf(args[1])))
	}
	ext[D+"QuoInt"] = func(fr *frame, args []value) value { return iquo(fr, cellOf(args[0]), cellOf(args[1])) }
	ext[D+"QuoInt64"] = func(fr *frame, args []value) value { return iquo(fr, cellOf(args[0]), termOfInt(args[1])) }
	ext[D+"TruncateInt"] = func(fr *frame, args []value) value { return mkNum(eng(fr).trunc(cellOf(args[0]), kE, "trunc")) }
	ext[D+"TruncateDec"] = func(fr *frame, args []value) value {
		return mkNum(Mul(eng(fr).trunc(cellOf(args[0]), kE, "truncd"), kE))
	}
	ext[D+"RoundInt"] = func(fr *frame, args []value) value {
		a := cellOf(args[0])
		if q, ok := DivE(a); ok {
			return mkNum(q)
		}
		return mkNum(eng(fr).rhe(a, kE, "round"))
	}
	ext[D+"TruncateInt64"] = func(fr *frame, args []value) value {
		e := eng(fr)
		return e.intRange(e.trunc(cellOf(args[0]), kE, "trunc64"), types.Int64, "Int64()")
	}
	ext[D+"RoundInt64"] = func(fr *frame, args []value) value {
		e := eng(fr)
		return e.intRange(e.rhe(cellOf(args[0]), kE, "round64"), types.Int64, "Int64()")
	}
	ext[D+"Ceil"] = func(fr *frame, args []value) value {
		a := cellOf(args[0])
		if _, ok := DivE(a); ok {
			return mkNum(a)
		}
		return mkNum(Mul(eng(fr).ceil(a, kE, "ceil"), kE))
	}
	ext[D+"IsInteger"] = func(fr *frame, args []value) value {
		a := cellOf(args[0])
		if _, ok := DivE(a); ok {
			return true
		}
		return sb(Cmp("=", Op2("mod", a, kE), KI(0)))
	}
	ext[D+"Clone"] = func(fr *frame, args []value) value { return mkNum(cellOf(args[0])) }
	ext[D+"Set"] = func(fr *frame, args []value) value {
		p := cellPtr(args[0])
		*p = BigCell{cellOf(args[1])}
		return args[0]
	}
	ext[D+"SetInt64"] = func(fr *frame, args []value) value {
		p := cellPtr(args[0])
		*p = BigCell{Mul(termOfInt(args[1]), kE)}
		return args[0]
	}
	ext[D+"AddMut"] = mut(func(e *Engine, a, b *Term) *Term { return Add(a, b) })
	ext[D+"SubMut"] = mut(func(e *Engine, a, b *Term) *Term { return Sub(a, b) })
	ext[D+"MulMut"] = mut(func(e *Engine, a, b *Term) *Term { return e.decMul(a, b) })
	ext[D+"QuoMut"] = mut(func(e *Engine, a, b *Term) *Term { return e.decQuo(a, b) })
	ext[D+"QuoTruncateMut"] = mut(quoTrunc)
	ext[D+"MulIntMut"] = mut(func(e *Engine, a, b *Term) *Term { return Mul(a, b) })
	ext[D+"NegMut"] = func(fr *frame, args []value) value {
		p := cellPtr(args[0])
		*p = BigCell{Neg((*p).(BigCell).T)}
		return args[0]
	}
	ext[D+"AbsMut"] = func(fr *frame, args []value) value {
		p := cellPtr(args[0])
		a := (*p).(BigCell).T
		*p = BigCell{Ite(Cmp("<", a, KI(0)), Neg(a), a)}
		return args[0]
	}
	ext[D+"Power"] = func(fr *frame, args []value) value {
		e := eng(fr)
		pw, ok := args[1].(uint64)
		if !ok {
			panic(pathAbort{"symbolic exponent in LegacyDec.Power"})
		}
		base := cellOf(args[0])
		if pw == 0 {
			return mkNum(kE)
		}
		d := base
		tmp := kE
		for i := pw; i > 1; {
			if i%2 != 0 {
				tmp = e.decMul(tmp, d)
			}
			i /= 2
			d = e.decMul(d, d)
		}
		return mkNum(e.decMul(d, tmp))
	}
	// ApproxRoot / ApproxSqrt: Newton iteration of the library, for concrete operands only (concrete re-execution
	// of counter-examples); a symbolic operand aborts the path (harnesses put a contract at the caller instead)
	approxRoot := func(fr *frame, d *Term, root uint64) value {
		e := eng(fr)
		if !d.IsK() {
			panic(pathAbort{"symbolic operand in LegacyDec.ApproxRoot"})
		}
		if root == 0 {
			return tuple{mkNum(kE), iface{}}
		}
		neg := d.Val.Sign() < 0
		x := new(big.Int).Abs(d.Val)
		if root == 1 || x.Sign() == 0 || x.Cmp(E18) == 0 {
			return tuple{mkNum(d), iface{}}
		}
		pow := func(b *big.Int, pw uint64) *big.Int {
			if pw == 0 {
				return new(big.Int).Set(E18)
			}
			dd, tmp := K(b), kE
			for i := pw; i > 1; {
				if i%2 != 0 {
					tmp = e.decMul(tmp, dd)
				}
				i /= 2
				dd = e.decMul(dd, dd)
			}
			return e.decMul(dd, tmp).Val
		}
		guess := new(big.Int).Set(E18)
		for iter := 0; iter < 300; iter++ {
			prev := pow(guess, root-1)
			if prev.Sign() == 0 {
				prev = big.NewInt(1)
			}
			delta := new(big.Int).Set(e.decQuo(K(x), K(prev)).Val)
			delta.Sub(delta, guess)
			delta.Quo(delta, new(big.Int).SetUint64(root))
			guess = new(big.Int).Add(guess, delta)
			if new(big.Int).Abs(delta).Cmp(big.NewInt(1)) <= 0 {
				break
			}
		}
		if neg {
			guess.Neg(guess)
		}
		return tuple{mkNum(K(guess)), iface{}}
	}
	ext[D+"ApproxRoot"] = func(fr *frame, args []value) value {
		r, ok := args[1].(uint64)
		if !ok {
			panic(pathAbort{"symbolic root in LegacyDec.ApproxRoot"})
		}
		return approxRoot(fr, cellOf(args[0]), r)
	}
	ext[D+"ApproxSqrt"] = func(fr *frame, args []value) value { return approxRoot(fr, cellOf(args[0]), 2) }
	ext[D+"IsInValidRange"] = func(fr *frame, args []value) value { return true }

	// generic Max/Min instantiations are interpreted from SSA (they only use < on machine numbers)

	// ---- math/big (only what is reached with concrete or cell values) ----
	ext["math/big.NewInt"] = func(fr *frame, args []value) value { return mkBig(termOfInt(args[0])) }
	ext["(*math/big.Int).Sign"] = func(fr *frame, args []value) value {
		a := bigOf(args[0])
		return concretize(Ite(Cmp("<", a, KI(0)), KI(-1), Ite(Cmp(">", a, KI(0)), KI(1), KI(0))), types.Int)
	}
	ext["(*math/big.Int).Cmp"] = func(fr *frame, args []value) value {
		a, b := bigOf(args[0]), bigOf(args[1])
		return concretize(Ite(Cmp("<", a, b), KI(-1), Ite(Cmp(">", a, b), KI(1), KI(0))), types.Int)
	}
	ext["(*math/big.Int).String"] = func(fr *frame, args []value) value { return numString(bigOf(args[0]), false) }
	ext["(*math/big.Int).Int64"] = func(fr *frame, args []value) value {
		return concretize(wrap(bigOf(args[0]), types.Int64), types.Int64)
	}
	ext["(*math/big.Int).Uint64"] = func(fr *frame, args []value) value {
		return concretize(wrap(bigOf(args[0]), types.Uint64), types.Uint64)
	}
	ext["(*math/big.Int).IsInt64"] = func(fr *frame, args []value) value {
		t := bigOf(args[0])
		return sb(And(Cmp(">=", t, K(new(big.Int).Neg(new(big.Int).Lsh(big.NewInt(1), 63)))), Cmp("<", t, K(new(big.Int).Lsh(big.NewInt(1), 63)))))
	}
	big2 := func(f func(a, b *Term) *Term) externalFn {
		return func(fr *frame, args []value) value {
			p := args[0].(*value)
			*p = BigCell{f(bigOf(args[1]), bigOf(args[2]))}
			return p
		}
	}
	ext["(*math/big.Int).Add"] = big2(Add)
	ext["(*math/big.Int).Sub"] = big2(Sub)
	ext["(*math/big.Int).Mul"] = big2(Mul)
	ext["(*math/big.Int).Set"] = func(fr *frame, args []value) value {
		p := args[0].(*value)
		*p = BigCell{bigOf(args[1])}
		return p
	}
	ext["(*math/big.Int).SetInt64"] = func(fr *frame, args []value) value {
		p := args[0].(*value)
		*p = BigCell{termOfInt(args[1])}
		return p
	}
	ext["(*math/big.Int).SetUint64"] = ext["(*math/big.Int).SetInt64"]
	ext["(*math/big.Int).Neg"] = func(fr *frame, args []value) value {
		p := args[0].(*value)
		*p = BigCell{Neg(bigOf(args[1]))}
		return p
	}
	ext["(*math/big.Int).Quo"] = func(fr *frame, args []value) value {
		p := args[0].(*value)
		r := iquo(fr, bigOf(args[1]), bigOf(args[2]))
		*p = BigCell{cellOf(r)}
		return p
	}

	for k, v := range ext {
		externals[k] = v
	}
}

// zeroBig is used by zero(): a *big.Int field is a nil pointer (as in Go).

func (e *Engine) installMathGlobals() {
	p := e.P.Prog.ImportedPackage("cosmossdk.io/math")
	if p == nil {
		return
	}
	set := func(name string, v value) {
		if g, ok := p.Members[name].(*ssa.Global); ok {
			*e.I.globals[g] = v
		}
	}
	set("LegacyMaxSortableDec", mkNum(K(new(big.Int).Exp(big.NewInt(10), big.NewInt(36), nil))))
	set("MaxBitLen", 256)
}
