package symx

import (
	"fmt"
	"math/big"
	"strings"
)

// Term: SMT Int/Bool term with light algebraic simplification.
type Term struct {
	Op   string // "const","var","+","-","*","neg","ite", cmp ops, "and","or","not","true","false"
	Args []*Term
	Val  *big.Int
	Name string
	str  string
	nl   int8 // 0 unknown, 1 linear, 2 nonlinear
}

var E18 = new(big.Int).Exp(big.NewInt(10), big.NewInt(18), nil)

func K(v *big.Int) *Term   { return &Term{Op: "const", Val: new(big.Int).Set(v)} }
func KI(v int64) *Term     { return K(big.NewInt(v)) }
func V(name string) *Term  { return &Term{Op: "var", Name: name} }
func (t *Term) IsK() bool  { return t.Op == "const" }
func TBool(b bool) *Term {
	if b {
		return &Term{Op: "true"}
	}
	return &Term{Op: "false"}
}

func Add(a, b *Term) *Term {
	if a.IsK() && b.IsK() {
		return K(new(big.Int).Add(a.Val, b.Val))
	}
	if a.IsK() && a.Val.Sign() == 0 {
		return b
	}
	if b.IsK() && b.Val.Sign() == 0 {
		return a
	}
	return &Term{Op: "+", Args: []*Term{a, b}}
}
func Sub(a, b *Term) *Term {
	if a.IsK() && b.IsK() {
		return K(new(big.Int).Sub(a.Val, b.Val))
	}
	if b.IsK() && b.Val.Sign() == 0 {
		return a
	}
	return &Term{Op: "-", Args: []*Term{a, b}}
}
func Neg(a *Term) *Term {
	if a.IsK() {
		return K(new(big.Int).Neg(a.Val))
	}
	return &Term{Op: "neg", Args: []*Term{a}}
}
func Mul(a, b *Term) *Term {
	if a.IsK() && b.IsK() {
		return K(new(big.Int).Mul(a.Val, b.Val))
	}
	if a.IsK() && a.Val.Cmp(big.NewInt(1)) == 0 {
		return b
	}
	if b.IsK() && b.Val.Cmp(big.NewInt(1)) == 0 {
		return a
	}
	if (a.IsK() && a.Val.Sign() == 0) || (b.IsK() && b.Val.Sign() == 0) {
		return KI(0)
	}
	return &Term{Op: "*", Args: []*Term{a, b}}
}

// DivE returns t/1e18 if t is syntactically a multiple of 1e18.
func DivE(t *Term) (*Term, bool) {
	switch t.Op {
	case "const":
		q, r := new(big.Int).QuoRem(t.Val, E18, new(big.Int))
		if r.Sign() == 0 {
			return K(q), true
		}
	case "*":
		if q, ok := DivE(t.Args[0]); ok {
			return Mul(q, t.Args[1]), true
		}
		if q, ok := DivE(t.Args[1]); ok {
			return Mul(t.Args[0], q), true
		}
	case "+", "-":
		q0, ok0 := DivE(t.Args[0])
		q1, ok1 := DivE(t.Args[1])
		if ok0 && ok1 {
			if t.Op == "+" {
				return Add(q0, q1), true
			}
			return Sub(q0, q1), true
		}
	case "neg":
		if q, ok := DivE(t.Args[0]); ok {
			return Neg(q), true
		}
	}
	return nil, false
}

func Cmp(op string, a, b *Term) *Term {
	if a.IsK() && b.IsK() {
		c := a.Val.Cmp(b.Val)
		switch op {
		case "<":
			return TBool(c < 0)
		case "<=":
			return TBool(c <= 0)
		case ">":
			return TBool(c > 0)
		case ">=":
			return TBool(c >= 0)
		case "=":
			return TBool(c == 0)
		}
	}
	return &Term{Op: op, Args: []*Term{a, b}}
}
func Not(a *Term) *Term {
	switch a.Op {
	case "true":
		return TBool(false)
	case "false":
		return TBool(true)
	case "not":
		return a.Args[0]
	}
	return &Term{Op: "not", Args: []*Term{a}}
}
func And(a, b *Term) *Term {
	switch {
	case a.Op == "true":
		return b
	case b.Op == "true":
		return a
	case a.Op == "false" || b.Op == "false":
		return TBool(false)
	}
	return &Term{Op: "and", Args: []*Term{a, b}}
}
func Or(a, b *Term) *Term {
	switch {
	case a.Op == "false":
		return b
	case b.Op == "false":
		return a
	case a.Op == "true" || b.Op == "true":
		return TBool(true)
	}
	return &Term{Op: "or", Args: []*Term{a, b}}
}
func Ite(c, a, b *Term) *Term {
	switch c.Op {
	case "true":
		return a
	case "false":
		return b
	}
	return &Term{Op: "ite", Args: []*Term{c, a, b}}
}
func Op2(op string, a, b *Term) *Term { return &Term{Op: op, Args: []*Term{a, b}} }

// Eval evaluates a term under an assignment (booleans as 0/1).
func Eval(t *Term, env map[string]*big.Int) (*big.Int, error) {
	b2i := func(b bool) *big.Int {
		if b {
			return big.NewInt(1)
		}
		return big.NewInt(0)
	}
	switch t.Op {
	case "const":
		return t.Val, nil
	case "true":
		return big.NewInt(1), nil
	case "false":
		return big.NewInt(0), nil
	case "var":
		if v, ok := env[strings.Trim(t.Name, "|")]; ok {
			return v, nil
		}
		return nil, fmt.Errorf("no value for %s", t.Name)
	}
	args := make([]*big.Int, len(t.Args))
	for i, a := range t.Args {
		if t.Op == "ite" && i > 0 {
			continue
		}
		v, err := Eval(a, env)
		if err != nil {
			return nil, err
		}
		args[i] = v
	}
	switch t.Op {
	case "be8":
		p := new(big.Int).Lsh(big.NewInt(1), uint(8*(7-t.Val.Int64())))
		q, _ := new(big.Int).DivMod(args[0], p, new(big.Int))
		return q.Mod(q, big.NewInt(256)), nil
	case "+":
		return new(big.Int).Add(args[0], args[1]), nil
	case "-":
		return new(big.Int).Sub(args[0], args[1]), nil
	case "*":
		return new(big.Int).Mul(args[0], args[1]), nil
	case "neg":
		return new(big.Int).Neg(args[0]), nil
	case "abs":
		return new(big.Int).Abs(args[0]), nil
	case "ite":
		if args[0].Sign() != 0 {
			return Eval(t.Args[1], env)
		}
		return Eval(t.Args[2], env)
	case "<":
		return b2i(args[0].Cmp(args[1]) < 0), nil
	case "<=":
		return b2i(args[0].Cmp(args[1]) <= 0), nil
	case ">":
		return b2i(args[0].Cmp(args[1]) > 0), nil
	case ">=":
		return b2i(args[0].Cmp(args[1]) >= 0), nil
	case "=":
		return b2i(args[0].Cmp(args[1]) == 0), nil
	case "and":
		return b2i(args[0].Sign() != 0 && args[1].Sign() != 0), nil
	case "or":
		return b2i(args[0].Sign() != 0 || args[1].Sign() != 0), nil
	case "not":
		return b2i(args[0].Sign() == 0), nil
	case "div", "mod":
		if args[1].Sign() == 0 {
			return nil, fmt.Errorf("division by zero in model evaluation")
		}
		q, m := new(big.Int).DivMod(args[0], args[1], new(big.Int)) // Euclidean, as SMT-LIB
		if t.Op == "div" {
			return q, nil
		}
		return m, nil
	case "tdiv":
		if args[1].Sign() == 0 {
			return nil, fmt.Errorf("division by zero in model evaluation")
		}
		return new(big.Int).Quo(args[0], args[1]), nil
	case "cdiv":
		if args[1].Sign() <= 0 {
			return nil, fmt.Errorf("cdiv by non-positive")
		}
		q, _ := new(big.Int).DivMod(new(big.Int).Neg(args[0]), args[1], new(big.Int))
		return q.Neg(q), nil
	case "rhe":
		if args[1].Sign() <= 0 {
			return nil, fmt.Errorf("rhe by non-positive")
		}
		return rheConc(args[0], args[1]), nil
	}
	return nil, fmt.Errorf("eval: unsupported op %s", t.Op)
}

func (t *Term) String() string {
	if t.str == "" {
		t.str = t.render()
	}
	return t.str
}

func (t *Term) render() string {
	switch t.Op {
	case "be8": // byte Val (0 = most significant) of the 8-byte big-endian encoding of Args[0]
		p := new(big.Int).Lsh(big.NewInt(1), uint(8*(7-t.Val.Int64())))
		return "(mod (div " + t.Args[0].String() + " " + p.String() + ") 256)"
	case "const":
		if t.Val.Sign() < 0 {
			return "(- " + new(big.Int).Neg(t.Val).String() + ")"
		}
		return t.Val.String()
	case "var":
		return t.Name
	case "true", "false":
		return t.Op
	case "neg":
		return "(- " + t.Args[0].String() + ")"
	}
	var sb strings.Builder
	sb.WriteString("(" + t.Op)
	for _, a := range t.Args {
		sb.WriteString(" " + a.String())
	}
	sb.WriteString(")")
	return sb.String()
}

var _ = fmt.Sprintf


// Nonlinear reports whether t contains a product of two non-constant terms or
// a division by a non-constant term.
func (t *Term) Nonlinear() bool {
	if t.nl != 0 {
		return t.nl == 2
	}
	r := false
	switch t.Op {
	case "*":
		if !t.Args[0].IsK() && !t.Args[1].IsK() {
			r = true
		}
	case "div", "mod", "tdiv", "rhe", "cdiv":
		if !t.Args[1].IsK() {
			r = true
		}
	}
	if !r {
		for _, a := range t.Args {
			if a.Nonlinear() {
				r = true
				break
			}
		}
	}
	if r {
		t.nl = 2
	} else {
		t.nl = 1
	}
	return r
}
