package symx

import (
	"fmt"
	"math/big"
	"sort"
	"strings"
)

// Term: SMT Int/Bool term with light algebraic simplification.
type Term struct {
	Op   string // "const","var","+","-","*","neg","ite", cmp ops, "and","or","not","true","false"
	Args []*Term
	Val  *big.Int
	Name string
	str  string
	nl   int8 // 0 unknown, 1 linear, 2 nonlinear
	lf   *lin // canonical linear form (Op "lin" terms have only this)
}

var E18 = new(big.Int).Exp(big.NewInt(10), big.NewInt(18), nil)

func K(v *big.Int) *Term   { return &Term{Op: "const", Val: new(big.Int).Set(v)} }
func KI(v int64) *Term     { return K(big.NewInt(v)) }
func V(name string) *Term  { return &Term{Op: "var", Name: name} }
func (t *Term) IsK() bool  { return t.Op == "const" }
func TBool(b bool) *Term {
	if b {
		return &Term{Op: "true"}
	}
	return &Term{Op: "false"}
}

// ---- canonical linear normal form ----
//
// Every arithmetic term is kept as  c0 + c1*a1 + ... + cn*an  with the atoms a_i
// (variables, products of non-constants, ite/div/mod/... terms) sorted by their
// rendering and distinct. Sums therefore cancel syntactically ((s+q)-s = q) and
// a*b and b*a are one atom, which is what lets ledger equalities over shared
// sub-terms close without nonlinear reasoning.

type lin struct {
	c     *big.Int
	atoms []*Term
	coefs []*big.Int
}

func linOf(t *Term) *lin {
	if t.lf != nil {
		return t.lf
	}
	var l *lin
	switch t.Op {
	case "const":
		l = &lin{c: t.Val}
	default:
		l = &lin{c: new(big.Int), atoms: []*Term{t}, coefs: []*big.Int{big.NewInt(1)}}
	}
	t.lf = l
	return l
}

func linCombine(x *lin, kx *big.Int, y *lin, ky *big.Int) *lin {
	out := &lin{c: new(big.Int)}
	out.c.Add(new(big.Int).Mul(x.c, kx), new(big.Int).Mul(y.c, ky))
	i, j := 0, 0
	push := func(a *Term, c *big.Int) {
		if c.Sign() != 0 {
			out.atoms = append(out.atoms, a)
			out.coefs = append(out.coefs, c)
		}
	}
	for i < len(x.atoms) || j < len(y.atoms) {
		switch {
		case j >= len(y.atoms):
			push(x.atoms[i], new(big.Int).Mul(x.coefs[i], kx))
			i++
		case i >= len(x.atoms):
			push(y.atoms[j], new(big.Int).Mul(y.coefs[j], ky))
			j++
		default:
			sx, sy := x.atoms[i].String(), y.atoms[j].String()
			switch {
			case sx == sy:
				c := new(big.Int).Mul(x.coefs[i], kx)
				c.Add(c, new(big.Int).Mul(y.coefs[j], ky))
				push(x.atoms[i], c)
				i++
				j++
			case sx < sy:
				push(x.atoms[i], new(big.Int).Mul(x.coefs[i], kx))
				i++
			default:
				push(y.atoms[j], new(big.Int).Mul(y.coefs[j], ky))
				j++
			}
		}
	}
	return out
}

func fromLin(l *lin) *Term {
	if len(l.atoms) == 0 {
		return K(l.c)
	}
	if len(l.atoms) == 1 && l.c.Sign() == 0 && l.coefs[0].Cmp(bigOne) == 0 {
		return l.atoms[0]
	}
	t := &Term{Op: "lin", lf: l}
	return t
}

var bigOne = big.NewInt(1)
var bigMinusOne = big.NewInt(-1)

func Add(a, b *Term) *Term { return fromLin(linCombine(linOf(a), bigOne, linOf(b), bigOne)) }
func Sub(a, b *Term) *Term { return fromLin(linCombine(linOf(a), bigOne, linOf(b), bigMinusOne)) }
func Neg(a *Term) *Term    { return fromLin(linCombine(linOf(a), bigMinusOne, &lin{c: new(big.Int)}, bigOne)) }
func Mul(a, b *Term) *Term {
	la, lb := linOf(a), linOf(b)
	if len(la.atoms) == 0 {
		return fromLin(linCombine(lb, la.c, &lin{c: new(big.Int)}, bigOne))
	}
	if len(lb.atoms) == 0 {
		return fromLin(linCombine(la, lb.c, &lin{c: new(big.Int)}, bigOne))
	}
	// pull constant factors out of single-atom operands: (k*x)*(m*y) = (k*m)*(x*y)
	k := big.NewInt(1)
	if len(la.atoms) == 1 && la.c.Sign() == 0 {
		k.Mul(k, la.coefs[0])
		a = la.atoms[0]
	}
	if len(lb.atoms) == 1 && lb.c.Sign() == 0 {
		k.Mul(k, lb.coefs[0])
		b = lb.atoms[0]
	}
	// flatten products and sort the factors (commutativity)
	var fs []*Term
	for _, f := range []*Term{a, b} {
		if f.Op == "*" {
			fs = append(fs, f.Args...)
		} else {
			fs = append(fs, f)
		}
	}
	sort.SliceStable(fs, func(i, j int) bool { return fs[i].String() < fs[j].String() })
	prod := &Term{Op: "*", Args: fs}
	if k.Cmp(bigOne) == 0 {
		return prod
	}
	return fromLin(&lin{c: new(big.Int), atoms: []*Term{prod}, coefs: []*big.Int{k}})
}

// DivE returns t/1e18 if t is syntactically a multiple of 1e18.
func DivE(t *Term) (*Term, bool) {
	l := linOf(t)
	q, r := new(big.Int).QuoRem(l.c, E18, new(big.Int))
	if r.Sign() != 0 {
		return nil, false
	}
	out := &lin{c: q}
	for i, a := range l.atoms {
		cq, cr := new(big.Int).QuoRem(l.coefs[i], E18, new(big.Int))
		if cr.Sign() != 0 {
			return nil, false
		}
		out.atoms = append(out.atoms, a)
		out.coefs = append(out.coefs, cq)
	}
	return fromLin(out), true
}

func Cmp(op string, a, b *Term) *Term {
	if !(a.IsK() && b.IsK()) {
		if d := linCombine(linOf(a), bigOne, linOf(b), bigMinusOne); len(d.atoms) == 0 {
			a, b = K(d.c), KI(0)
		}
	}
	if a.IsK() && b.IsK() {
		c := a.Val.Cmp(b.Val)
		switch op {
		case "<":
			return TBool(c < 0)
		case "<=":
			return TBool(c <= 0)
		case ">":
			return TBool(c > 0)
		case ">=":
			return TBool(c >= 0)
		case "=":
			return TBool(c == 0)
		}
	}
	return &Term{Op: op, Args: []*Term{a, b}}
}
func Not(a *Term) *Term {
	switch a.Op {
	case "true":
		return TBool(false)
	case "false":
		return TBool(true)
	case "not":
		return a.Args[0]
	}
	return &Term{Op: "not", Args: []*Term{a}}
}
func And(a, b *Term) *Term {
	switch {
	case a.Op == "true":
		return b
	case b.Op == "true":
		return a
	case a.Op == "false" || b.Op == "false":
		return TBool(false)
	}
	return &Term{Op: "and", Args: []*Term{a, b}}
}
func Or(a, b *Term) *Term {
	switch {
	case a.Op == "false":
		return b
	case b.Op == "false":
		return a
	case a.Op == "true" || b.Op == "true":
		return TBool(true)
	}
	return &Term{Op: "or", Args: []*Term{a, b}}
}
func Ite(c, a, b *Term) *Term {
	switch c.Op {
	case "true":
		return a
	case "false":
		return b
	}
	return &Term{Op: "ite", Args: []*Term{c, a, b}}
}
func Op2(op string, a, b *Term) *Term { return &Term{Op: op, Args: []*Term{a, b}} }

// Eval evaluates a term under an assignment (booleans as 0/1).
func Eval(t *Term, env map[string]*big.Int) (*big.Int, error) {
	b2i := func(b bool) *big.Int {
		if b {
			return big.NewInt(1)
		}
		return big.NewInt(0)
	}
	switch t.Op {
	case "const":
		return t.Val, nil
	case "true":
		return big.NewInt(1), nil
	case "false":
		return big.NewInt(0), nil
	case "var":
		if v, ok := env[strings.Trim(t.Name, "|")]; ok {
			return v, nil
		}
		return nil, fmt.Errorf("no value for %s", t.Name)
	case "lin":
		acc := new(big.Int).Set(t.lf.c)
		for i, a := range t.lf.atoms {
			v, err := Eval(a, env)
			if err != nil {
				return nil, err
			}
			acc.Add(acc, new(big.Int).Mul(v, t.lf.coefs[i]))
		}
		return acc, nil
	case "*":
		acc := big.NewInt(1)
		for _, a := range t.Args {
			v, err := Eval(a, env)
			if err != nil {
				return nil, err
			}
			acc = new(big.Int).Mul(acc, v)
		}
		return acc, nil
	}
	args := make([]*big.Int, len(t.Args))
	for i, a := range t.Args {
		if t.Op == "ite" && i > 0 {
			continue
		}
		v, err := Eval(a, env)
		if err != nil {
			return nil, err
		}
		args[i] = v
	}
	switch t.Op {
	case "be8":
		p := new(big.Int).Lsh(big.NewInt(1), uint(8*(7-t.Val.Int64())))
		q, _ := new(big.Int).DivMod(args[0], p, new(big.Int))
		return q.Mod(q, big.NewInt(256)), nil
	case "+":
		return new(big.Int).Add(args[0], args[1]), nil
	case "-":
		return new(big.Int).Sub(args[0], args[1]), nil
	case "*":
		return new(big.Int).Mul(args[0], args[1]), nil
	case "neg":
		return new(big.Int).Neg(args[0]), nil
	case "abs":
		return new(big.Int).Abs(args[0]), nil
	case "ite":
		if args[0].Sign() != 0 {
			return Eval(t.Args[1], env)
		}
		return Eval(t.Args[2], env)
	case "<":
		return b2i(args[0].Cmp(args[1]) < 0), nil
	case "<=":
		return b2i(args[0].Cmp(args[1]) <= 0), nil
	case ">":
		return b2i(args[0].Cmp(args[1]) > 0), nil
	case ">=":
		return b2i(args[0].Cmp(args[1]) >= 0), nil
	case "=":
		return b2i(args[0].Cmp(args[1]) == 0), nil
	case "and":
		return b2i(args[0].Sign() != 0 && args[1].Sign() != 0), nil
	case "or":
		return b2i(args[0].Sign() != 0 || args[1].Sign() != 0), nil
	case "not":
		return b2i(args[0].Sign() == 0), nil
	case "div", "mod":
		if args[1].Sign() == 0 {
			return nil, fmt.Errorf("division by zero in model evaluation")
		}
		q, m := new(big.Int).DivMod(args[0], args[1], new(big.Int)) // Euclidean, as SMT-LIB
		if t.Op == "div" {
			return q, nil
		}
		return m, nil
	case "tdiv":
		if args[1].Sign() == 0 {
			return nil, fmt.Errorf("division by zero in model evaluation")
		}
		return new(big.Int).Quo(args[0], args[1]), nil
	case "cdiv":
		if args[1].Sign() <= 0 {
			return nil, fmt.Errorf("cdiv by non-positive")
		}
		q, _ := new(big.Int).DivMod(new(big.Int).Neg(args[0]), args[1], new(big.Int))
		return q.Neg(q), nil
	case "rhe":
		if args[1].Sign() <= 0 {
			return nil, fmt.Errorf("rhe by non-positive")
		}
		return rheConc(args[0], args[1]), nil
	}
	return nil, fmt.Errorf("eval: unsupported op %s", t.Op)
}

func (t *Term) String() string {
	if t.str == "" {
		t.str = t.render()
	}
	return t.str
}

func (t *Term) render() string {
	switch t.Op {
	case "lin":
		var parts []string
		for i, a := range t.lf.atoms {
			c := t.lf.coefs[i]
			switch {
			case c.Cmp(bigOne) == 0:
				parts = append(parts, a.String())
			case c.Cmp(bigMinusOne) == 0:
				parts = append(parts, "(- "+a.String()+")")
			default:
				parts = append(parts, "(* "+K(c).String()+" "+a.String()+")")
			}
		}
		if t.lf.c.Sign() != 0 {
			parts = append(parts, K(t.lf.c).String())
		}
		if len(parts) == 1 {
			return parts[0]
		}
		return "(+ " + strings.Join(parts, " ") + ")"
	case "be8": // byte Val (0 = most significant) of the 8-byte big-endian encoding of Args[0]
		p := new(big.Int).Lsh(big.NewInt(1), uint(8*(7-t.Val.Int64())))
		return "(mod (div " + t.Args[0].String() + " " + p.String() + ") 256)"
	case "const":
		if t.Val.Sign() < 0 {
			return "(- " + new(big.Int).Neg(t.Val).String() + ")"
		}
		return t.Val.String()
	case "var":
		return t.Name
	case "true", "false":
		return t.Op
	case "neg":
		return "(- " + t.Args[0].String() + ")"
	}
	var sb strings.Builder
	sb.WriteString("(" + t.Op)
	for _, a := range t.Args {
		sb.WriteString(" " + a.String())
	}
	sb.WriteString(")")
	return sb.String()
}

var _ = fmt.Sprintf


// Nonlinear reports whether t contains a product of two non-constant terms or
// a division by a non-constant term.
func (t *Term) Nonlinear() bool {
	if t.nl != 0 {
		return t.nl == 2
	}
	r := false
	switch t.Op {
	case "lin":
		for _, a := range t.lf.atoms {
			if a.Nonlinear() {
				r = true
			}
		}
	case "*":
		n := 0
		for _, a := range t.Args {
			if !a.IsK() {
				n++
			}
		}
		if n >= 2 {
			r = true
		}
	case "div", "mod", "tdiv", "rhe", "cdiv":
		if !t.Args[1].IsK() {
			r = true
		}
	}
	if !r {
		for _, a := range t.Args {
			if a.Nonlinear() {
				r = true
				break
			}
		}
	}
	if r {
		t.nl = 2
	} else {
		t.nl = 1
	}
	return r
}
