package symx

// The symbolic engine: path exploration by re-execution over the forked
// go/ssa interpreter, one Engine (interpreter + solver process) per worker.

import (
	"crypto/sha1"
	"fmt"
	"go/token"
	"go/types"
	"reflect"
	"math/big"
	"os"
	"runtime"
	"sort"
	"strings"
	"sync"
	"time"

	"golang.org/x/tools/go/ssa"
)

// ---------- symbolic leaf values ----------

type SymBool struct{ T *Term }

// BigCell is the pointee of the *big.Int inside sdkmath.Int / LegacyDec / Uint.
type BigCell struct{ T *Term }

// ---------- aborts ----------

// pathAbort ends the current path as inconclusive (never a pass, never a violation).
type pathAbort struct{ reason string }

// pathEnd ends the current path normally (assume false / infeasible).
type pathEnd struct{ reason string }

func isEngineAbort(r interface{}) bool {
	switch r.(type) {
	case pathAbort, pathEnd, engineBug:
		return true
	case *runtime.TypeAssertionError:
		return true
	}
	return false
}

type engineBug struct{ msg string }

func chainOf(fr *frame, n int) string {
	var sb strings.Builder
	for c := fr; c != nil && n > 0; c, n = c.caller, n-1 {
		if sb.Len() > 0 {
			sb.WriteString(" <- ")
		}
		sb.WriteString(c.fn.String())
	}
	return sb.String()
}

// ---------- shared program state ----------

// Program is the loaded SSA program plus policies shared by all workers.
type Program struct {
	Prog       *ssa.Program
	VrfPath    string // import path of the intrinsic package (zzvrf)
	InitAllow  func(pkgPath string) bool
	ZeroStub   map[string]bool
	MustModel  map[string]bool
	SkipFuncs  map[string]bool // functions replaced by zero results (stated in DESIGN.md)
	poisoned   map[*ssa.Global]bool
	reflectPkg *ssa.Package
	rtypeM     methodSet
	errorM     methodSet
	runtimeErr types.Type
	once       sync.Once
}

func NewProgram(prog *ssa.Program, vrfPath string, initAllow func(string) bool) *Program {
	p := &Program{Prog: prog, VrfPath: vrfPath, InitAllow: initAllow,
		ZeroStub: map[string]bool{
			"github.com/cosmos/cosmos-sdk/codec":            true,
			"github.com/cosmos/cosmos-sdk/codec/types":      true,
			"github.com/cosmos/cosmos-sdk/codec/legacy":     true,
			"github.com/cosmos/cosmos-sdk/crypto/codec":     true,
			"github.com/cosmos/cosmos-sdk/types/msgservice": true,
			"github.com/cosmos/cosmos-sdk/telemetry":        true,
		},
		MustModel: map[string]bool{"cosmossdk.io/math": true, "math/big": true, "time": true},
		SkipFuncs: map[string]bool{
			// builds ed25519 validator keys for the Eden/EdenB pseudo-validators (crypto, proto Any): not needed by any harness
			"github.com/elys-network/elys/x/estaking/keeper.init#1": true,
		},
		poisoned:  map[*ssa.Global]bool{},
	}
	// one shared fake reflect package
	tmp := &interpreter{prog: prog}
	initReflect(tmp)
	p.reflectPkg, p.rtypeM, p.errorM = tmp.reflectPackage, tmp.rtypeMethods, tmp.errorMethods
	p.runtimeErr = prog.ImportedPackage("runtime").Type("errorString").Object().Type()
	// poisoned globals: those assigned by the init of a package whose init is not run
	for _, pkg := range prog.AllPackages() {
		if pkg.Pkg == nil || initAllow(pkg.Pkg.Path()) || p.ZeroStub[pkg.Pkg.Path()] {
			continue
		}
		for _, m := range pkg.Members {
			fn, ok := m.(*ssa.Function)
			if !ok || !(fn.Name() == "init" || strings.HasPrefix(fn.Name(), "init#")) {
				continue
			}
			for _, b := range fn.Blocks {
				for _, in := range b.Instrs {
					if st, ok := in.(*ssa.Store); ok {
						if g, ok := st.Addr.(*ssa.Global); ok && !strings.HasPrefix(g.Name(), "init$") {
							p.poisoned[g] = true
						}
					}
				}
			}
		}
	}
	if mp := prog.ImportedPackage("cosmossdk.io/math"); mp != nil {
		if g, ok := mp.Members["LegacyMaxSortableDec"].(*ssa.Global); ok {
			delete(p.poisoned, g)
		}
	}
	return p
}

// ---------- harness description and results ----------

type HarnessSpec struct {
	Name       string
	Fn         *ssa.Function
	Summaries  map[string]*ssa.Function // SSA function name -> contract function
	Relational bool
	AssertMs   int
	ExactMs    int
	BranchMs   int
	MaxSteps   int64
	Unwind     int
	MaxPaths   int
	Findings   map[string]bool // active known-finding ids
	MapOrder   int             // 0 sorted, 1 reversed (product mode)
	Witnesses  int             // max witness models to extract
	Concrete   map[string]*big.Int // if non-nil: concrete re-execution with these named values
	KeepObs    bool
	FullFeasMs int // >0: also try branch feasibility under the full (nonlinear) path condition with this cap
	Tier       string
	GlobalsRead  map[string]bool // with CheckGlobals: only variables whose value some non-init function uses are reported
	CheckGlobals string // package path prefix: package-level variables under it must be unchanged when a path ends (C19: no state in process memory)
	RerunReal    map[string]bool // summarised functions that concrete re-executions run for real
	AssertPrefix string // meta-checks: only assertions whose label has this prefix are checked (the wrapped scenario's own are another property's)
}

type Violation struct {
	Harness string            `json:"harness"`
	Label   string            `json:"label"`
	Model   map[string]string `json:"model"`
	Kind    string            `json:"kind"` // assert | panic | nontermination
	Finding string            `json:"finding,omitempty"`
	Known   bool              `json:"known"`
	Exact   bool              `json:"exact_model"`
	Detail  string            `json:"detail,omitempty"`
}

type Witness struct {
	Harness string            `json:"harness"`
	Covers  []string          `json:"covers"`
	Model   map[string]string `json:"model"`
	Obs     map[string]string `json:"obs"`
}

type AssertStat struct {
	Checked, Trivial, Unsat, Sat, Unknown, Skipped int
}

type HarnessResult struct {
	mu          sync.Mutex
	Spec        *HarnessSpec
	Paths       int
	Completed   int
	Aborts      map[string]int
	Panics      map[string]int
	Asserts     map[string]*AssertStat
	Covers      map[string]int
	Violations  []Violation
	KnownHits   map[string]int
	Witnesses   []Witness
	Funcs       map[string]int
	Summarised  map[string]int
	Assumes     int
	Queries     int
	Decisions   int
	SolverTime  time.Duration
	Unknowns    int
	Retry       []RetryQuery // assertion queries that came back unknown / timed out: decided again, one at a time, after the exploration
	Steps       int64
	witnessed   map[string]bool
	PathObs     []PathObs // product mode
	ForkSites   map[string]int
	KeepPathObs bool
}

// RetryQuery is an assertion query (path condition AND NOT assertion, relational encoding) that was not decided
// within its time limit while all workers were busy.
type RetryQuery struct {
	Label   string
	Decls   []string
	Asserts []string
	Ms      int
}

// RetryUnknowns decides the undecided assertion queries of a harness again, sequentially, each in a fresh solver
// process with twice the time limit (solver strategies are time-sliced, so a query that closes in seconds on an
// idle machine can time out under load). Only "unsat" changes the books; anything else stays inconclusive.
func (r *HarnessResult) RetryUnknowns(mk func() *Solver) (closed int) {
	if len(r.Retry) == 0 {
		return 0
	}
	// a harness that already has a violation is decided (exit 1 after confirmation): its undecided queries cannot change
	// the verdict, and with a broken callee they are typically satisfiable queries the solver cannot find a model for
	if len(r.Violations) > 0 {
		return 0
	}
	// four at a time, within a wall-clock budget of ten minutes per harness (whatever is left stays inconclusive)
	deadline := time.Now().Add(10 * time.Minute)
	var mu sync.Mutex
	var wg sync.WaitGroup
	next := 0
	for w := 0; w < 4; w++ {
		wg.Add(1)
		go func() {
			defer wg.Done()
			s := mk()
			defer s.Close()
			for {
				mu.Lock()
				if next >= len(r.Retry) || time.Now().After(deadline) {
					mu.Unlock()
					return
				}
				q := r.Retry[next]
				next++
				mu.Unlock()
				res := s.CheckFresh(q.Decls, q.Asserts, 2*q.Ms)
				mu.Lock()
				r.Queries++
				if res == "unsat" {
					if st := r.Asserts[q.Label]; st != nil && st.Unknown > 0 {
						st.Unknown--
						st.Unsat++
						r.Unknowns--
						closed++
					}
				}
				mu.Unlock()
			}
		}()
	}
	wg.Wait()
	return closed
}

type PathObs struct {
	PC    []string
	Neg   []string // negations of the branch literals of PC (syntactic contradiction filter of the product)
	Decls []string
	Obs   map[string]string
	Model map[string]string
}

func NewHarnessResult(spec *HarnessSpec) *HarnessResult {
	return &HarnessResult{Spec: spec, Aborts: map[string]int{}, Panics: map[string]int{}, Asserts: map[string]*AssertStat{},
		Covers: map[string]int{}, KnownHits: map[string]int{}, Funcs: map[string]int{}, Summarised: map[string]int{}, witnessed: map[string]bool{}}
}

// ---------- engine ----------

type Engine struct {
	P *Program
	I *interpreter
	S *Solver

	spec *HarnessSpec
	res  *HarnessResult

	// per path
	prefix   []bool
	taken    []bool
	pc       []*Term
	defs     []*Term // exact definitions (div/mod terms) of relational rounding variables: model validation only
	refine   []*Term // div-free constraints that make the relational encoding exact (second-stage queries)
	decls    []string
	declSet  map[string]bool
	names    []string
	fresh    int
	steps    int64
	covers   []string
	obs      [][2]string
	obsTerms map[string]*Term
	newWork  [][]bool
	blobs    [][2]value
	world    value
	funcs    map[string]int
	summ     map[string]int

	snap     map[*ssa.Global]value
	fmtDepth int
	forkSites map[string]int
	varSign   map[string]sign
	pcSet     map[string]bool
	lastProved bool // the last assertExcept call was discharged (unsat / trivially true)
	roundMemo map[string]*Term // rounding results by operand terms (functional consistency)
	cur      *frame // innermost frame (diagnostics only)

	// keeper memory (C19 restart clause): maps created while a keeper constructor of an Elys module is on the stack,
	// and the writes to them made after the harness environment was built (wire.New returned)
	ctorDepth  int
	wiring     int
	keeperMaps map[uintptr]string
	memWrites  map[string]bool
}

func NewEngine(p *Program, solverBin string) *Engine {
	i := &interpreter{
		prog:               p.Prog,
		globals:            make(map[*ssa.Global]*value),
		sizes:              types.SizesFor("gc", "amd64"),
		goroutines:         1,
		reflectPackage:     p.reflectPkg,
		rtypeMethods:       p.rtypeM,
		errorMethods:       p.errorM,
		runtimeErrorString: p.runtimeErr,
	}
	for _, pkg := range p.Prog.AllPackages() {
		for _, m := range pkg.Members {
			if v, ok := m.(*ssa.Global); ok {
				cell := zero(mustDeref(v.Type()))
				i.globals[v] = &cell
			}
		}
	}
	e := &Engine{P: p, I: i}
	i.eng = e
	e.S = NewSolver(solverBin)
	return e
}

func (e *Engine) Close() { e.S.Close() }

// InitPackages runs the package initializer of pkg (dependency inits run
// according to the allow-list) and snapshots globals.
func (e *Engine) InitPackages(pkgs ...*ssa.Package) (err error) {
	defer func() {
		if r := recover(); r != nil {
			buf := make([]byte, 1<<14)
			buf = buf[:runtime.Stack(buf, false)]
			if os.Getenv("VRF_DEBUG") != "" {
				fmt.Fprintf(os.Stderr, "%s\n", buf)
			}
			err = fmt.Errorf("init failed: %v in %s", describePanic(r), chainOf(e.cur, 6))
		}
	}()
	e.spec = &HarnessSpec{Name: "<init>", MaxSteps: 1 << 40, Unwind: 1 << 30}
	e.funcs, e.summ = map[string]int{}, map[string]int{}
	e.installMathGlobals()
	for _, pkg := range pkgs {
		call(e.I, nil, token.NoPos, pkg.Func("init"), nil)
	}
	e.snap = map[*ssa.Global]value{}
	memo := map[*value]*value{}
	for g, cell := range e.I.globals {
		e.snap[g] = deepCopyM(*cell, memo)
	}
	return nil
}

// panicMessage renders the value a target panic carries; error values built by errors.New / fmt.Errorf show their text.
func panicMessage(v value) string {
	if i, ok := v.(iface); ok {
		if p, ok := i.v.(*value); ok && p != nil {
			if st, ok := (*p).(structure); ok && len(st) >= 1 {
				if s, ok := st[0].(string); ok {
					return "error: " + s
				}
			}
		}
		if s, ok := i.v.(string); ok {
			return s
		}
	}
	return toString(v)
}

func describePanic(r interface{}) string {
	switch r := r.(type) {
	case pathAbort:
		return "abort: " + r.reason
	case pathEnd:
		return "end: " + r.reason
	case targetPanic:
		return "panic: " + toString(r.v)
	case engineBug:
		return "engine bug: " + r.msg
	case error:
		return r.Error()
	}
	return fmt.Sprint(r)
}

func (e *Engine) restoreGlobals() {
	memo := map[*value]*value{}
	for g, v := range e.snap {
		*e.I.globals[g] = deepCopyM(v, memo)
	}
}

// RunPath executes one path of the harness identified by the decision prefix;
// alternatives discovered are returned as new prefixes.
func (e *Engine) RunPath(spec *HarnessSpec, res *HarnessResult, prefix []bool) (alts [][]bool) {
	e.spec, e.res = spec, res
	e.prefix, e.taken, e.pc, e.defs, e.decls, e.names, e.fresh = prefix, nil, nil, nil, nil, nil, 0
	e.refine = nil
	e.varSign = map[string]sign{}
	e.pcSet = map[string]bool{}
	e.roundMemo = map[string]*Term{}
	e.declSet = map[string]bool{}
	e.steps, e.covers, e.obs, e.newWork, e.blobs, e.world = 0, nil, nil, nil, nil, nil
	e.ctorDepth, e.wiring, e.keeperMaps, e.memWrites = 0, 0, map[uintptr]string{}, map[string]bool{}
	e.obsTerms = map[string]*Term{}
	e.funcs, e.summ = map[string]int{}, map[string]int{}
	if os.Getenv("VRF_FORKS") != "" {
		e.forkSites = map[string]int{}
	}
	e.restoreGlobals()
	q0, t0 := e.S.Queries, e.S.Time
	outcome := "completed"
	detail := ""
	func() {
		defer func() {
			if r := recover(); r != nil {
				switch r := r.(type) {
				case pathEnd:
					outcome, detail = "ended", r.reason
				case pathAbort:
					outcome, detail = "aborted", r.reason
					if !strings.Contains(r.reason, " called from ") {
						detail += " in " + chainOf(e.cur, 4)
					}
				case targetPanic:
					outcome, detail = "panic", panicMessage(r.v)
				case *runtime.TypeAssertionError:
					buf := make([]byte, 1<<13)
					buf = buf[:runtime.Stack(buf, false)]
					outcome, detail = "aborted", "unsupported symbolic operation: "+r.Error()+firstFrames(string(buf))
				case engineBug:
					outcome, detail = "aborted", "engine: "+r.msg
				case runtime.Error:
					// interpreter-detected runtime error of the target (nil deref, index out of range)
					outcome, detail = "panic", r.Error()+" in "+chainOf(e.cur, 3)
				case string:
					outcome, detail = "panic", r
				default:
					outcome, detail = "aborted", fmt.Sprintf("engine: unexpected panic %T %v", r, r)
				}
			}
		}()
		call(e.I, nil, token.NoPos, spec.Fn, nil)
	}()
	if outcome == "completed" {
		e.finishPath()
	}
	if outcome == "panic" {
		// a Go panic escaped the harness entry: harnesses that care wrap the call in recover();
		// otherwise this is reported as a path outcome and (conservatively) makes the run inconclusive
	}
	res.mu.Lock()
	res.Paths++
	switch outcome {
	case "completed":
		res.Completed++
	case "ended":
	case "aborted":
		res.Aborts[trimReason(detail)]++
	case "panic":
		res.Panics[trimReason(detail)]++
	}
	for f, c := range e.funcs {
		res.Funcs[f] += c
	}
	for f, c := range e.summ {
		res.Summarised[f] += c
	}
	for f, c := range e.forkSites {
		if res.ForkSites == nil {
			res.ForkSites = map[string]int{}
		}
		res.ForkSites[f] += c
	}
	res.Queries += e.S.Queries - q0
	res.SolverTime += e.S.Time - t0
	res.Steps += e.steps
	res.Decisions += len(e.taken)
	res.mu.Unlock()
	return e.newWork
}

func firstFrames(st string) string {
	lines := strings.Split(st, "\n")
	var keep []string
	for _, l := range lines {
		if strings.Contains(l, "gosymx/symx.") && !strings.Contains(l, "RunPath") && !strings.Contains(l, "panic") && !strings.Contains(l, "runFrame") && !strings.Contains(l, "runDefer") && !strings.Contains(l, "callSSA.func") {
			keep = append(keep, strings.TrimSpace(l))
			if len(keep) >= 3 {
				break
			}
		}
	}
	return " @ " + strings.Join(keep, " | ")
}

func trimReason(s string) string {
	if len(s) > 300 {
		s = s[:300]
	}
	return s
}

// ----- variables -----

func (e *Engine) declare(name string) {
	if !e.declSet[name] {
		e.declSet[name] = true
		e.decls = append(e.decls, "(declare-const "+name+" Int)")
	}
}

func (e *Engine) freshVar(hint string) *Term {
	e.fresh++
	n := fmt.Sprintf("|%s!%d|", hint, e.fresh)
	if e.spec != nil && e.spec.MapOrder != 0 {
		// second run of a two-run product: environment reads (wall clock) are independent of the first run's
		n = fmt.Sprintf("|%s!%d!r|", hint, e.fresh)
	}
	e.declare(n)
	return V(n)
}

// keyedVar: the auxiliary variable of a rounding, named by the content of its operands, so that the same
// rounding has the same name on every path and in both runs of a product (and different roundings never share one).
func (e *Engine) keyedVar(hint, key string) *Term {
	h := sha1.Sum([]byte(key))
	n := fmt.Sprintf("|%s!%x|", hint, h[:8])
	if !e.declSet[n] {
		e.declare(n)
	}
	return V(n)
}

func (e *Engine) namedVar(name string) *Term {
	name = strings.Trim(name, "|")
	if strings.ContainsAny(name, "|\\ !") {
		panic(engineBug{"bad variable name " + name})
	}
	q := "|" + name + "|"
	if e.declSet[q] {
		panic(engineBug{"duplicate symbolic variable name " + name})
	}
	if e.spec.Concrete != nil {
		if v, ok := e.spec.Concrete[name]; ok {
			return K(v)
		}
		return KI(0)
	}
	e.declare(q)
	e.names = append(e.names, q)
	return V(q)
}

func (e *Engine) pcStrings(extra ...*Term) []string {
	out := make([]string, 0, len(e.pc)+len(extra))
	for _, t := range e.pc {
		out = append(out, t.String())
	}
	for _, t := range extra {
		out = append(out, t.String())
	}
	return out
}

func (e *Engine) exactStrings(extra ...*Term) []string {
	out := e.pcStrings(extra...)
	for _, t := range e.refine {
		out = append(out, t.String())
	}
	return out
}

// ----- branching -----

func (e *Engine) feasible(c *Term) string {
	if c.Op == "true" {
		return "sat"
	}
	if c.Op == "false" {
		return "unsat"
	}
	// Branch feasibility uses the linear part of the path condition only: dropping
	// conjuncts over-approximates the set of feasible paths (never loses one), and
	// assertion queries always use the full path condition.
	if v, ok := e.quickDecide(c); ok {
		if v {
			return "sat"
		}
		return "unsat"
	}
	if c.Nonlinear() {
		if e.spec.FullFeasMs <= 0 {
			return "unknown"
		}
		return e.S.Check(e.decls, e.pcStrings(c), e.spec.FullFeasMs)
	}
	out := make([]string, 0, len(e.pc)+1)
	for _, t := range e.pc {
		if !t.Nonlinear() {
			out = append(out, t.String())
		}
	}
	out = append(out, c.String())
	r := e.S.Check(e.decls, out, e.spec.BranchMs)
	if r == "unsat" || len(out) == len(e.pc)+1 || e.spec.FullFeasMs <= 0 {
		return r
	}
	// hybrid: a short attempt with the full path condition prunes spurious paths when it is cheap
	if r2 := e.S.Check(e.decls, e.pcStrings(c), e.spec.FullFeasMs); r2 == "unsat" {
		return "unsat"
	}
	return r
}

func (e *Engine) decideAt(fr *frame, instr *ssa.If, c *Term) bool {
	if c.Op != "true" && c.Op != "false" {
		if fr.symIf == nil {
			fr.symIf = map[*ssa.If]int{}
		}
		fr.symIf[instr]++
		if fr.symIf[instr] > e.spec.Unwind {
			panic(pathAbort{"unwinding bound exceeded at " + e.P.Prog.Fset.Position(instr.Pos()).String() + " in " + fr.fn.String()})
		}
	}
	return e.decide(c)
}

// decide resolves a symbolic branch condition.
func (e *Engine) decide(c *Term) bool {
	if c.Op == "true" {
		return true
	}
	if c.Op == "false" {
		return false
	}
	var dir bool
	n := len(e.taken)
	if n < len(e.prefix) {
		dir = e.prefix[n]
	} else {
		rt := e.feasible(c)
		rf := "sat"
		if rt != "unsat" {
			rf = e.feasible(Not(c))
		}
		switch {
		case rt != "unsat" && rf != "unsat":
			dir = true
			alt := append(append(make([]bool, 0, n+1), e.taken...), false)
			e.newWork = append(e.newWork, alt)
			if e.forkSites != nil && e.cur != nil {
				site := e.cur.fn.String()
				if e.cur.caller != nil {
					site += " <- " + e.cur.caller.fn.String()
				}
				e.forkSites[site]++
			}
		case rt != "unsat":
			dir = true
		default:
			dir = false
		}
	}
	e.taken = append(e.taken, dir)
	if dir {
		e.addPC(c)
	} else {
		e.addPC(Not(c))
	}
	return dir
}

func (e *Engine) assume(c *Term) {
	if c.Op == "true" {
		return
	}
	if c.Op == "false" {
		panic(pathEnd{"assume false"})
	}
	e.addPC(c)
}

// addPC appends a conjunct to the path condition (deduplicated).
func (e *Engine) addPC(c *Term) {
	k := c.String()
	if e.pcSet[k] {
		return
	}
	e.pcSet[k] = true
	e.pc = append(e.pc, c)
	e.noteAtom(c)
}

// ----- assertion checking -----

// checkNeg decides whether pc ∧ neg is satisfiable. Returns "unsat", "sat" (with a
// model that satisfies the exact semantics) or "unknown".
func (e *Engine) checkNeg(neg *Term) (string, map[string]string, bool) {
	if neg.Op == "false" {
		return "unsat", nil, true
	}
	// nonlinear obligations go to a one-shot solver process (z3's non-incremental nonlinear
	// pipeline closes in milliseconds what the incremental core times out on)
	check := e.S.Check
	if neg.Nonlinear() {
		check = e.S.CheckFresh
	} else {
		for _, t := range e.pc {
			if t.Nonlinear() {
				check = e.S.CheckFresh
				break
			}
		}
	}
	r := check(e.decls, e.pcStrings(neg), e.spec.AssertMs)
	if r == "unsat" {
		return "unsat", nil, true
	}
	if len(e.defs) == 0 {
		if r == "sat" {
			return "sat", e.S.LastModel(e.declNames()), true
		}
		return "unknown", nil, false
	}
	if r == "sat" {
		m := e.S.LastModel(e.declNames())
		if e.modelIsExact(m) {
			return "sat", m, true
		}
	}
	// second stage: exact definitions of every rounding variable added
	r2 := check(e.decls, e.exactStrings(neg), e.spec.ExactMs)
	switch r2 {
	case "unsat":
		return "unsat", nil, true
	case "sat":
		m2 := e.S.LastModel(e.declNames())
		return "sat", m2, e.modelIsExact(m2)
	}
	if r == "sat" {
		// relational model only: report it, flagged inexact (must reproduce natively to count)
		return "sat", e.S.LastModelOf(e.decls, e.pcStrings(neg), e.spec.AssertMs, e.declNames()), false
	}
	return "unknown", nil, false
}

func (e *Engine) declNames() []string {
	out := make([]string, 0, len(e.decls))
	for _, d := range e.decls {
		f := strings.Fields(d)
		out = append(out, f[1])
	}
	return out
}

func (e *Engine) modelIsExact(m map[string]string) bool {
	env := modelEnv(m)
	for _, d := range e.defs {
		v, err := Eval(d, env)
		if err != nil || v.Sign() == 0 {
			if os.Getenv("VRF_DEBUG") != "" {
				lhs, _ := Eval(d.Args[0], env)
				rhs, e2 := Eval(d.Args[1], env)
				fmt.Fprintf(os.Stderr, "inexact def: %s  model=%v exact=%v err=%v %v\n", d.String(), lhs, rhs, err, e2)
			}
			return false
		}
	}
	return true
}

func (e *Engine) namedModel(m map[string]string) map[string]string {
	out := map[string]string{}
	for _, n := range e.names {
		k := strings.Trim(n, "|")
		if v, ok := m[k]; ok {
			out[k] = v
		}
	}
	return out
}

func (e *Engine) stat(label string) *AssertStat {
	s := e.res.Asserts[label]
	if s == nil {
		s = &AssertStat{}
		e.res.Asserts[label] = s
	}
	return s
}

// assertExcept: c must hold; if finding is an active known finding, assignments
// satisfying pred are reported as KNOWN-FINDING instead of violations.
func (e *Engine) assertExcept(c *Term, label, finding string, pred *Term) {
	e.lastProved = false
	if e.spec.AssertPrefix != "" && !strings.HasPrefix(label, e.spec.AssertPrefix) {
		return
	}
	e.res.mu.Lock()
	st := e.stat(label)
	st.Checked++
	if c.Op == "true" {
		st.Trivial++
		e.res.mu.Unlock()
		e.lastProved = true
		return
	}
	e.res.mu.Unlock()
	active := finding != "" && e.spec.Findings[finding]
	neg := Not(c)
	if !active {
		// an assertion that already has three recorded counter-examples in this harness is decided: further paths are not
		// queried (with a broken callee they are mostly satisfiable nonlinear queries that only burn the time limit)
		e.res.mu.Lock()
		n := 0
		for _, v := range e.res.Violations {
			if v.Label == label {
				n++
			}
		}
		if n >= 3 {
			st.Skipped++
			e.res.mu.Unlock()
			return
		}
		e.res.mu.Unlock()
	}
	if active {
		// known part
		r, _, _ := e.checkNeg(And(neg, pred))
		if r == "sat" {
			e.res.mu.Lock()
			e.res.KnownHits[finding]++
			e.res.mu.Unlock()
		}
		neg = And(neg, Not(pred))
	}
	r, m, exact := e.checkNeg(neg)
	var retry *RetryQuery
	if r != "unsat" && r != "sat" {
		retry = &RetryQuery{Label: label, Decls: append([]string{}, e.decls...), Asserts: e.pcStrings(neg), Ms: e.spec.AssertMs}
	}
	e.res.mu.Lock()
	defer e.res.mu.Unlock()
	switch r {
	case "unsat":
		st.Unsat++
		e.lastProved = !active
	case "sat":
		st.Sat++
		// keep at most a few models per label
		n := 0
		for _, v := range e.res.Violations {
			if v.Label == label {
				n++
			}
		}
		if n < 3 {
			e.res.Violations = append(e.res.Violations, Violation{Harness: e.spec.Name, Label: label, Model: e.namedModel(m), Kind: "assert", Exact: exact, Finding: finding})
		}
	default:
		st.Unknown++
		e.res.Unknowns++
		if retry != nil && !active {
			e.res.Retry = append(e.res.Retry, *retry)
		}
	}
}

func (e *Engine) cover(label string) {
	e.res.mu.Lock()
	e.res.Covers[label]++
	e.res.mu.Unlock()
	e.covers = append(e.covers, label)
}

func (e *Engine) observe(name string, t *Term) {
	e.obsTerms[name] = t
	e.obs = append(e.obs, [2]string{name, t.String()})
}

// isKeeperCtor: a constructor (New...) of a keeper package of the Elys modules
func isKeeperCtor(fn *ssa.Function) bool {
	if fn.Pkg == nil || !strings.HasPrefix(fn.Name(), "New") {
		return false
	}
	p := fn.Pkg.Pkg.Path()
	return strings.HasPrefix(p, "github.com/elys-network/elys/x/") && strings.HasSuffix(p, "/keeper")
}

func mapID(m value) uintptr {
	switch m := m.(type) {
	case *hashmap:
		return reflect.ValueOf(m).Pointer()
	case map[value]value:
		return reflect.ValueOf(m).Pointer()
	}
	return 0
}

// noteMapMade / noteMapWrite implement the keeper-memory bookkeeping
func (e *Engine) noteMapMade(fr *frame, m value) {
	if e.ctorDepth > 0 {
		if id := mapID(m); id != 0 {
			e.keeperMaps[id] = fr.fn.String()
		}
	}
}

// noteHostDep: a value that depends on the host machine (its time zone) entered the computation
func (e *Engine) noteHostDep(what string) {
	if e.wiring > 0 {
		return
	}
	e.memWrites["host dependency: "+what] = true
}

func (e *Engine) noteMapWrite(fr *frame, m value) {
	if e.ctorDepth > 0 || e.wiring > 0 || len(e.keeperMaps) == 0 {
		return
	}
	if by, ok := e.keeperMaps[mapID(m)]; ok {
		e.memWrites["map created by "+by+" for a keeper is written by "+fr.fn.String()] = true
	}
}

// finishPath runs when the harness returned normally: extract a witness if wanted.
func (e *Engine) finishPath() {
	if p := e.spec.CheckGlobals; p != "" {
		var names []string
		for g, old := range e.snap {
			if g.Pkg == nil || !strings.HasPrefix(g.Pkg.Pkg.Path(), p) {
				continue
			}
			if !deepEq(*e.I.globals[g], old, map[[2]*value]bool{}) {
				names = append(names, g.Pkg.Pkg.Path()+"."+g.Name())
			}
		}
		sort.Strings(names)
		for _, n := range names {
			if e.spec.GlobalsRead != nil && !e.spec.GlobalsRead[n] {
				continue // write-only (e.g. a counter nobody reads): cannot influence the state transition
			}
			e.assertExcept(TBool(false), "C19 restart: package-level variable "+n+" is modified by block processing (state kept in process memory does not survive a restart)", "", nil)
		}
		e.assertExcept(TBool(true), "C19 restart: no package-level variable of the Elys modules is modified by block processing", "", nil)
		var ws []string
		for w := range e.memWrites {
			ws = append(ws, w)
		}
		sort.Strings(ws)
		for _, w := range ws {
			if strings.HasPrefix(w, "host dependency: ") {
				e.assertExcept(TBool(false), "C19 determinism: "+strings.TrimPrefix(w, "host dependency: ")+" (two nodes in different time zones compute different values)", "", nil)
				continue
			}
			e.assertExcept(TBool(false), "C19 restart: "+w+" (state kept in a keeper's process memory is lost by a restart while the store is not)", "", nil)
		}
		e.assertExcept(TBool(true), "C19 restart: no map owned by a keeper object is written by message or block processing", "", nil)
		e.assertExcept(TBool(true), "C19 determinism: no calendar field or formatted text of a time in the host's local zone is computed", "", nil)
	}
	if e.res.KeepPathObs {
		po := PathObs{PC: e.exactStrings(), Decls: append([]string{}, e.decls...), Obs: map[string]string{}}
		for _, t := range e.pc {
			po.Neg = append(po.Neg, Not(t).String())
		}
		for _, o := range e.obs {
			po.Obs[o[0]] = o[1]
		}
		e.res.mu.Lock()
		e.res.PathObs = append(e.res.PathObs, po)
		e.res.mu.Unlock()
	}
	if e.spec.Concrete != nil {
		w := Witness{Harness: e.spec.Name, Covers: append([]string{}, e.covers...), Obs: map[string]string{}}
		for name, t := range e.obsTerms {
			if v, err := Eval(t, map[string]*big.Int{}); err == nil {
				w.Obs[name] = v.String()
			} else {
				w.Obs[name] = "?"
			}
		}
		e.res.mu.Lock()
		e.res.Witnesses = append(e.res.Witnesses, w)
		e.res.mu.Unlock()
		return
	}
	if len(e.covers) == 0 {
		return
	}
	e.res.mu.Lock()
	want := false
	if len(e.res.Witnesses) < e.spec.Witnesses {
		for _, c := range e.covers {
			if !e.res.witnessed[c] {
				want = true
			}
		}
	}
	if want {
		for _, c := range e.covers {
			e.res.witnessed[c] = true
		}
	}
	e.res.mu.Unlock()
	if !want {
		return
	}
	// a witness is an assignment of the named inputs; what it must produce is
	// computed afterwards by concrete re-execution, so the relational model suffices
	r := e.S.Check(e.decls, e.pcStrings(), e.spec.AssertMs)
	if r != "sat" {
		e.res.mu.Lock()
		for _, c := range e.covers {
			delete(e.res.witnessed, c)
		}
		e.res.mu.Unlock()
		return
	}
	m := e.S.LastModel(e.declNames())
	w := Witness{Harness: e.spec.Name, Covers: append([]string{}, e.covers...), Model: e.namedModel(m)}
	e.res.mu.Lock()
	e.res.Witnesses = append(e.res.Witnesses, w)
	e.res.mu.Unlock()
}

// ----- call hook -----

func (e *Engine) onCall(caller *frame, callpos token.Pos, fn *ssa.Function, args []value) (value, bool) {
	if fn.Pkg != nil {
		path := fn.Pkg.Pkg.Path()
		name := fn.Name()
		if name == "init" && !e.P.InitAllow(path) {
			return nil, true
		}
		if strings.HasPrefix(name, "init#") && strings.Contains(fn.Prog.Fset.Position(fn.Pos()).Filename, ".pb.") {
			return nil, true
		}
		if e.P.ZeroStub[path] && externals[fn.String()] == nil {
			return zeroResults(fn), true
		}
		if e.P.SkipFuncs[fn.String()] {
			return zeroResults(fn), true
		}
		// text rendering of generated protobuf messages (reflection-driven): opaque placeholder
		if name == "String" && fn.Signature.Params().Len() == 0 && fn.Signature.Results().Len() == 1 &&
			strings.HasSuffix(fn.Prog.Fset.Position(fn.Pos()).Filename, ".pb.go") && fn.Signature.Recv() != nil {
			if _, isPtr := fn.Signature.Recv().Type().(*types.Pointer); isPtr {
				return "<proto message>", true
			}
		}
	}
	if e.spec != nil && e.spec.Summaries != nil {
		if sub, ok := e.spec.Summaries[fn.String()]; ok {
			e.summ[fn.String()]++
			return callSSA(e.I, caller, callpos, sub, args, nil), true
		}
	}
	if fn.Parent() == nil {
		pk := fn.Pkg
		if pk == nil && fn.Origin() != nil {
			pk = fn.Origin().Pkg
		}
		if pk != nil {
			path := pk.Pkg.Path()
			if e.P.MustModel[path] && externals[fn.String()] == nil {
				if fn.Synthetic == "" || !strings.HasPrefix(fn.Synthetic, "wrapper") && !strings.HasPrefix(fn.Synthetic, "bound") && !strings.HasPrefix(fn.Synthetic, "thunk") {
					panic(pathAbort{"UNMODELLED: " + fn.String() + " called from " + chainOf(caller, 3)})
				}
			}
			if strings.HasPrefix(path, "github.com/elys-network/elys/") && !strings.Contains(path, "/zzvrf") && externals[fn.String()] == nil {
				e.funcs[fn.String()]++
			}
		}
	}
	return nil, false
}

func zeroResults(fn *ssa.Function) value {
	res := fn.Signature.Results()
	switch res.Len() {
	case 0:
		return nil
	case 1:
		return zero(res.At(0).Type())
	}
	var t tuple
	for i := 0; i < res.Len(); i++ {
		t = append(t, zero(res.At(i).Type()))
	}
	return t
}

// ---------- worker pool ----------

type job struct {
	res    *HarnessResult
	prefix []bool
}

// RunAll explores all harnesses with nworkers engines. mk creates an initialised engine.
func RunAll(specs []*HarnessSpec, nworkers int, mk func() (*Engine, error), progress func(string)) ([]*HarnessResult, error) {
	results := make([]*HarnessResult, len(specs))
	var mu sync.Mutex
	cond := sync.NewCond(&mu)
	var queue []job
	inflight := 0
	for i, s := range specs {
		results[i] = NewHarnessResult(s)
		if s.KeepObs {
			results[i].KeepPathObs = true
		}
		queue = append(queue, job{results[i], nil})
	}
	var firstErr error
	var wg sync.WaitGroup
	for w := 0; w < nworkers; w++ {
		wg.Add(1)
		go func(w int) {
			defer wg.Done()
			var e *Engine
			for {
				mu.Lock()
				for len(queue) == 0 && inflight > 0 && firstErr == nil {
					cond.Wait()
				}
				if firstErr != nil || (len(queue) == 0 && inflight == 0) {
					mu.Unlock()
					cond.Broadcast()
					break
				}
				// take from the front so that harnesses start early (breadth), alternatives depth-first
				j := queue[len(queue)-1]
				queue = queue[:len(queue)-1]
				inflight++
				mu.Unlock()
				if e == nil {
					var err error
					e, err = mk()
					if err != nil {
						mu.Lock()
						if firstErr == nil {
							firstErr = err
						}
						inflight--
						mu.Unlock()
						cond.Broadcast()
						break
					}
				}
				var alts [][]bool
				over := false
				j.res.mu.Lock()
				if j.res.Spec.MaxPaths > 0 && j.res.Paths >= j.res.Spec.MaxPaths {
					over = true
					j.res.Aborts["path budget exceeded"]++
				}
				j.res.mu.Unlock()
				if !over {
					alts = e.RunPath(j.res.Spec, j.res, j.prefix)
				}
				mu.Lock()
				for _, a := range alts {
					queue = append(queue, job{j.res, a})
				}
				inflight--
				mu.Unlock()
				cond.Broadcast()
			}
			if e != nil {
				e.Close()
			}
		}(w)
	}
	wg.Wait()
	return results, firstErr
}

// ---------- deep copy with aliasing preserved ----------

func deepCopyM(v value, memo map[*value]*value) value {
	switch x := v.(type) {
	case *value:
		if x == nil {
			return x
		}
		if n, ok := memo[x]; ok {
			return n
		}
		n := new(value)
		memo[x] = n
		*n = deepCopyM(*x, memo)
		return n
	case structure:
		out := make(structure, len(x))
		for i := range x {
			out[i] = deepCopyM(x[i], memo)
		}
		return out
	case array:
		out := make(array, len(x))
		for i := range x {
			out[i] = deepCopyM(x[i], memo)
		}
		return out
	case tuple:
		out := make(tuple, len(x))
		for i := range x {
			out[i] = deepCopyM(x[i], memo)
		}
		return out
	case []value:
		if x == nil {
			return x
		}
		out := make([]value, len(x), cap(x))
		for i := range x {
			out[i] = deepCopyM(x[i], memo)
		}
		return out
	case iface:
		return iface{t: x.t, v: deepCopyM(x.v, memo)}
	case map[value]value:
		if x == nil {
			return x
		}
		out := make(map[value]value, len(x))
		for k, el := range x {
			out[k] = deepCopyM(el, memo)
		}
		return out
	case *hashmap:
		if x == nil {
			return x
		}
		out := &hashmap{keyType: x.keyType, table: make(map[int]*entry, len(x.table))}
		for _, ent := range x.sortedEntries() {
			out.insert(ent.key, deepCopyM(ent.value, memo))
		}
		return out
	case *closure:
		if x == nil {
			return x
		}
		env := make([]value, len(x.Env))
		for i := range env {
			env[i] = deepCopyM(x.Env[i], memo)
		}
		return &closure{Fn: x.Fn, Env: env}
	}
	return v
}

// deepEq: structural equality of two value trees (pointer structure followed, cycles cut).
func deepEq(a, b value, seen map[[2]*value]bool) bool {
	switch x := a.(type) {
	case *value:
		y, ok := b.(*value)
		if !ok {
			return false
		}
		if x == nil || y == nil {
			return x == y
		}
		k := [2]*value{x, y}
		if seen[k] {
			return true
		}
		seen[k] = true
		return deepEq(*x, *y, seen)
	case structure:
		y, ok := b.(structure)
		if !ok || len(x) != len(y) {
			return false
		}
		for i := range x {
			if !deepEq(x[i], y[i], seen) {
				return false
			}
		}
		return true
	case array:
		y, ok := b.(array)
		if !ok || len(x) != len(y) {
			return false
		}
		for i := range x {
			if !deepEq(x[i], y[i], seen) {
				return false
			}
		}
		return true
	case []value:
		y, ok := b.([]value)
		if !ok || len(x) != len(y) {
			return false
		}
		for i := range x {
			if !deepEq(x[i], y[i], seen) {
				return false
			}
		}
		return true
	case tuple:
		y, ok := b.(tuple)
		if !ok || len(x) != len(y) {
			return false
		}
		for i := range x {
			if !deepEq(x[i], y[i], seen) {
				return false
			}
		}
		return true
	case iface:
		y, ok := b.(iface)
		if !ok || (x.t == nil) != (y.t == nil) || (x.t != nil && !types.Identical(x.t, y.t)) {
			return false
		}
		return deepEq(x.v, y.v, seen)
	case map[value]value:
		y, ok := b.(map[value]value)
		if !ok || len(x) != len(y) {
			return false
		}
		for k, v := range x {
			w, ok := y[k]
			if !ok || !deepEq(v, w, seen) {
				return false
			}
		}
		return true
	case *hashmap:
		y, ok := b.(*hashmap)
		if !ok {
			return false
		}
		if x == nil || y == nil {
			return x == y
		}
		ex, ey := x.sortedEntries(), y.sortedEntries()
		if len(ex) != len(ey) {
			return false
		}
		for i := range ex {
			if !deepEq(ex[i].key, ey[i].key, seen) || !deepEq(ex[i].value, ey[i].value, seen) {
				return false
			}
		}
		return true
	case *closure:
		y, ok := b.(*closure)
		if !ok {
			return false
		}
		if x == nil || y == nil {
			return x == y
		}
		return x.Fn == y.Fn
	case SymInt:
		y, ok := b.(SymInt)
		return ok && x.T.String() == y.T.String()
	case SymBool:
		y, ok := b.(SymBool)
		return ok && x.T.String() == y.T.String()
	case BigCell:
		y, ok := b.(BigCell)
		return ok && x.T.String() == y.T.String()
	}
	return reflect.DeepEqual(a, b)
}

func deepCopy(v value) value { return deepCopyM(v, map[*value]*value{}) }

// sortedEntries returns the entries of a hashmap in a deterministic order.
func (m *hashmap) sortedEntries() []*entry {
	var out []*entry
	if m == nil {
		return nil
	}
	for _, head := range m.table {
		for en := head; en != nil; en = en.next {
			out = append(out, en)
		}
	}
	sort.Slice(out, func(i, j int) bool { return fmt.Sprint(out[i].key) < fmt.Sprint(out[j].key) })
	return out
}

var _ = os.Stderr

// Product compares two runs of one harness (map iteration order sorted vs
// reversed) path by path: sat(pcA ∧ pcB ∧ some observation differs) is a
// determinism violation.
type ProductStats struct {
	Pairs, Contradictory, Identical, Unsat, Sat, Unknown int
}

func Product(mk func() *Solver, workers int, a, b *HarnessResult) (st ProductStats, viol []Violation) {
	type job struct{ pa, pb *PathObs }
	jobs := make(chan job, 64)
	var mu sync.Mutex
	var wg sync.WaitGroup
	for w := 0; w < workers; w++ {
		wg.Add(1)
		go func() {
			defer wg.Done()
			var s *Solver
			defer func() {
				if s != nil {
					s.Close()
				}
			}()
			for j := range jobs {
				pa, pb := j.pa, j.pb
				seen := map[string]bool{}
				var decls []string
				for _, d := range append(append([]string{}, pa.Decls...), pb.Decls...) {
					if !seen[d] {
						seen[d] = true
						decls = append(decls, d)
					}
				}
				var diffs []string
				keys := map[string]bool{}
				for k := range pa.Obs {
					keys[k] = true
				}
				for k := range pb.Obs {
					keys[k] = true
				}
				for k := range keys {
					va, oka := pa.Obs[k]
					vb, okb := pb.Obs[k]
					if !oka || !okb {
						diffs = append(diffs, "true")
					} else if va != vb {
						diffs = append(diffs, "(not (= "+va+" "+vb+"))")
					}
				}
				if len(diffs) == 0 {
					mu.Lock()
					st.Identical++
					mu.Unlock()
					continue
				}
				sort.Strings(diffs)
				asserts := append(append([]string{}, pa.PC...), pb.PC...)
				asserts = append(asserts, "(or false "+strings.Join(diffs, " ")+")")
				if s == nil {
					s = mk()
				}
				r := s.Check(decls, asserts, 60000)
				mu.Lock()
				switch r {
				case "unsat":
					st.Unsat++
				case "sat":
					st.Sat++
					var names []string
					for _, d := range decls {
						names = append(names, strings.Fields(d)[1])
					}
					m := s.LastModel(names)
					nm := map[string]string{}
					for k, v := range m {
						if !strings.Contains(k, "!") {
							nm[k] = v
						}
					}
					if len(viol) < 3 {
						viol = append(viol, Violation{Harness: a.Spec.Name, Label: "C19 determinism: two runs with the same inputs leave different state", Model: nm, Kind: "product", Exact: true,
							Detail: "two-run product: same inputs, map iteration order sorted vs reversed, wall-clock reads independent"})
					}
				default:
					st.Unknown++
				}
				mu.Unlock()
			}
		}()
	}
	for i := range a.PathObs {
		pa := &a.PathObs[i]
		lits := map[string]bool{}
		for _, l := range pa.PC {
			lits[l] = true
		}
		for k := range b.PathObs {
			pb := &b.PathObs[k]
			st.Pairs++
			contra := false
			for _, n := range pb.Neg {
				if lits[n] {
					contra = true
					break
				}
			}
			if contra {
				st.Contradictory++
				continue
			}
			jobs <- job{pa, pb}
		}
	}
	close(jobs)
	wg.Wait()
	return
}
