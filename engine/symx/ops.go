// Copyright 2013 The Go Authors. All rights reserved.
// Use of this source code is governed by a BSD-style
// license that can be found in the LICENSE file.

package symx

import (
	"bytes"
	"fmt"
	"go/constant"
	"go/token"
	"go/types"
	"os"
	"strings"
	"unsafe"

	"golang.org/x/tools/go/ssa"
	
)

// If the target program panics, the interpreter panics with this type.
type targetPanic struct {
	v value
}

func (p targetPanic) String() string {
	return toString(p.v)
}

// If the target program calls exit, the interpreter panics with this type.
type exitPanic int

// constValue returns the value of the constant with the
// dynamic type tag appropriate for c.Type().
func constValue(c *ssa.Const) value {
	if c.Value == nil {
		return zero(c.Type()) // typed zero
	}
	// c is not a type parameter so it's underlying type is basic.

	if t, ok := c.Type().Underlying().(*types.Basic); ok {
		// TODO(adonovan): eliminate untyped constants from SSA form.
		switch t.Kind() {
		case types.Bool, types.UntypedBool:
			return constant.BoolVal(c.Value)
		case types.Int, types.UntypedInt:
			// Assume sizeof(int) is same on host and target.
			return int(c.Int64())
		case types.Int8:
			return int8(c.Int64())
		case types.Int16:
			return int16(c.Int64())
		case types.Int32, types.UntypedRune:
			return int32(c.Int64())
		case types.Int64:
			return c.Int64()
		case types.Uint:
			// Assume sizeof(uint) is same on host and target.
			return uint(c.Uint64())
		case types.Uint8:
			return uint8(c.Uint64())
		case types.Uint16:
			return uint16(c.Uint64())
		case types.Uint32:
			return uint32(c.Uint64())
		case types.Uint64:
			return c.Uint64()
		case types.Uintptr:
			// Assume sizeof(uintptr) is same on host and target.
			return uintptr(c.Uint64())
		case types.Float32:
			return float32(c.Float64())
		case types.Float64, types.UntypedFloat:
			return c.Float64()
		case types.Complex64:
			return complex64(c.Complex128())
		case types.Complex128, types.UntypedComplex:
			return c.Complex128()
		case types.String, types.UntypedString:
			if c.Value.Kind() == constant.String {
				return constant.StringVal(c.Value)
			}
			return string(rune(c.Int64()))
		}
	}

	panic(fmt.Sprintf("constValue: %s", c))
}

// fitsInt returns true if x fits in type int according to sizes.
func fitsInt(x int64, sizes types.Sizes) bool {
	intSize := sizes.Sizeof(types.Typ[types.Int])
	if intSize < sizes.Sizeof(types.Typ[types.Int64]) {
		maxInt := int64(1)<<((intSize*8)-1) - 1
		minInt := -int64(1) << ((intSize * 8) - 1)
		return minInt <= x && x <= maxInt
	}
	return true
}

// asInt64 converts x, which must be an integer, to an int64.
//
// Callers that need a value directly usable as an int should combine this with fitsInt().
func asInt64(x value) int64 {
	switch x := x.(type) {
	case int:
		return int64(x)
	case int8:
		return int64(x)
	case int16:
		return int64(x)
	case int32:
		return int64(x)
	case int64:
		return x
	case uint:
		return int64(x)
	case uint8:
		return int64(x)
	case uint16:
		return int64(x)
	case uint32:
		return int64(x)
	case uint64:
		return int64(x)
	case uintptr:
		return int64(x)
	}
	panic(fmt.Sprintf("cannot convert %T to int64", x))
}

// asUint64 converts x, which must be an unsigned integer, to a uint64
// suitable for use as a bitwise shift count.
func asUint64(x value) uint64 {
	switch x := x.(type) {
	case uint:
		return uint64(x)
	case uint8:
		return uint64(x)
	case uint16:
		return uint64(x)
	case uint32:
		return uint64(x)
	case uint64:
		return x
	case uintptr:
		return uint64(x)
	}
	panic(fmt.Sprintf("cannot convert %T to uint64", x))
}

// asUnsigned returns the value of x, which must be an integer type, as its equivalent unsigned type,
// and returns true if x is non-negative.
func asUnsigned(x value) (value, bool) {
	switch x := x.(type) {
	case int:
		return uint(x), x >= 0
	case int8:
		return uint8(x), x >= 0
	case int16:
		return uint16(x), x >= 0
	case int32:
		return uint32(x), x >= 0
	case int64:
		return uint64(x), x >= 0
	case uint, uint8, uint32, uint64, uintptr:
		return x, true
	}
	panic(fmt.Sprintf("cannot convert %T to unsigned", x))
}

// zero returns a new "zero" value of the specified type.
func zero(t types.Type) value {
	switch t := t.(type) {
	case *types.Basic:
		if t.Kind() == types.UntypedNil {
			panic("untyped nil has no zero value")
		}
		if t.Info()&types.IsUntyped != 0 {
			// TODO(adonovan): make it an invariant that
			// this is unreachable.  Currently some
			// constants have 'untyped' types when they
			// should be defaulted by the typechecker.
			t = types.Default(t).(*types.Basic)
		}
		switch t.Kind() {
		case types.Bool:
			return false
		case types.Int:
			return int(0)
		case types.Int8:
			return int8(0)
		case types.Int16:
			return int16(0)
		case types.Int32:
			return int32(0)
		case types.Int64:
			return int64(0)
		case types.Uint:
			return uint(0)
		case types.Uint8:
			return uint8(0)
		case types.Uint16:
			return uint16(0)
		case types.Uint32:
			return uint32(0)
		case types.Uint64:
			return uint64(0)
		case types.Uintptr:
			return uintptr(0)
		case types.Float32:
			return float32(0)
		case types.Float64:
			return float64(0)
		case types.Complex64:
			return complex64(0)
		case types.Complex128:
			return complex128(0)
		case types.String:
			return ""
		case types.UnsafePointer:
			return unsafe.Pointer(nil)
		default:
			panic(fmt.Sprint("zero for unexpected type:", t))
		}
	case *types.Pointer:
		return (*value)(nil)
	case *types.Array:
		a := make(array, t.Len())
		for i := range a {
			a[i] = zero(t.Elem())
		}
		return a
	case *types.Named:
		return zero(t.Underlying())
	case *types.Alias:
		return zero(types.Unalias(t))
	case *types.Interface:
		return iface{} // nil type, methodset and value
	case *types.Slice:
		return []value(nil)
	case *types.Struct:
		s := make(structure, t.NumFields())
		for i := range s {
			s[i] = zero(t.Field(i).Type())
		}
		return s
	case *types.Tuple:
		if t.Len() == 1 {
			return zero(t.At(0).Type())
		}
		s := make(tuple, t.Len())
		for i := range s {
			s[i] = zero(t.At(i).Type())
		}
		return s
	case *types.Chan:
		return chan value(nil)
	case *types.Map:
		if usesBuiltinMap(t.Key()) {
			return map[value]value(nil)
		}
		return (*hashmap)(nil)
	case *types.Signature:
		return (*ssa.Function)(nil)
	}
	panic(fmt.Sprint("zero: unexpected ", t))
}

// slice returns x[lo:hi:max].  Any of lo, hi and max may be nil.
func slice(x, lo, hi, max value) value {
	var Len, Cap int
	switch x := x.(type) {
	case string:
		Len = len(x)
	case []value:
		Len = len(x)
		Cap = cap(x)
	case *value: // *array
		a := (*x).(array)
		Len = len(a)
		Cap = cap(a)
	}

	l := int64(0)
	if lo != nil {
		l = asInt64(lo)
	}

	h := int64(Len)
	if hi != nil {
		h = asInt64(hi)
	}

	m := int64(Cap)
	if max != nil {
		m = asInt64(max)
	}

	switch x := x.(type) {
	case string:
		return x[l:h]
	case []value:
		return x[l:h:m]
	case *value: // *array
		a := (*x).(array)
		return []value(a)[l:h:m]
	}
	panic(fmt.Sprintf("slice: unexpected X type: %T", x))
}

// lookup returns x[idx] where x is a map.
func lookup(instr *ssa.Lookup, x, idx value) value {
	switch x := x.(type) { // map or string
	case map[value]value, *hashmap:
		var v value
		var ok bool
		switch x := x.(type) {
		case map[value]value:
			v, ok = x[idx]
		case *hashmap:
			v = x.lookup(idx.(hashable))
			ok = v != nil
		}
		if !ok {
			v = zero(instr.X.Type().Underlying().(*types.Map).Elem())
		}
		if instr.CommaOk {
			v = tuple{v, ok}
		}
		return v
	}
	panic(fmt.Sprintf("unexpected x type in Lookup: %T", x))
}

// binop implements all arithmetic and logical binary operators for
// numeric datatypes and strings.  Both operands must have identical
// dynamic type.
func binop(e *Engine, op token.Token, t types.Type, x, y value) value {
	if isSymInt(x) || isSymInt(y) {
		return symBinop(e, op, x, y)
	}
	if _, ok := x.(SymString); ok {
		return symStrBinop(op, x, y)
	}
	if _, ok := y.(SymString); ok {
		return symStrBinop(op, x, y)
	}
	if bx, ok := x.(SymBool); ok {
		_ = bx
		return symBoolBinop(op, x, y)
	}
	if _, ok := y.(SymBool); ok {
		return symBoolBinop(op, x, y)
	}
	switch op {
	case token.ADD:
		switch x.(type) {
		case int:
			return x.(int) + y.(int)
		case int8:
			return x.(int8) + y.(int8)
		case int16:
			return x.(int16) + y.(int16)
		case int32:
			return x.(int32) + y.(int32)
		case int64:
			return x.(int64) + y.(int64)
		case uint:
			return x.(uint) + y.(uint)
		case uint8:
			return x.(uint8) + y.(uint8)
		case uint16:
			return x.(uint16) + y.(uint16)
		case uint32:
			return x.(uint32) + y.(uint32)
		case uint64:
			return x.(uint64) + y.(uint64)
		case uintptr:
			return x.(uintptr) + y.(uintptr)
		case float32:
			return x.(float32) + y.(float32)
		case float64:
			return x.(float64) + y.(float64)
		case complex64:
			return x.(complex64) + y.(complex64)
		case complex128:
			return x.(complex128) + y.(complex128)
		case string:
			return x.(string) + y.(string)
		}

	case token.SUB:
		switch x.(type) {
		case int:
			return x.(int) - y.(int)
		case int8:
			return x.(int8) - y.(int8)
		case int16:
			return x.(int16) - y.(int16)
		case int32:
			return x.(int32) - y.(int32)
		case int64:
			return x.(int64) - y.(int64)
		case uint:
			return x.(uint) - y.(uint)
		case uint8:
			return x.(uint8) - y.(uint8)
		case uint16:
			return x.(uint16) - y.(uint16)
		case uint32:
			return x.(uint32) - y.(uint32)
		case uint64:
			return x.(uint64) - y.(uint64)
		case uintptr:
			return x.(uintptr) - y.(uintptr)
		case float32:
			return x.(float32) - y.(float32)
		case float64:
			return x.(float64) - y.(float64)
		case complex64:
			return x.(complex64) - y.(complex64)
		case complex128:
			return x.(complex128) - y.(complex128)
		}

	case token.MUL:
		switch x.(type) {
		case int:
			return x.(int) * y.(int)
		case int8:
			return x.(int8) * y.(int8)
		case int16:
			return x.(int16) * y.(int16)
		case int32:
			return x.(int32) * y.(int32)
		case int64:
			return x.(int64) * y.(int64)
		case uint:
			return x.(uint) * y.(uint)
		case uint8:
			return x.(uint8) * y.(uint8)
		case uint16:
			return x.(uint16) * y.(uint16)
		case uint32:
			return x.(uint32) * y.(uint32)
		case uint64:
			return x.(uint64) * y.(uint64)
		case uintptr:
			return x.(uintptr) * y.(uintptr)
		case float32:
			return x.(float32) * y.(float32)
		case float64:
			return x.(float64) * y.(float64)
		case complex64:
			return x.(complex64) * y.(complex64)
		case complex128:
			return x.(complex128) * y.(complex128)
		}

	case token.QUO:
		switch x.(type) {
		case int:
			return x.(int) / y.(int)
		case int8:
			return x.(int8) / y.(int8)
		case int16:
			return x.(int16) / y.(int16)
		case int32:
			return x.(int32) / y.(int32)
		case int64:
			return x.(int64) / y.(int64)
		case uint:
			return x.(uint) / y.(uint)
		case uint8:
			return x.(uint8) / y.(uint8)
		case uint16:
			return x.(uint16) / y.(uint16)
		case uint32:
			return x.(uint32) / y.(uint32)
		case uint64:
			return x.(uint64) / y.(uint64)
		case uintptr:
			return x.(uintptr) / y.(uintptr)
		case float32:
			return x.(float32) / y.(float32)
		case float64:
			return x.(float64) / y.(float64)
		case complex64:
			return x.(complex64) / y.(complex64)
		case complex128:
			return x.(complex128) / y.(complex128)
		}

	case token.REM:
		switch x.(type) {
		case int:
			return x.(int) % y.(int)
		case int8:
			return x.(int8) % y.(int8)
		case int16:
			return x.(int16) % y.(int16)
		case int32:
			return x.(int32) % y.(int32)
		case int64:
			return x.(int64) % y.(int64)
		case uint:
			return x.(uint) % y.(uint)
		case uint8:
			return x.(uint8) % y.(uint8)
		case uint16:
			return x.(uint16) % y.(uint16)
		case uint32:
			return x.(uint32) % y.(uint32)
		case uint64:
			return x.(uint64) % y.(uint64)
		case uintptr:
			return x.(uintptr) % y.(uintptr)
		}

	case token.AND:
		switch x.(type) {
		case int:
			return x.(int) & y.(int)
		case int8:
			return x.(int8) & y.(int8)
		case int16:
			return x.(int16) & y.(int16)
		case int32:
			return x.(int32) & y.(int32)
		case int64:
			return x.(int64) & y.(int64)
		case uint:
			return x.(uint) & y.(uint)
		case uint8:
			return x.(uint8) & y.(uint8)
		case uint16:
			return x.(uint16) & y.(uint16)
		case uint32:
			return x.(uint32) & y.(uint32)
		case uint64:
			return x.(uint64) & y.(uint64)
		case uintptr:
			return x.(uintptr) & y.(uintptr)
		}

	case token.OR:
		switch x.(type) {
		case int:
			return x.(int) | y.(int)
		case int8:
			return x.(int8) | y.(int8)
		case int16:
			return x.(int16) | y.(int16)
		case int32:
			return x.(int32) | y.(int32)
		case int64:
			return x.(int64) | y.(int64)
		case uint:
			return x.(uint) | y.(uint)
		case uint8:
			return x.(uint8) | y.(uint8)
		case uint16:
			return x.(uint16) | y.(uint16)
		case uint32:
			return x.(uint32) | y.(uint32)
		case uint64:
			return x.(uint64) | y.(uint64)
		case uintptr:
			return x.(uintptr) | y.(uintptr)
		}

	case token.XOR:
		switch x.(type) {
		case int:
			return x.(int) ^ y.(int)
		case int8:
			return x.(int8) ^ y.(int8)
		case int16:
			return x.(int16) ^ y.(int16)
		case int32:
			return x.(int32) ^ y.(int32)
		case int64:
			return x.(int64) ^ y.(int64)
		case uint:
			return x.(uint) ^ y.(uint)
		case uint8:
			return x.(uint8) ^ y.(uint8)
		case uint16:
			return x.(uint16) ^ y.(uint16)
		case uint32:
			return x.(uint32) ^ y.(uint32)
		case uint64:
			return x.(uint64) ^ y.(uint64)
		case uintptr:
			return x.(uintptr) ^ y.(uintptr)
		}

	case token.AND_NOT:
		switch x.(type) {
		case int:
			return x.(int) &^ y.(int)
		case int8:
			return x.(int8) &^ y.(int8)
		case int16:
			return x.(int16) &^ y.(int16)
		case int32:
			return x.(int32) &^ y.(int32)
		case int64:
			return x.(int64) &^ y.(int64)
		case uint:
			return x.(uint) &^ y.(uint)
		case uint8:
			return x.(uint8) &^ y.(uint8)
		case uint16:
			return x.(uint16) &^ y.(uint16)
		case uint32:
			return x.(uint32) &^ y.(uint32)
		case uint64:
			return x.(uint64) &^ y.(uint64)
		case uintptr:
			return x.(uintptr) &^ y.(uintptr)
		}

	case token.SHL:
		u, ok := asUnsigned(y)
		if !ok {
			panic("negative shift amount")
		}
		y := asUint64(u)
		switch x.(type) {
		case int:
			return x.(int) << y
		case int8:
			return x.(int8) << y
		case int16:
			return x.(int16) << y
		case int32:
			return x.(int32) << y
		case int64:
			return x.(int64) << y
		case uint:
			return x.(uint) << y
		case uint8:
			return x.(uint8) << y
		case uint16:
			return x.(uint16) << y
		case uint32:
			return x.(uint32) << y
		case uint64:
			return x.(uint64) << y
		case uintptr:
			return x.(uintptr) << y
		}

	case token.SHR:
		u, ok := asUnsigned(y)
		if !ok {
			panic("negative shift amount")
		}
		y := asUint64(u)
		switch x.(type) {
		case int:
			return x.(int) >> y
		case int8:
			return x.(int8) >> y
		case int16:
			return x.(int16) >> y
		case int32:
			return x.(int32) >> y
		case int64:
			return x.(int64) >> y
		case uint:
			return x.(uint) >> y
		case uint8:
			return x.(uint8) >> y
		case uint16:
			return x.(uint16) >> y
		case uint32:
			return x.(uint32) >> y
		case uint64:
			return x.(uint64) >> y
		case uintptr:
			return x.(uintptr) >> y
		}

	case token.LSS:
		switch x.(type) {
		case int:
			return x.(int) < y.(int)
		case int8:
			return x.(int8) < y.(int8)
		case int16:
			return x.(int16) < y.(int16)
		case int32:
			return x.(int32) < y.(int32)
		case int64:
			return x.(int64) < y.(int64)
		case uint:
			return x.(uint) < y.(uint)
		case uint8:
			return x.(uint8) < y.(uint8)
		case uint16:
			return x.(uint16) < y.(uint16)
		case uint32:
			return x.(uint32) < y.(uint32)
		case uint64:
			return x.(uint64) < y.(uint64)
		case uintptr:
			return x.(uintptr) < y.(uintptr)
		case float32:
			return x.(float32) < y.(float32)
		case float64:
			return x.(float64) < y.(float64)
		case string:
			return x.(string) < y.(string)
		}

	case token.LEQ:
		switch x.(type) {
		case int:
			return x.(int) <= y.(int)
		case int8:
			return x.(int8) <= y.(int8)
		case int16:
			return x.(int16) <= y.(int16)
		case int32:
			return x.(int32) <= y.(int32)
		case int64:
			return x.(int64) <= y.(int64)
		case uint:
			return x.(uint) <= y.(uint)
		case uint8:
			return x.(uint8) <= y.(uint8)
		case uint16:
			return x.(uint16) <= y.(uint16)
		case uint32:
			return x.(uint32) <= y.(uint32)
		case uint64:
			return x.(uint64) <= y.(uint64)
		case uintptr:
			return x.(uintptr) <= y.(uintptr)
		case float32:
			return x.(float32) <= y.(float32)
		case float64:
			return x.(float64) <= y.(float64)
		case string:
			return x.(string) <= y.(string)
		}

	case token.EQL:
		return eqnil(t, x, y)

	case token.NEQ:
		return !eqnil(t, x, y)

	case token.GTR:
		switch x.(type) {
		case int:
			return x.(int) > y.(int)
		case int8:
			return x.(int8) > y.(int8)
		case int16:
			return x.(int16) > y.(int16)
		case int32:
			return x.(int32) > y.(int32)
		case int64:
			return x.(int64) > y.(int64)
		case uint:
			return x.(uint) > y.(uint)
		case uint8:
			return x.(uint8) > y.(uint8)
		case uint16:
			return x.(uint16) > y.(uint16)
		case uint32:
			return x.(uint32) > y.(uint32)
		case uint64:
			return x.(uint64) > y.(uint64)
		case uintptr:
			return x.(uintptr) > y.(uintptr)
		case float32:
			return x.(float32) > y.(float32)
		case float64:
			return x.(float64) > y.(float64)
		case string:
			return x.(string) > y.(string)
		}

	case token.GEQ:
		switch x.(type) {
		case int:
			return x.(int) >= y.(int)
		case int8:
			return x.(int8) >= y.(int8)
		case int16:
			return x.(int16) >= y.(int16)
		case int32:
			return x.(int32) >= y.(int32)
		case int64:
			return x.(int64) >= y.(int64)
		case uint:
			return x.(uint) >= y.(uint)
		case uint8:
			return x.(uint8) >= y.(uint8)
		case uint16:
			return x.(uint16) >= y.(uint16)
		case uint32:
			return x.(uint32) >= y.(uint32)
		case uint64:
			return x.(uint64) >= y.(uint64)
		case uintptr:
			return x.(uintptr) >= y.(uintptr)
		case float32:
			return x.(float32) >= y.(float32)
		case float64:
			return x.(float64) >= y.(float64)
		case string:
			return x.(string) >= y.(string)
		}
	}
	panic(fmt.Sprintf("invalid binary op: %T %s %T", x, op, y))
}

// eqnil returns the comparison x == y using the equivalence relation
// appropriate for type t.
// If t is a reference type, at most one of x or y may be a nil value
// of that type.
func eqnil(t types.Type, x, y value) bool {
	switch t.Underlying().(type) {
	case *types.Map, *types.Signature, *types.Slice:
		// Since these types don't support comparison,
		// one of the operands must be a literal nil.
		switch x := x.(type) {
		case *hashmap:
			return (x != nil) == (y.(*hashmap) != nil)
		case map[value]value:
			return (x != nil) == (y.(map[value]value) != nil)
		case *ssa.Function:
			switch y := y.(type) {
			case *ssa.Function:
				return (x != nil) == (y != nil)
			case *closure:
				return true
			}
		case *closure:
			return (x != nil) == (y.(*ssa.Function) != nil)
		case []value:
			return (x != nil) == (y.([]value) != nil)
		}
		panic(fmt.Sprintf("eqnil(%s): illegal dynamic type: %T", t, x))
	}

	return equals(t, x, y)
}

func unop(instr *ssa.UnOp, x value) value {
	switch instr.Op {
	case token.ARROW: // receive
		v, ok := <-x.(chan value)
		if !ok {
			v = zero(instr.X.Type().Underlying().(*types.Chan).Elem())
		}
		if instr.CommaOk {
			v = tuple{v, ok}
		}
		return v
	case token.SUB:
		switch x := x.(type) {
		case int:
			return -x
		case int8:
			return -x
		case int16:
			return -x
		case int32:
			return -x
		case int64:
			return -x
		case uint:
			return -x
		case uint8:
			return -x
		case uint16:
			return -x
		case uint32:
			return -x
		case uint64:
			return -x
		case uintptr:
			return -x
		case float32:
			return -x
		case float64:
			return -x
		case complex64:
			return -x
		case complex128:
			return -x
		}
	case token.MUL:
		return load(mustDeref(instr.X.Type()), x.(*value))
	case token.NOT:
		if sbv, ok := x.(SymBool); ok {
			return sb(Not(sbv.T))
		}
		return !x.(bool)
	case token.XOR:
		switch x := x.(type) {
		case int:
			return ^x
		case int8:
			return ^x
		case int16:
			return ^x
		case int32:
			return ^x
		case int64:
			return ^x
		case uint:
			return ^x
		case uint8:
			return ^x
		case uint16:
			return ^x
		case uint32:
			return ^x
		case uint64:
			return ^x
		case uintptr:
			return ^x
		}
	}
	panic(fmt.Sprintf("invalid unary op %s %T", instr.Op, x))
}

// typeAssert checks whether dynamic type of itf is instr.AssertedType.
// It returns the extracted value on success, and panics on failure,
// unless instr.CommaOk, in which case it always returns a "value,ok" tuple.
func typeAssert(i *interpreter, instr *ssa.TypeAssert, itf iface) value {
	var v value
	err := ""
	if itf.t == nil {
		err = fmt.Sprintf("interface conversion: interface is nil, not %s", instr.AssertedType)

	} else if idst, ok := instr.AssertedType.Underlying().(*types.Interface); ok {
		v = itf
		err = checkInterface(i, idst, itf)

	} else if types.Identical(itf.t, instr.AssertedType) {
		v = itf.v // extract value

	} else {
		err = fmt.Sprintf("interface conversion: interface is %s, not %s", itf.t, instr.AssertedType)
	}
	// Note: if instr.Underlying==true ever becomes reachable from interp check that
	// types.Identical(itf.t.Underlying(), instr.AssertedType)

	if err != "" {
		if !instr.CommaOk {
			panic(err)
		}
		return tuple{zero(instr.AssertedType), false}
	}
	if instr.CommaOk {
		return tuple{v, true}
	}
	return v
}

// This variable is no longer used but remains to prevent build breakage.
var CapturedOutput *bytes.Buffer

// callBuiltin interprets a call to builtin fn with arguments args,
// returning its result.
func callBuiltin(caller *frame, callpos token.Pos, fn *ssa.Builtin, args []value) value {
	switch fn.Name() {
	case "append":
		if len(args) == 1 {
			return args[0]
		}
		if ss, ok := args[1].(SymString); ok {
			return append(args[0].([]value), ss.B...)
		}
		if s, ok := args[1].(string); ok {
			// append([]byte, ...string) []byte
			arg0 := args[0].([]value)
			for i := 0; i < len(s); i++ {
				arg0 = append(arg0, s[i])
			}
			return arg0
		}
		// append([]T, ...[]T) []T  (struct/array elements are copied, as in Go)
		src := args[1].([]value)
		dst := args[0].([]value)
		for _, el := range src {
			dst = append(dst, cpv(el))
		}
		return dst

	case "copy": // copy([]T, []T) int or copy([]byte, string) int
		src := args[1]
		if _, ok := src.(string); ok {
			params := fn.Type().(*types.Signature).Params()
			src = conv(params.At(0).Type(), params.At(1).Type(), src)
		}
		srcv := src.([]value)
		dstv := args[0].([]value)
		n := len(srcv)
		if len(dstv) < n {
			n = len(dstv)
		}
		tmp := make([]value, n)
		for i := 0; i < n; i++ {
			tmp[i] = cpv(srcv[i])
		}
		return copy(dstv, tmp)

	case "close": // close(chan T)
		close(args[0].(chan value))
		return nil

	case "delete": // delete(map[K]value, K)
		if caller != nil && caller.i.eng != nil {
			caller.i.eng.noteMapWrite(caller, args[0])
		}
		switch m := args[0].(type) {
		case map[value]value:
			delete(m, args[1])
		case *hashmap:
			m.delete(args[1].(hashable))
		default:
			panic(fmt.Sprintf("illegal map type: %T", m))
		}
		return nil

	case "print", "println": // print(any, ...)
		ln := fn.Name() == "println"
		var buf bytes.Buffer
		for i, arg := range args {
			if i > 0 && ln {
				buf.WriteRune(' ')
			}
			buf.WriteString(toString(arg))
		}
		if ln {
			buf.WriteRune('\n')
		}
		os.Stderr.Write(buf.Bytes())
		return nil

	case "len":
		switch x := args[0].(type) {
		case SymString:
			return len(x.B)
		case string:
			return len(x)
		case array:
			return len(x)
		case *value:
			return len((*x).(array))
		case []value:
			return len(x)
		case map[value]value:
			return len(x)
		case *hashmap:
			return x.len()
		case chan value:
			return len(x)
		default:
			panic(fmt.Sprintf("len: illegal operand: %T", x))
		}

	case "cap":
		switch x := args[0].(type) {
		case array:
			return cap(x)
		case *value:
			return cap((*x).(array))
		case []value:
			return cap(x)
		case chan value:
			return cap(x)
		default:
			panic(fmt.Sprintf("cap: illegal operand: %T", x))
		}

	case "min":
		return foldLeft(min, args)
	case "max":
		return foldLeft(max, args)

	case "real":
		switch c := args[0].(type) {
		case complex64:
			return real(c)
		case complex128:
			return real(c)
		default:
			panic(fmt.Sprintf("real: illegal operand: %T", c))
		}

	case "imag":
		switch c := args[0].(type) {
		case complex64:
			return imag(c)
		case complex128:
			return imag(c)
		default:
			panic(fmt.Sprintf("imag: illegal operand: %T", c))
		}

	case "complex":
		switch f := args[0].(type) {
		case float32:
			return complex(f, args[1].(float32))
		case float64:
			return complex(f, args[1].(float64))
		default:
			panic(fmt.Sprintf("complex: illegal operand: %T", f))
		}

	case "panic":
		// ssa.Panic handles most cases; this is only for "go
		// panic" or "defer panic".
		panic(targetPanic{args[0]})

	case "recover":
		return doRecover(caller)

	case "ssa:wrapnilchk":
		recv := args[0]
		if recv.(*value) == nil {
			recvType := args[1]
			methodName := args[2]
			panic(fmt.Sprintf("value method (%s).%s called using nil *%s pointer",
				recvType, methodName, recvType))
		}
		return recv

	case "ssa:deferstack":
		return &caller.defers
	}

	panic("unknown built-in: " + fn.Name())
}

func rangeIter(fr *frame, x value, t types.Type) iter {
	switch x := x.(type) {
	case SymString:
		return &stringIter{Reader: strings.NewReader(strOf(x))}
	case map[value]value:
		return newOrderedMapIter(x, mapOrderOf(fr))
	case *hashmap:
		return newOrderedHashmapIter(x, mapOrderOf(fr))
	case string:
		return &stringIter{Reader: strings.NewReader(x)}
	}
	panic(fmt.Sprintf("cannot range over %T", x))
}

// widen widens a basic typed value x to the widest type of its
// category, one of:
//
//	bool, int64, uint64, float64, complex128, string.
//
// This is inefficient but reduces the size of the cross-product of
// cases we have to consider.
func widen(x value) value {
	switch y := x.(type) {
	case bool, int64, uint64, float64, complex128, string, unsafe.Pointer:
		return x
	case int:
		return int64(y)
	case int8:
		return int64(y)
	case int16:
		return int64(y)
	case int32:
		return int64(y)
	case uint:
		return uint64(y)
	case uint8:
		return uint64(y)
	case uint16:
		return uint64(y)
	case uint32:
		return uint64(y)
	case uintptr:
		return uint64(y)
	case float32:
		return float64(y)
	case complex64:
		return complex128(y)
	}
	panic(fmt.Sprintf("cannot widen %T", x))
}

// conv converts the value x of type t_src to type t_dst and returns
// the result.
// Possible cases are described with the ssa.Convert operator.
func conv(t_dst, t_src types.Type, x value) value {
	ut_src := t_src.Underlying()
	ut_dst := t_dst.Underlying()
	if sx, ok := x.(SymInt); ok {
		return symConv(ut_dst.(*types.Basic), sx)
	}
	if ss, ok := x.(SymString); ok {
		if _, isSlice := ut_dst.(*types.Slice); isSlice {
			return append([]value{}, ss.B...)
		}
		return ss
	}
	if sl, ok := x.([]value); ok {
		if b, isB := ut_dst.(*types.Basic); isB && b.Info()&types.IsString != 0 {
			for _, e := range sl {
				if isSymInt(e) {
					return SymString{append([]value{}, sl...)}
				}
			}
		}
	}

	// Destination type is not an "untyped" type.
	if b, ok := ut_dst.(*types.Basic); ok && b.Info()&types.IsUntyped != 0 {
		panic("oops: conversion to 'untyped' type: " + b.String())
	}

	// Nor is it an interface type.
	if _, ok := ut_dst.(*types.Interface); ok {
		if _, ok := ut_src.(*types.Interface); ok {
			panic("oops: Convert should be ChangeInterface")
		} else {
			panic("oops: Convert should be MakeInterface")
		}
	}

	// Remaining conversions:
	//    + untyped string/number/bool constant to a specific
	//      representation.
	//    + conversions between non-complex numeric types.
	//    + conversions between complex numeric types.
	//    + integer/[]byte/[]rune -> string.
	//    + string -> []byte/[]rune.
	//
	// All are treated the same: first we extract the value to the
	// widest representation (int64, uint64, float64, complex128,
	// or string), then we convert it to the desired type.

	switch ut_src := ut_src.(type) {
	case *types.Pointer:
		switch ut_dst := ut_dst.(type) {
		case *types.Basic:
			// *value to unsafe.Pointer?
			if ut_dst.Kind() == types.UnsafePointer {
				return unsafe.Pointer(x.(*value))
			}
		}

	case *types.Slice:
		// []byte or []rune -> string
		switch ut_src.Elem().Underlying().(*types.Basic).Kind() {
		case types.Byte:
			x := x.([]value)
			b := make([]byte, 0, len(x))
			for i := range x {
				b = append(b, x[i].(byte))
			}
			return string(b)

		case types.Rune:
			x := x.([]value)
			r := make([]rune, 0, len(x))
			for i := range x {
				r = append(r, x[i].(rune))
			}
			return string(r)
		}

	case *types.Basic:
		x = widen(x)

		// integer -> string?
		if ut_src.Info()&types.IsInteger != 0 {
			if ut_dst, ok := ut_dst.(*types.Basic); ok && ut_dst.Kind() == types.String {
				return fmt.Sprintf("%c", x)
			}
		}

		// string -> []rune, []byte or string?
		if s, ok := x.(string); ok {
			switch ut_dst := ut_dst.(type) {
			case *types.Slice:
				var res []value
				switch ut_dst.Elem().Underlying().(*types.Basic).Kind() {
				case types.Rune:
					for _, r := range []rune(s) {
						res = append(res, r)
					}
					return res
				case types.Byte:
					for _, b := range []byte(s) {
						res = append(res, b)
					}
					return res
				}
			case *types.Basic:
				if ut_dst.Kind() == types.String {
					return x.(string)
				}
			}
			break // fail: no other conversions for string
		}

		// unsafe.Pointer -> *value
		if ut_src.Kind() == types.UnsafePointer {
			// TODO(adonovan): this is wrong and cannot
			// really be fixed with the current design.
			//
			// return (*value)(x.(unsafe.Pointer))
			// creates a new pointer of a different
			// type but the underlying interface value
			// knows its "true" type and so cannot be
			// meaningfully used through the new pointer.
			//
			// To make this work, the interpreter needs to
			// simulate the memory layout of a real
			// compiled implementation.
			//
			// To at least preserve type-safety, we'll
			// just return the zero value of the
			// destination type.
			return zero(t_dst)
		}

		// Conversions between complex numeric types?
		if ut_src.Info()&types.IsComplex != 0 {
			switch ut_dst.(*types.Basic).Kind() {
			case types.Complex64:
				return complex64(x.(complex128))
			case types.Complex128:
				return x.(complex128)
			}
			break // fail: no other conversions for complex
		}

		// Conversions between non-complex numeric types?
		if ut_src.Info()&types.IsNumeric != 0 {
			kind := ut_dst.(*types.Basic).Kind()
			switch x := x.(type) {
			case int64: // signed integer -> numeric?
				switch kind {
				case types.Int:
					return int(x)
				case types.Int8:
					return int8(x)
				case types.Int16:
					return int16(x)
				case types.Int32:
					return int32(x)
				case types.Int64:
					return int64(x)
				case types.Uint:
					return uint(x)
				case types.Uint8:
					return uint8(x)
				case types.Uint16:
					return uint16(x)
				case types.Uint32:
					return uint32(x)
				case types.Uint64:
					return uint64(x)
				case types.Uintptr:
					return uintptr(x)
				case types.Float32:
					return float32(x)
				case types.Float64:
					return float64(x)
				}

			case uint64: // unsigned integer -> numeric?
				switch kind {
				case types.Int:
					return int(x)
				case types.Int8:
					return int8(x)
				case types.Int16:
					return int16(x)
				case types.Int32:
					return int32(x)
				case types.Int64:
					return int64(x)
				case types.Uint:
					return uint(x)
				case types.Uint8:
					return uint8(x)
				case types.Uint16:
					return uint16(x)
				case types.Uint32:
					return uint32(x)
				case types.Uint64:
					return uint64(x)
				case types.Uintptr:
					return uintptr(x)
				case types.Float32:
					return float32(x)
				case types.Float64:
					return float64(x)
				}

			case float64: // floating point -> numeric?
				switch kind {
				case types.Int:
					return int(x)
				case types.Int8:
					return int8(x)
				case types.Int16:
					return int16(x)
				case types.Int32:
					return int32(x)
				case types.Int64:
					return int64(x)
				case types.Uint:
					return uint(x)
				case types.Uint8:
					return uint8(x)
				case types.Uint16:
					return uint16(x)
				case types.Uint32:
					return uint32(x)
				case types.Uint64:
					return uint64(x)
				case types.Uintptr:
					return uintptr(x)
				case types.Float32:
					return float32(x)
				case types.Float64:
					return float64(x)
				}
			}
		}
	}

	panic(fmt.Sprintf("unsupported conversion: %s  -> %s, dynamic type %T", t_src, t_dst, x))
}

// sliceToArrayPointer converts the value x of type slice to type t_dst
// a pointer to array and returns the result.
func sliceToArrayPointer(t_dst, t_src types.Type, x value) value {
	if _, ok := t_src.Underlying().(*types.Slice); ok {
		if ptr, ok := t_dst.Underlying().(*types.Pointer); ok {
			if arr, ok := ptr.Elem().Underlying().(*types.Array); ok {
				x := x.([]value)
				if arr.Len() > int64(len(x)) {
					panic("array length is greater than slice length")
				}
				if x == nil {
					return zero(t_dst)
				}
				v := value(array(x[:arr.Len()]))
				return &v
			}
		}
	}

	panic(fmt.Sprintf("unsupported conversion: %s  -> %s, dynamic type %T", t_src, t_dst, x))
}

// checkInterface checks that the method set of x implements the
// interface itype.
// On success it returns "", on failure, an error message.
func checkInterface(i *interpreter, itype *types.Interface, x iface) string {
	if meth, _ := types.MissingMethod(x.t, itype, true); meth != nil {
		return fmt.Sprintf("interface conversion: %v is not %v: missing method %s",
			x.t, itype, meth.Name())
	}
	return "" // ok
}

func foldLeft(op func(value, value) value, args []value) value {
	x := args[0]
	for _, arg := range args[1:] {
		x = op(x, arg)
	}
	return x
}

func min(x, y value) value {
	switch x := x.(type) {
	case float32:
		return fmin(x, y.(float32))
	case float64:
		return fmin(x, y.(float64))
	}

	// return (y < x) ? y : x
	if binop(nil, token.LSS, nil, y, x).(bool) {
		return y
	}
	return x
}

func max(x, y value) value {
	switch x := x.(type) {
	case float32:
		return fmax(x, y.(float32))
	case float64:
		return fmax(x, y.(float64))
	}

	// return (y > x) ? y : x
	if binop(nil, token.GTR, nil, y, x).(bool) {
		return y
	}
	return x
}

// copied from $GOROOT/src/runtime/minmax.go

type floaty interface{ ~float32 | ~float64 }

func fmin[F floaty](x, y F) F {
	if y != y || y < x {
		return y
	}
	if x != x || x < y || x != 0 {
		return x
	}
	// x and y are both ±0
	// if either is -0, return -0; else return +0
	return forbits(x, y)
}

func fmax[F floaty](x, y F) F {
	if y != y || y > x {
		return y
	}
	if x != x || x > y || x != 0 {
		return x
	}
	// x and y are both ±0
	// if both are -0, return -0; else return +0
	return fandbits(x, y)
}

func forbits[F floaty](x, y F) F {
	switch unsafe.Sizeof(x) {
	case 4:
		*(*uint32)(unsafe.Pointer(&x)) |= *(*uint32)(unsafe.Pointer(&y))
	case 8:
		*(*uint64)(unsafe.Pointer(&x)) |= *(*uint64)(unsafe.Pointer(&y))
	}
	return x
}

func fandbits[F floaty](x, y F) F {
	switch unsafe.Sizeof(x) {
	case 4:
		*(*uint32)(unsafe.Pointer(&x)) &= *(*uint32)(unsafe.Pointer(&y))
	case 8:
		*(*uint64)(unsafe.Pointer(&x)) &= *(*uint64)(unsafe.Pointer(&y))
	}
	return x
}


// cpv copies struct and array values (stopping at pointers, slices, maps and
// interfaces), i.e. what a Go assignment copies.
func cpv(v value) value {
	switch x := v.(type) {
	case structure:
		n := make(structure, len(x))
		for i := range x {
			n[i] = cpv(x[i])
		}
		return n
	case array:
		n := make(array, len(x))
		for i := range x {
			n[i] = cpv(x[i])
		}
		return n
	}
	return v
}
