// Copyright 2013 The Go Authors. All rights reserved.
// Use of this source code is governed by a BSD-style
// license that can be found in the LICENSE file.

package symx

// Values
//
// All interpreter values are "boxed" in the empty interface, value.
// The range of possible dynamic types within value are:
//
// - bool
// - numbers (all built-in int/float/complex types are distinguished)
// - string
// - map[value]value --- maps for which  usesBuiltinMap(keyType)
//   *hashmap        --- maps for which !usesBuiltinMap(keyType)
// - chan value
// - []value --- slices
// - iface --- interfaces.
// - structure --- structs.  Fields are ordered and accessed by numeric indices.
// - array --- arrays.
// - *value --- pointers.  Careful: *value is a distinct type from *array etc.
// - *ssa.Function \
//   *ssa.Builtin   } --- functions.  A nil 'func' is always of type *ssa.Function.
//   *closure      /
// - tuple --- as returned by Return, Next, "value,ok" modes, etc.
// - iter --- iterators from 'range' over map or string.
// - bad --- a poison pill for locals that have gone out of scope.
// - rtype -- the interpreter's concrete implementation of reflect.Type
// - **deferred -- the address of a frame's defer stack for a Defer._Stack.
//
// Note that nil is not on this list.
//
// Pay close attention to whether or not the dynamic type is a pointer.
// The compiler cannot help you since value is an empty interface.

import (
	"bytes"
	"fmt"
	"go/types"
	"io"
	"reflect"
	"strings"
	"sync"
	"unsafe"

	"golang.org/x/tools/go/ssa"
	"golang.org/x/tools/go/types/typeutil"
)

type value interface{}

type tuple []value

type array []value

type iface struct {
	t types.Type // never an "untyped" type
	v value
}

type structure []value

// For map, array, *array, slice, string or channel.
type iter interface {
	// next returns a Tuple (key, value, ok).
	// key and value are unaliased, e.g. copies of the sequence element.
	next() tuple
}

type closure struct {
	Fn  *ssa.Function
	Env []value
}

type bad struct{}

type rtype struct {
	t types.Type
}

// Hash functions and equivalence relation:

// hashString computes the FNV hash of s.
func hashString(s string) int {
	var h uint32
	for i := 0; i < len(s); i++ {
		h ^= uint32(s[i])
		h *= 16777619
	}
	return int(h)
}

var (
	mu     sync.Mutex
	hasher = typeutil.MakeHasher()
)

// hashType returns a hash for t such that
// types.Identical(x, y) => hashType(x) == hashType(y).
func hashType(t types.Type) int {
	return int(hasher.Hash(t))
}

// usesBuiltinMap returns true if the built-in hash function and
// equivalence relation for type t are consistent with those of the
// interpreter's representation of type t.  Such types are: all basic
// types (bool, numbers, string), pointers and channels.
//
// usesBuiltinMap returns false for types that require a custom map
// implementation: interfaces, arrays and structs.
//
// Panic ensues if t is an invalid map key type: function, map or slice.
func usesBuiltinMap(t types.Type) bool {
	switch t := t.(type) {
	case *types.Basic, *types.Chan, *types.Pointer:
		return true
	case *types.Named, *types.Alias:
		return usesBuiltinMap(t.Underlying())
	case *types.Interface, *types.Array, *types.Struct:
		return false
	}
	panic(fmt.Sprintf("invalid map key type: %T", t))
}

func (x array) eq(t types.Type, _y interface{}) bool {
	y := _y.(array)
	tElt := t.Underlying().(*types.Array).Elem()
	for i, xi := range x {
		if !equals(tElt, xi, y[i]) {
			return false
		}
	}
	return true
}

func (x array) hash(t types.Type) int {
	h := 0
	tElt := t.Underlying().(*types.Array).Elem()
	for _, xi := range x {
		h += hash(t, tElt, xi)
	}
	return h
}

func (x structure) eq(t types.Type, _y interface{}) bool {
	y := _y.(structure)
	tStruct := t.Underlying().(*types.Struct)
	for i, n := 0, tStruct.NumFields(); i < n; i++ {
		if f := tStruct.Field(i); !f.Anonymous() {
			if !equals(f.Type(), x[i], y[i]) {
				return false
			}
		}
	}
	return true
}

func (x structure) hash(t types.Type) int {
	tStruct := t.Underlying().(*types.Struct)
	h := 0
	for i, n := 0, tStruct.NumFields(); i < n; i++ {
		if f := tStruct.Field(i); !f.Anonymous() {
			h += hash(t, f.Type(), x[i])
		}
	}
	return h
}

// nil-tolerant variant of types.Identical.
func sameType(x, y types.Type) bool {
	if x == nil {
		return y == nil
	}
	return y != nil && types.Identical(x, y)
}

func (x iface) eq(t types.Type, _y interface{}) bool {
	y := _y.(iface)
	return sameType(x.t, y.t) && (x.t == nil || equals(x.t, x.v, y.v))
}

func (x iface) hash(outer types.Type) int {
	return hashType(x.t)*8581 + hash(outer, x.t, x.v)
}

func (x rtype) hash(_ types.Type) int {
	return hashType(x.t)
}

func (x rtype) eq(_ types.Type, y interface{}) bool {
	return types.Identical(x.t, y.(rtype).t)
}

// equals returns true iff x and y are equal according to Go's
// linguistic equivalence relation for type t.
// In a well-typed program, the dynamic types of x and y are
// guaranteed equal.
func equals(t types.Type, x, y value) bool {
	switch x := x.(type) {
	case bool:
		return x == y.(bool)
	case int:
		return x == y.(int)
	case int8:
		return x == y.(int8)
	case int16:
		return x == y.(int16)
	case int32:
		return x == y.(int32)
	case int64:
		return x == y.(int64)
	case uint:
		return x == y.(uint)
	case uint8:
		return x == y.(uint8)
	case uint16:
		return x == y.(uint16)
	case uint32:
		return x == y.(uint32)
	case uint64:
		return x == y.(uint64)
	case uintptr:
		return x == y.(uintptr)
	case float32:
		return x == y.(float32)
	case float64:
		return x == y.(float64)
	case complex64:
		return x == y.(complex64)
	case complex128:
		return x == y.(complex128)
	case string:
		return x == y.(string)
	case *value:
		return x == y.(*value)
	case chan value:
		return x == y.(chan value)
	case structure:
		return x.eq(t, y)
	case array:
		return x.eq(t, y)
	case iface:
		return x.eq(t, y)
	case rtype:
		return x.eq(t, y)
	}

	// Since map, func and slice don't support comparison, this
	// case is only reachable if one of x or y is literally nil
	// (handled in eqnil) or via interface{} values.
	panic(fmt.Sprintf("comparing uncomparable type %s", t))
}

// Returns an integer hash of x such that equals(x, y) => hash(x) == hash(y).
// The outer type is used only for the "unhashable" panic message.
func hash(outer, t types.Type, x value) int {
	switch x := x.(type) {
	case bool:
		if x {
			return 1
		}
		return 0
	case int:
		return x
	case int8:
		return int(x)
	case int16:
		return int(x)
	case int32:
		return int(x)
	case int64:
		return int(x)
	case uint:
		return int(x)
	case uint8:
		return int(x)
	case uint16:
		return int(x)
	case uint32:
		return int(x)
	case uint64:
		return int(x)
	case uintptr:
		return int(x)
	case float32:
		return int(x)
	case float64:
		return int(x)
	case complex64:
		return int(real(x))
	case complex128:
		return int(real(x))
	case string:
		return hashString(x)
	case *value:
		return int(uintptr(unsafe.Pointer(x)))
	case chan value:
		return int(uintptr(reflect.ValueOf(x).Pointer()))
	case structure:
		return x.hash(t)
	case array:
		return x.hash(t)
	case iface:
		return x.hash(t)
	case rtype:
		return x.hash(t)
	}
	panic(fmt.Sprintf("unhashable type %v", outer))
}

// reflect.Value struct values don't have a fixed shape, since the
// payload can be a scalar or an aggregate depending on the instance.
// So store (and load) can't simply use recursion over the shape of the
// rhs value, or the lhs, to copy the value; we need the static type
// information.  (We can't make reflect.Value a new basic data type
// because its "structness" is exposed to Go programs.)

// load returns the value of type T in *addr.
func load(T types.Type, addr *value) value {
	switch T := T.Underlying().(type) {
	case *types.Struct:
		v := (*addr).(structure)
		a := make(structure, len(v))
		for i := range a {
			a[i] = load(T.Field(i).Type(), &v[i])
		}
		return a
	case *types.Array:
		v := (*addr).(array)
		a := make(array, len(v))
		for i := range a {
			a[i] = load(T.Elem(), &v[i])
		}
		return a
	default:
		return *addr
	}
}

// store stores value v of type T into *addr.
func store(T types.Type, addr *value, v value) {
	switch T := T.Underlying().(type) {
	case *types.Struct:
		lhs := (*addr).(structure)
		rhs := v.(structure)
		for i := range lhs {
			store(T.Field(i).Type(), &lhs[i], rhs[i])
		}
	case *types.Array:
		lhs := (*addr).(array)
		rhs := v.(array)
		for i := range lhs {
			store(T.Elem(), &lhs[i], rhs[i])
		}
	default:
		*addr = v
	}
}

// Prints in the style of built-in println.
// (More or less; in gc println is actually a compiler intrinsic and
// can distinguish println(1) from println(interface{}(1)).)
func writeValue(buf *bytes.Buffer, v value) {
	switch v := v.(type) {
	case nil, bool, int, int8, int16, int32, int64, uint, uint8, uint16, uint32, uint64, uintptr, float32, float64, complex64, complex128, string:
		fmt.Fprintf(buf, "%v", v)

	case map[value]value:
		buf.WriteString("map[")
		sep := ""
		for k, e := range v {
			buf.WriteString(sep)
			sep = " "
			writeValue(buf, k)
			buf.WriteString(":")
			writeValue(buf, e)
		}
		buf.WriteString("]")

	case *hashmap:
		buf.WriteString("map[")
		sep := " "
		for _, e := range v.entries() {
			for e != nil {
				buf.WriteString(sep)
				sep = " "
				writeValue(buf, e.key)
				buf.WriteString(":")
				writeValue(buf, e.value)
				e = e.next
			}
		}
		buf.WriteString("]")

	case chan value:
		fmt.Fprintf(buf, "%v", v) // (an address)

	case *value:
		if v == nil {
			buf.WriteString("<nil>")
		} else {
			fmt.Fprintf(buf, "%p", v)
		}

	case iface:
		fmt.Fprintf(buf, "(%s, ", v.t)
		writeValue(buf, v.v)
		buf.WriteString(")")

	case structure:
		buf.WriteString("{")
		for i, e := range v {
			if i > 0 {
				buf.WriteString(" ")
			}
			writeValue(buf, e)
		}
		buf.WriteString("}")

	case array:
		buf.WriteString("[")
		for i, e := range v {
			if i > 0 {
				buf.WriteString(" ")
			}
			writeValue(buf, e)
		}
		buf.WriteString("]")

	case []value:
		buf.WriteString("[")
		for i, e := range v {
			if i > 0 {
				buf.WriteString(" ")
			}
			writeValue(buf, e)
		}
		buf.WriteString("]")

	case *ssa.Function, *ssa.Builtin, *closure:
		fmt.Fprintf(buf, "%p", v) // (an address)

	case rtype:
		buf.WriteString(v.t.String())

	case tuple:
		// Unreachable in well-formed Go programs
		buf.WriteString("(")
		for i, e := range v {
			if i > 0 {
				buf.WriteString(", ")
			}
			writeValue(buf, e)
		}
		buf.WriteString(")")

	default:
		fmt.Fprintf(buf, "<%T>", v)
	}
}

// Implements printing of Go values in the style of built-in println.
func toString(v value) string {
	var b bytes.Buffer
	writeValue(&b, v)
	return b.String()
}

// ------------------------------------------------------------------------
// Iterators

type stringIter struct {
	*strings.Reader
	i int
}

func (it *stringIter) next() tuple {
	okv := make(tuple, 3)
	ch, n, err := it.ReadRune()
	ok := err != io.EOF
	okv[0] = ok
	if ok {
		okv[1] = it.i
		okv[2] = ch
	}
	it.i += n
	return okv
}

type mapIter struct {
	iter *reflect.MapIter
	ok   bool
}

func (it *mapIter) next() tuple {
	it.ok = it.iter.Next()
	if !it.ok {
		return []value{false, nil, nil}
	}
	k, v := it.iter.Key().Interface(), it.iter.Value().Interface()
	return []value{true, k, v}
}

type hashmapIter struct {
	iter *reflect.MapIter
	ok   bool
	cur  *entry
}

func (it *hashmapIter) next() tuple {
	for {
		if it.cur != nil {
			k, v := it.cur.key, it.cur.value
			it.cur = it.cur.next
			return []value{true, k, v}
		}
		it.ok = it.iter.Next()
		if !it.ok {
			return []value{false, nil, nil}
		}
		it.cur = it.iter.Value().Interface().(*entry)
	}
}
