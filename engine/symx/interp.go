// Copyright 2013 The Go Authors. All rights reserved.
// Use of this source code is governed by a BSD-style
// license that can be found in the LICENSE file.

// Package ssa/interp defines an interpreter for the SSA
// representation of Go programs.
//
// This interpreter is provided as an adjunct for testing the SSA
// construction algorithm.  Its purpose is to provide a minimal
// metacircular implementation of the dynamic semantics of each SSA
// instruction.  It is not, and will never be, a production-quality Go
// interpreter.
//
// The following is a partial list of Go features that are currently
// unsupported or incomplete in the interpreter.
//
// * Unsafe operations, including all uses of unsafe.Pointer, are
// impossible to support given the "boxed" value representation we
// have chosen.
//
// * The reflect package is only partially implemented.
//
// * The "testing" package is no longer supported because it
// depends on low-level details that change too often.
//
// * "sync/atomic" operations are not atomic due to the "boxed" value
// representation: it is not possible to read, modify and write an
// interface value atomically. As a consequence, Mutexes are currently
// broken.
//
// * recover is only partially implemented.  Also, the interpreter
// makes no attempt to distinguish target panics from interpreter
// crashes.
//
// * the sizes of the int, uint and uintptr types in the target
// program are assumed to be the same as those of the interpreter
// itself.
//
// * all values occupy space, even those of types defined by the spec
// to have zero size, e.g. struct{}.  This can cause asymptotic
// performance degradation.
//
// * os.Exit is implemented using panic, causing deferred functions to
// run.
package symx

import (
	"fmt"
	"go/token"
	"go/types"
	"log"
	"os"
	"reflect"
	"strings"
	"runtime"
	"slices"
	_ "unsafe"

	"golang.org/x/tools/go/ssa"
	
)


type continuation int

const (
	kNext continuation = iota
	kReturn
	kJump
)

// Mode is a bitmask of options affecting the interpreter.
type Mode uint

const (
	DisableRecover Mode = 1 << iota // Disable recover() in target programs; show interpreter crash instead.
	EnableTracing                   // Print a trace of all instructions as they are interpreted.
)

type methodSet map[string]*ssa.Function

// State shared between all interpreted goroutines.
type interpreter struct {
	osArgs             []value                // the value of os.Args
	prog               *ssa.Program           // the SSA program
	globals            map[*ssa.Global]*value // addresses of global variables (immutable)
	mode               Mode                   // interpreter options
	reflectPackage     *ssa.Package           // the fake reflect package
	errorMethods       methodSet              // the method set of reflect.error, which implements the error interface.
	rtypeMethods       methodSet              // the method set of rtype, which implements the reflect.Type interface.
	runtimeErrorString types.Type             // the runtime.errorString type
	sizes              types.Sizes            // the effective type-sizing function
	goroutines         int32                  // atomically updated
	eng                *Engine                // owning symbolic engine (one per worker)
}

type deferred struct {
	fn    value
	args  []value
	instr *ssa.Defer
	tail  *deferred
}

type frame struct {
	i                *interpreter
	caller           *frame
	fn               *ssa.Function
	block, prevBlock *ssa.BasicBlock
	env              map[ssa.Value]value // dynamic values of SSA variables
	locals           []value
	defers           *deferred
	result           value
	panicking        bool
	panic            interface{}
	phitemps         []value // temporaries for parallel phi assignment
	symIf            map[*ssa.If]int
}

func (fr *frame) get(key ssa.Value) value {
	switch key := key.(type) {
	case nil:
		// Hack; simplifies handling of optional attributes
		// such as ssa.Slice.{Low,High}.
		return nil
	case *ssa.Function, *ssa.Builtin:
		return key
	case *ssa.Const:
		return constValue(key)
	case *ssa.Global:
		if r, ok := fr.i.globals[key]; ok {
			return r
		}
	}
	if r, ok := fr.env[key]; ok {
		return r
	}
	panic(fmt.Sprintf("get: no value for %T: %v", key, key.Name()))
}

// runDefer runs a deferred call d.
// It always returns normally, but may set or clear fr.panic.
func (fr *frame) runDefer(d *deferred) {
	if fr.i.mode&EnableTracing != 0 {
		fmt.Fprintf(os.Stderr, "%s: invoking deferred function call\n",
			fr.i.prog.Fset.Position(d.instr.Pos()))
	}
	var ok bool
	defer func() {
		if !ok {
			// Deferred call created a new state of panic.
			r := recover()
			if isEngineAbort(r) {
				panic(r)
			}
			fr.panicking = true
			fr.panic = r
		}
	}()
	call(fr.i, fr, d.instr.Pos(), d.fn, d.args)
	ok = true
}

// runDefers executes fr's deferred function calls in LIFO order.
//
// On entry, fr.panicking indicates a state of panic; if
// true, fr.panic contains the panic value.
//
// On completion, if a deferred call started a panic, or if no
// deferred call recovered from a previous state of panic, then
// runDefers itself panics after the last deferred call has run.
//
// If there was no initial state of panic, or it was recovered from,
// runDefers returns normally.
func (fr *frame) runDefers() {
	for d := fr.defers; d != nil; d = d.tail {
		fr.runDefer(d)
	}
	fr.defers = nil
	if fr.panicking {
		panic(fr.panic) // new panic, or still panicking
	}
}

// lookupMethod returns the method set for type typ, which may be one
// of the interpreter's fake types.
func lookupMethod(i *interpreter, typ types.Type, meth *types.Func) *ssa.Function {
	switch typ {
	case rtypeType:
		return i.rtypeMethods[meth.Id()]
	case errorType:
		return i.errorMethods[meth.Id()]
	}
	return i.prog.LookupMethod(typ, meth.Pkg(), meth.Name())
}

// visitInstr interprets a single ssa.Instruction within the activation
// record frame.  It returns a continuation value indicating where to
// read the next instruction from.
func visitInstr(fr *frame, instr ssa.Instruction) continuation {
	switch instr := instr.(type) {
	case *ssa.DebugRef:
		// no-op

	case *ssa.UnOp:
		if instr.Op == token.MUL {
			if g, ok := instr.X.(*ssa.Global); ok && fr.i.eng != nil && fr.i.eng.P.poisoned[g] {
				panic(pathAbort{"read of global " + g.String() + " whose package init was not run (from " + fr.fn.String() + ")"})
			}
		}
		fr.env[instr] = unop(instr, fr.get(instr.X))

	case *ssa.BinOp:
		fr.env[instr] = binop(fr.i.eng, instr.Op, instr.X.Type(), fr.get(instr.X), fr.get(instr.Y))

	case *ssa.Call:
		fn, args := prepareCall(fr, &instr.Call)
		fr.env[instr] = call(fr.i, fr, instr.Pos(), fn, args)

	case *ssa.ChangeInterface:
		fr.env[instr] = fr.get(instr.X)

	case *ssa.ChangeType:
		fr.env[instr] = fr.get(instr.X) // (can't fail)

	case *ssa.Convert:
		fr.env[instr] = conv(instr.Type(), instr.X.Type(), fr.get(instr.X))

	case *ssa.SliceToArrayPointer:
		fr.env[instr] = sliceToArrayPointer(instr.Type(), instr.X.Type(), fr.get(instr.X))

	case *ssa.MakeInterface:
		fr.env[instr] = iface{t: instr.X.Type(), v: fr.get(instr.X)}

	case *ssa.Extract:
		fr.env[instr] = fr.get(instr.Tuple).(tuple)[instr.Index]

	case *ssa.Slice:
		fr.env[instr] = slice(fr.get(instr.X), fr.get(instr.Low), fr.get(instr.High), fr.get(instr.Max))

	case *ssa.Return:
		switch len(instr.Results) {
		case 0:
		case 1:
			fr.result = fr.get(instr.Results[0])
		default:
			var res []value
			for _, r := range instr.Results {
				res = append(res, fr.get(r))
			}
			fr.result = tuple(res)
		}
		fr.block = nil
		return kReturn

	case *ssa.RunDefers:
		fr.runDefers()

	case *ssa.Panic:
		panic(targetPanic{fr.get(instr.X)})

	case *ssa.Send:
		fr.get(instr.Chan).(chan value) <- fr.get(instr.X)

	case *ssa.Store:
		store(mustDeref(instr.Addr.Type()), fr.get(instr.Addr).(*value), fr.get(instr.Val))

	case *ssa.If:
		succ := 1
		switch c := fr.get(instr.Cond).(type) {
		case bool:
			if c {
				succ = 0
			}
		case SymBool:
			if fr.i.eng.decideAt(fr, instr, c.T) {
				succ = 0
			}
		}
		fr.prevBlock, fr.block = fr.block, fr.block.Succs[succ]
		return kJump

	case *ssa.Jump:
		fr.prevBlock, fr.block = fr.block, fr.block.Succs[0]
		return kJump

	case *ssa.Defer:
		fn, args := prepareCall(fr, &instr.Call)
		defers := &fr.defers
		if into := fr.get(instr.DeferStack); into != nil {
			defers = into.(**deferred)
		}
		*defers = &deferred{
			fn:    fn,
			args:  args,
			instr: instr,
			tail:  *defers,
		}

	case *ssa.Go:
		panic(pathAbort{"go statement reached in " + fr.fn.String()})

	case *ssa.MakeChan:
		fr.env[instr] = make(chan value, asInt64(fr.get(instr.Size)))

	case *ssa.Alloc:
		var addr *value
		if instr.Heap {
			// new
			addr = new(value)
			fr.env[instr] = addr
		} else {
			// local
			addr = fr.env[instr].(*value)
		}
		*addr = zero(mustDeref(instr.Type()))

	case *ssa.MakeSlice:
		slice := make([]value, asInt64(fr.get(instr.Cap)))
		tElt := instr.Type().Underlying().(*types.Slice).Elem()
		for i := range slice {
			slice[i] = zero(tElt)
		}
		fr.env[instr] = slice[:asInt64(fr.get(instr.Len))]

	case *ssa.MakeMap:
		var reserve int64
		if instr.Reserve != nil {
			reserve = asInt64(fr.get(instr.Reserve))
		}
		if !fitsInt(reserve, fr.i.sizes) {
			panic(fmt.Sprintf("ssa.MakeMap.Reserve value %d does not fit in int", reserve))
		}
		fr.env[instr] = makeMap(instr.Type().Underlying().(*types.Map).Key(), reserve)
		if fr.i.eng != nil {
			fr.i.eng.noteMapMade(fr, fr.env[instr])
		}

	case *ssa.Range:
		fr.env[instr] = rangeIter(fr, fr.get(instr.X), instr.X.Type())

	case *ssa.Next:
		fr.env[instr] = fr.get(instr.Iter).(iter).next()

	case *ssa.FieldAddr:
		if g, ok := instr.X.(*ssa.Global); ok && fr.i.eng != nil && fr.i.eng.P.poisoned[g] {
			panic(pathAbort{"read of global " + g.String() + " whose package init was not run (from " + fr.fn.String() + ")"})
		}
		fr.env[instr] = &(*fr.get(instr.X).(*value)).(structure)[instr.Field]

	case *ssa.Field:
		fr.env[instr] = fr.get(instr.X).(structure)[instr.Field]

	case *ssa.IndexAddr:
		x := fr.get(instr.X)
		idx := fr.get(instr.Index)
		switch x := x.(type) {
		case []value:
			fr.env[instr] = &x[asInt64(idx)]
		case *value: // *array
			fr.env[instr] = &(*x).(array)[asInt64(idx)]
		default:
			panic(fmt.Sprintf("unexpected x type in IndexAddr: %T", x))
		}

	case *ssa.Index:
		x := fr.get(instr.X)
		idx := fr.get(instr.Index)

		switch x := x.(type) {
		case array:
			fr.env[instr] = x[asInt64(idx)]
		case string:
			fr.env[instr] = x[asInt64(idx)]
		default:
			panic(fmt.Sprintf("unexpected x type in Index: %T", x))
		}

	case *ssa.Lookup:
		fr.env[instr] = lookup(instr, fr.get(instr.X), fr.get(instr.Index))

	case *ssa.MapUpdate:
		m := fr.get(instr.Map)
		key := fr.get(instr.Key)
		v := fr.get(instr.Value)
		if fr.i.eng != nil {
			fr.i.eng.noteMapWrite(fr, m)
		}
		switch m := m.(type) {
		case map[value]value:
			m[key] = v
		case *hashmap:
			m.insert(key.(hashable), v)
		default:
			panic(fmt.Sprintf("illegal map type: %T", m))
		}

	case *ssa.TypeAssert:
		fr.env[instr] = typeAssert(fr.i, instr, fr.get(instr.X).(iface))

	case *ssa.MakeClosure:
		var bindings []value
		for _, binding := range instr.Bindings {
			bindings = append(bindings, fr.get(binding))
		}
		fr.env[instr] = &closure{instr.Fn.(*ssa.Function), bindings}

	case *ssa.Phi:
		log.Fatal("unreachable") // phis are processed at block entry

	case *ssa.Select:
		var cases []reflect.SelectCase
		if !instr.Blocking {
			cases = append(cases, reflect.SelectCase{
				Dir: reflect.SelectDefault,
			})
		}
		for _, state := range instr.States {
			var dir reflect.SelectDir
			if state.Dir == types.RecvOnly {
				dir = reflect.SelectRecv
			} else {
				dir = reflect.SelectSend
			}
			var send reflect.Value
			if state.Send != nil {
				send = reflect.ValueOf(fr.get(state.Send))
			}
			cases = append(cases, reflect.SelectCase{
				Dir:  dir,
				Chan: reflect.ValueOf(fr.get(state.Chan)),
				Send: send,
			})
		}
		chosen, recv, recvOk := reflect.Select(cases)
		if !instr.Blocking {
			chosen-- // default case should have index -1.
		}
		r := tuple{chosen, recvOk}
		for i, st := range instr.States {
			if st.Dir == types.RecvOnly {
				var v value
				if i == chosen && recvOk {
					// No need to copy since send makes an unaliased copy.
					v = recv.Interface().(value)
				} else {
					v = zero(st.Chan.Type().Underlying().(*types.Chan).Elem())
				}
				r = append(r, v)
			}
		}
		fr.env[instr] = r

	default:
		panic(fmt.Sprintf("unexpected instruction: %T", instr))
	}

	// if val, ok := instr.(ssa.Value); ok {
	// 	fmt.Println(toString(fr.env[val])) // debugging
	// }

	return kNext
}

// prepareCall determines the function value and argument values for a
// function call in a Call, Go or Defer instruction, performing
// interface method lookup if needed.
func prepareCall(fr *frame, call *ssa.CallCommon) (fn value, args []value) {
	v := fr.get(call.Value)
	if call.Method == nil {
		// Function call.
		fn = v
	} else {
		// Interface method invocation.
		recv := v.(iface)
		if recv.t == nil {
			if os.Getenv("VRF_DEBUG") != "" {
				fmt.Fprintf(os.Stderr, "nil interface method %s in %s\n", call.Method.Name(), chainOf(fr, 6))
			}
			panic("method invoked on nil interface")
		}
		if f := lookupMethod(fr.i, recv.t, call.Method); f == nil {
			// Unreachable in well-typed programs.
			panic(fmt.Sprintf("method set for dynamic type %v does not contain %s", recv.t, call.Method))
		} else {
			fn = f
		}
		args = append(args, recv.v)
	}
	for _, arg := range call.Args {
		args = append(args, fr.get(arg))
	}
	return
}

// call interprets a call to a function (function, builtin or closure)
// fn with arguments args, returning its result.
// callpos is the position of the callsite.
func call(i *interpreter, caller *frame, callpos token.Pos, fn value, args []value) value {
	switch fn := fn.(type) {
	case *ssa.Function:
		if fn == nil {
			panic("call of nil function") // nil of func type
		}
		return callSSA(i, caller, callpos, fn, args, nil)
	case *closure:
		return callSSA(i, caller, callpos, fn.Fn, args, fn.Env)
	case *ssa.Builtin:
		return callBuiltin(caller, callpos, fn, args)
	}
	panic(fmt.Sprintf("cannot call %T", fn))
}

func loc(fset *token.FileSet, pos token.Pos) string {
	if pos == token.NoPos {
		return ""
	}
	return " at " + fset.Position(pos).String()
}

// callSSA interprets a call to function fn with arguments args,
// and lexical environment env, returning its result.
// callpos is the position of the callsite.
func callSSA(i *interpreter, caller *frame, callpos token.Pos, fn *ssa.Function, args []value, env []value) value {
	if i.mode&EnableTracing != 0 {
		fset := fn.Prog.Fset
		// TODO(adonovan): fix: loc() lies for external functions.
		fmt.Fprintf(os.Stderr, "Entering %s%s.\n", fn, loc(fset, fn.Pos()))
		suffix := ""
		if caller != nil {
			suffix = ", resuming " + caller.fn.String() + loc(fset, callpos)
		}
		defer fmt.Fprintf(os.Stderr, "Leaving %s%s.\n", fn, suffix)
	}
	fr := &frame{
		i:      i,
		caller: caller, // for panic/recover
		fn:     fn,
	}
	if i.eng != nil {
		if res, done := i.eng.onCall(caller, callpos, fn, args); done {
			return res
		}
	}
	if fn.Parent() == nil {
		name := fn.String()
		if ext := externals[name]; ext != nil {
			if i.mode&EnableTracing != 0 {
				fmt.Fprintln(os.Stderr, "\t(external)")
			}
			return ext(fr, args)
		}
		if fn.Blocks == nil {
			panic(pathAbort{"no code for function: " + name + " called from " + chainOf(caller, 4)})
		}
	}

	// generic function body?
	if fn.TypeParams().Len() > 0 && len(fn.TypeArgs()) == 0 {
		panic("interp requires ssa.BuilderMode to include InstantiateGenerics to execute generics")
	}

	fr.env = make(map[ssa.Value]value)
	if i.eng != nil {
		i.eng.cur = fr
		if isKeeperCtor(fn) {
			i.eng.ctorDepth++
			defer func() { i.eng.ctorDepth-- }()
		} else if fn.Name() == "New" && fn.Pkg != nil && strings.HasSuffix(fn.Pkg.Pkg.Path(), "/zzvrf/wire") {
			// the harness environment is being built (hooks are set on the keepers etc.)
			i.eng.wiring++
			defer func() { i.eng.wiring-- }()
		}
	}
	fr.block = fn.Blocks[0]
	fr.locals = make([]value, len(fn.Locals))
	for i, l := range fn.Locals {
		fr.locals[i] = zero(mustDeref(l.Type()))
		fr.env[l] = &fr.locals[i]
	}
	for i, p := range fn.Params {
		fr.env[p] = args[i]
	}
	for i, fv := range fn.FreeVars {
		fr.env[fv] = env[i]
	}
	for fr.block != nil {
		runFrame(fr)
	}
	// Destroy the locals to avoid accidental use after return.
	for i := range fn.Locals {
		fr.locals[i] = bad{}
	}
	if i.eng != nil {
		i.eng.cur = caller
	}
	return fr.result
}

// runFrame executes SSA instructions starting at fr.block and
// continuing until a return, a panic, or a recovered panic.
//
// After a panic, runFrame panics.
//
// After a normal return, fr.result contains the result of the call
// and fr.block is nil.
//
// A recovered panic in a function without named return parameters
// (NRPs) becomes a normal return of the zero value of the function's
// result type.
//
// After a recovered panic in a function with NRPs, fr.result is
// undefined and fr.block contains the block at which to resume
// control.
func runFrame(fr *frame) {
	defer func() {
		if fr.block == nil {
			return // normal return
		}
		if fr.i.mode&DisableRecover != 0 {
			return // let interpreter crash
		}
		r := recover()
		if isEngineAbort(r) {
			panic(r)
		}
		fr.panicking = true
		fr.panic = r
		if fr.i.mode&EnableTracing != 0 {
			fmt.Fprintf(os.Stderr, "Panicking: %T %v.\n", fr.panic, fr.panic)
		}
		fr.runDefers()
		fr.block = fr.fn.Recover
	}()

	for {
		if fr.i.mode&EnableTracing != 0 {
			fmt.Fprintf(os.Stderr, ".%s:\n", fr.block)
		}

		nonPhis := executePhis(fr)
		for _, instr := range nonPhis {
			if fr.i.mode&EnableTracing != 0 {
				if v, ok := instr.(ssa.Value); ok {
					fmt.Fprintln(os.Stderr, "\t", v.Name(), "=", instr)
				} else {
					fmt.Fprintln(os.Stderr, "\t", instr)
				}
			}
			if e := fr.i.eng; e != nil {
				e.steps++
				if e.steps > e.spec.MaxSteps {
					panic(pathAbort{"step budget exceeded (non-termination suspected) in " + fr.fn.String()})
				}
			}
			if visitInstr(fr, instr) == kReturn {
				return
			}
			// Inv: kNext (continue) or kJump (last instr)
		}
	}
}

// executePhis executes the phi-nodes at the start of the current
// block and returns the non-phi instructions.
func executePhis(fr *frame) []ssa.Instruction {
	firstNonPhi := -1
	for i, instr := range fr.block.Instrs {
		if _, ok := instr.(*ssa.Phi); !ok {
			firstNonPhi = i
			break
		}
	}
	// Inv: 0 <= firstNonPhi; every block contains a non-phi.

	nonPhis := fr.block.Instrs[firstNonPhi:]
	if firstNonPhi > 0 {
		phis := fr.block.Instrs[:firstNonPhi]
		// Execute parallel assignment of phis.
		//
		// See "the swap problem" in Briggs et al's "Practical Improvements
		// to the Construction and Destruction of SSA Form" for discussion.
		predIndex := slices.Index(fr.block.Preds, fr.prevBlock)
		fr.phitemps = fr.phitemps[:0]
		for _, phi := range phis {
			phi := phi.(*ssa.Phi)
			if fr.i.mode&EnableTracing != 0 {
				fmt.Fprintln(os.Stderr, "\t", phi.Name(), "=", phi)
			}
			fr.phitemps = append(fr.phitemps, fr.get(phi.Edges[predIndex]))
		}
		for i, phi := range phis {
			fr.env[phi.(*ssa.Phi)] = fr.phitemps[i]
		}
	}
	return nonPhis
}

// doRecover implements the recover() built-in.
func doRecover(caller *frame) value {
	// recover() must be exactly one level beneath the deferred
	// function (two levels beneath the panicking function) to
	// have any effect.  Thus we ignore both "defer recover()" and
	// "defer f() -> g() -> recover()".
	if caller.i.mode&DisableRecover == 0 &&
		caller != nil && !caller.panicking &&
		caller.caller != nil && caller.caller.panicking {
		caller.caller.panicking = false
		p := caller.caller.panic
		caller.caller.panic = nil

		// TODO(adonovan): support runtime.Goexit.
		switch p := p.(type) {
		case pathAbort:
			panic(p)
		case targetPanic:
			// The target program explicitly called panic().
			if sv, ok := p.v.(string); ok {
				return iface{caller.i.runtimeErrorString, sv}
			}
			return p.v
		case runtime.Error:
			// The interpreter encountered a runtime error.
			return iface{caller.i.runtimeErrorString, p.Error()}
		case string:
			// The interpreter explicitly called panic().
			return iface{caller.i.runtimeErrorString, p}
		default:
			panic(fmt.Sprintf("unexpected panic type %T in target call to recover()", p))
		}
	}
	return iface{}
}

// Interpret interprets the Go program whose main package is mainpkg.
// mode specifies various interpreter options.  filename and args are
// the initial values of os.Args for the target program.  sizes is the
// effective type-sizing function for this program.
//
// Interpret returns the exit code of the program: 2 for panic (like
// gc does), or the argument to os.Exit for normal termination.
//
// The SSA program must include the "runtime" package.
//
// Type parameterized functions must have been built with
// InstantiateGenerics in the ssa.BuilderMode to be interpreted.
func Interpret(mainpkg *ssa.Package, mode Mode, sizes types.Sizes, filename string, args []string) (exitCode int) {
	i := &interpreter{
		prog:       mainpkg.Prog,
		globals:    make(map[*ssa.Global]*value),
		mode:       mode,
		sizes:      sizes,
		goroutines: 1,
	}
	runtimePkg := i.prog.ImportedPackage("runtime")
	if runtimePkg == nil {
		panic("ssa.Program doesn't include runtime package")
	}
	i.runtimeErrorString = runtimePkg.Type("errorString").Object().Type()

	initReflect(i)

	i.osArgs = append(i.osArgs, filename)
	for _, arg := range args {
		i.osArgs = append(i.osArgs, arg)
	}

	for _, pkg := range i.prog.AllPackages() {
		// Initialize global storage.
		for _, m := range pkg.Members {
			switch v := m.(type) {
			case *ssa.Global:
				cell := zero(mustDeref(v.Type()))
				i.globals[v] = &cell
			}
		}
	}

	// Top-level error handler.
	exitCode = 2
	defer func() {
		if exitCode != 2 || i.mode&DisableRecover != 0 {
			return
		}
		switch p := recover().(type) {
		case exitPanic:
			exitCode = int(p)
			return
		case targetPanic:
			fmt.Fprintln(os.Stderr, "panic:", toString(p.v))
		case runtime.Error:
			fmt.Fprintln(os.Stderr, "panic:", p.Error())
		case string:
			fmt.Fprintln(os.Stderr, "panic:", p)
		default:
			fmt.Fprintf(os.Stderr, "panic: unexpected type: %T: %v\n", p, p)
		}

		// TODO(adonovan): dump panicking interpreter goroutine?
		// buf := make([]byte, 0x10000)
		// runtime.Stack(buf, false)
		// fmt.Fprintln(os.Stderr, string(buf))
		// (Or dump panicking target goroutine?)
	}()

	// Run!
	call(i, nil, token.NoPos, mainpkg.Func("init"), nil)
	if mainFn := mainpkg.Func("main"); mainFn != nil {
		call(i, nil, token.NoPos, mainFn, nil)
		exitCode = 0
	} else {
		fmt.Fprintln(os.Stderr, "No main function.")
		exitCode = 1
	}
	return
}
