package symx

// Native stubs for library functions the interpreter cannot or should not run
// from SSA (reflection, unsafe, assembly, process state), plus the sdk.Context
// accessors that connect the real keepers to the Go-written world model.

import (
	"bytes"
	"crypto/sha256"
	"encoding/hex"
	"fmt"
	"go/token"
	"go/types"
	"math/big"
	"regexp"
	"sort"
	"strconv"
	"strings"
	"time"

	"golang.org/x/tools/go/ssa"
)

func bytesOf(v value) []byte {
	s := v.([]value)
	b := make([]byte, len(s))
	for i := range s {
		c, ok := s[i].(uint8)
		if !ok {
			panic(pathAbort{"symbolic byte where a concrete one is required"})
		}
		b[i] = c
	}
	return b
}

func toVals(b []byte) []value {
	out := make([]value, len(b))
	for i := range b {
		out[i] = b[i]
	}
	return out
}

func strOf(v value) string {
	switch x := v.(type) {
	case string:
		return x
	case SymString:
		b := make([]byte, len(x.B))
		for i, c := range x.B {
			u, ok := c.(uint8)
			if !ok {
				panic(pathAbort{"symbolic string where a concrete one is required"})
			}
			b[i] = u
		}
		return string(b)
	}
	panic(engineBug{fmt.Sprintf("strOf(%T)", v)})
}

func strList(v value) []string {
	var out []string
	for _, p := range v.([]value) {
		out = append(out, strOf(p))
	}
	return out
}

func valList(ss []string) value {
	out := make([]value, len(ss))
	for i, s := range ss {
		out[i] = s
	}
	return out
}

// errVal builds a plain error value (errors.New) with the given text.
func errVal(fr *frame, msg string) value {
	if p := fr.i.prog.ImportedPackage("errors"); p != nil {
		if f := p.Func("New"); f != nil {
			return call(fr.i, fr, token.NoPos, f, []value{msg})
		}
	}
	return iface{t: fr.i.runtimeErrorString, v: msg}
}

func toGo(v value) interface{} {
	switch x := v.(type) {
	case iface:
		if x.t == nil {
			return nil
		}
		if s, ok := x.v.(string); ok {
			return s
		}
		return toGo(x.v)
	case bool, int, int8, int16, int32, int64, uint, uint8, uint16, uint32, uint64, string, float64, float32:
		return x
	case SymInt:
		return "<sym>"
	case SymBool:
		return "<symbool>"
	case SymString:
		return "<symstr>"
	case structure:
		if len(x) == 1 {
			if p, ok := x[0].(*value); ok && p != nil {
				if c, ok := (*p).(BigCell); ok {
					return numString(c.T, false)
				}
			}
		}
		return "<struct>"
	case []value:
		allBytes := len(x) > 0
		for _, b := range x {
			if _, ok := b.(uint8); !ok {
				allBytes = false
			}
		}
		if allBytes {
			return bytesOf(x)
		}
		return fmt.Sprintf("<slice len %d>", len(x))
	case *value:
		if x == nil {
			return "<nil>"
		}
		return "<ptr>"
	}
	return fmt.Sprintf("<%T>", v)
}

func sprintf(fr *frame, format string, args []value) string {
	var ga []interface{}
	for _, a := range args {
		// error / Stringer values: call their method
		if it, ok := a.(iface); ok && it.t != nil {
			if s, ok := callStringMethod(fr, it); ok {
				ga = append(ga, s)
				continue
			}
		}
		ga = append(ga, toGo(a))
	}
	return fmt.Sprintf(strings.ReplaceAll(format, "%w", "%v"), ga...)
}

func callStringMethod(fr *frame, it iface) (string, bool) {
	if _, ok := it.v.(string); ok && it.t == fr.i.runtimeErrorString {
		return it.v.(string), true
	}
	for _, name := range []string{"Error", "String"} {
		ms := fr.i.prog.MethodSets.MethodSet(it.t)
		for j := 0; j < ms.Len(); j++ {
			sel := ms.At(j)
			if sel.Obj().Name() != name {
				continue
			}
			sig := sel.Type().(*types.Signature)
			if sig.Params().Len() != 0 || sig.Results().Len() != 1 {
				continue
			}
			if b, ok := sig.Results().At(0).Type().(*types.Basic); !ok || b.Kind() != types.String {
				continue
			}
			fn := fr.i.prog.MethodValue(sel)
			if fn == nil {
				continue
			}
			if fr.i.eng.fmtDepth > 3 {
				return "<deep>", true
			}
			fr.i.eng.fmtDepth++
			r := call(fr.i, fr, token.NoPos, fn, []value{it.v})
			fr.i.eng.fmtDepth--
			switch s := r.(type) {
			case string:
				return s, true
			case SymString:
				return "<symstr>", true
			}
		}
	}
	return "", false
}

// errors.Is on interpreter values.
func errorsIs(fr *frame, err, target iface) bool {
	for depth := 0; depth < 32; depth++ {
		if err.t == nil {
			return target.t == nil
		}
		if target.t != nil && types.Identical(err.t, target.t) && types.Comparable(err.t) && equals(err.t, err.v, target.v) {
			return true
		}
		if m := fr.i.prog.LookupMethod(err.t, nil, "Is"); m != nil && m.Signature.Params().Len() == 1 {
			if r, ok := call(fr.i, fr, token.NoPos, m, []value{err.v, target}).(bool); ok && r {
				return true
			}
		}
		um := lookupExported(fr, err.t, "Unwrap")
		if um == nil {
			um = lookupExported(fr, err.t, "Cause")
		}
		if um == nil || um.Signature.Results().Len() != 1 {
			return false
		}
		next, ok := call(fr.i, fr, token.NoPos, um, []value{err.v}).(iface)
		if !ok {
			return false
		}
		err = next
	}
	return false
}

func lookupExported(fr *frame, t types.Type, name string) *ssa.Function {
	ms := fr.i.prog.MethodSets.MethodSet(t)
	for j := 0; j < ms.Len(); j++ {
		if ms.At(j).Obj().Name() == name {
			return fr.i.prog.MethodValue(ms.At(j))
		}
	}
	return nil
}

var reDenom = regexp.MustCompile(`^[a-zA-Z][a-zA-Z0-9/:._-]{2,127}$`)

func moduleAddr(name string, keys ...[]byte) []byte {
	mKey := []byte(name)
	if len(keys) == 0 {
		h := sha256.Sum256(mKey)
		return h[:20]
	}
	mKey = append(mKey, 0)
	hash := func(typ string, key []byte) []byte {
		hs := sha256.New()
		hs.Write([]byte(typ))
		th := hs.Sum(nil)
		hs.Reset()
		hs.Write(th)
		hs.Write(key)
		return hs.Sum(nil)
	}
	addr := hash("module", append(mKey, keys[0]...))
	for _, k := range keys[1:] {
		addr = hash(string(addr), k)
	}
	return addr
}

func (e *Engine) vrfFunc(name string) *ssa.Function {
	p := e.P.Prog.ImportedPackage(e.P.VrfPath)
	if p == nil {
		panic(engineBug{"intrinsic package " + e.P.VrfPath + " not loaded"})
	}
	f := p.Func(name)
	if f == nil {
		panic(engineBug{"missing model function " + e.P.VrfPath + "." + name})
	}
	return f
}

func init() {
	x := externals
	nop := func(fr *frame, args []value) value { return nil }

	// ---- fmt ----
	x["fmt.Sprintf"] = func(fr *frame, args []value) value { return sprintf(fr, strOf(args[0]), args[1].([]value)) }
	x["fmt.Errorf"] = func(fr *frame, args []value) value {
		return errVal(fr, sprintf(fr, strOf(args[0]), args[1].([]value)))
	}
	x["fmt.Sprint"] = func(fr *frame, args []value) value {
		var parts []string
		for _, a := range args[0].([]value) {
			parts = append(parts, sprintf(fr, "%v", []value{a}))
		}
		return strings.Join(parts, " ")
	}
	x["fmt.Sprintln"] = func(fr *frame, args []value) value {
		var parts []string
		for _, a := range args[0].([]value) {
			parts = append(parts, sprintf(fr, "%v", []value{a}))
		}
		return strings.Join(parts, " ") + "\n"
	}
	x["fmt.Println"] = func(fr *frame, args []value) value { return tuple{0, iface{}} }
	x["fmt.Printf"] = func(fr *frame, args []value) value { return tuple{0, iface{}} }
	x["fmt.Print"] = func(fr *frame, args []value) value { return tuple{0, iface{}} }
	x["fmt.Fprintf"] = func(fr *frame, args []value) value { return tuple{0, iface{}} }
	x["fmt.Fprintln"] = func(fr *frame, args []value) value { return tuple{0, iface{}} }

	// ---- errors ----
	x["errors.Is"] = func(fr *frame, args []value) value { return errorsIs(fr, args[0].(iface), args[1].(iface)) }
	x["github.com/pkg/errors.WithStack"] = func(fr *frame, args []value) value { return args[0] }
	x["cosmossdk.io/errors.IsOf"] = func(fr *frame, args []value) value {
		for _, t := range args[1].([]value) {
			if errorsIs(fr, args[0].(iface), t.(iface)) {
				return true
			}
		}
		return false
	}

	// ---- strings ----
	s1 := func(f func(a string) string) externalFn {
		return func(fr *frame, args []value) value { return f(strOf(args[0])) }
	}
	s2 := func(f func(a, b string) string) externalFn {
		return func(fr *frame, args []value) value { return f(strOf(args[0]), strOf(args[1])) }
	}
	b2 := func(f func(a, b string) bool) externalFn {
		return func(fr *frame, args []value) value { return f(strOf(args[0]), strOf(args[1])) }
	}
	x["strings.Compare"] = func(fr *frame, args []value) value { return strings.Compare(strOf(args[0]), strOf(args[1])) }
	x["strings.HasPrefix"] = func(fr *frame, args []value) value {
		a, b := strBytes(args[0]), strBytes(args[1])
		if len(b) > len(a) {
			return false
		}
		return symBytesEq(a[:len(b)], b)
	}
	x["strings.HasSuffix"] = func(fr *frame, args []value) value {
		a, b := strBytes(args[0]), strBytes(args[1])
		if len(b) > len(a) {
			return false
		}
		return symBytesEq(a[len(a)-len(b):], b)
	}
	x["strings.Contains"] = b2(strings.Contains)
	x["strings.ContainsAny"] = b2(strings.ContainsAny)
	x["strings.EqualFold"] = b2(strings.EqualFold)
	x["strings.TrimPrefix"] = s2(strings.TrimPrefix)
	x["strings.TrimSuffix"] = s2(strings.TrimSuffix)
	x["strings.Trim"] = s2(strings.Trim)
	x["strings.TrimLeft"] = s2(strings.TrimLeft)
	x["strings.TrimRight"] = s2(strings.TrimRight)
	x["strings.TrimSpace"] = s1(strings.TrimSpace)
	x["strings.ToUpper"] = s1(strings.ToUpper)
	x["strings.ToLower"] = s1(strings.ToLower)
	x["strings.Title"] = s1(strings.Title)
	x["strings.Index"] = func(fr *frame, args []value) value { return strings.Index(strOf(args[0]), strOf(args[1])) }
	x["strings.LastIndex"] = func(fr *frame, args []value) value { return strings.LastIndex(strOf(args[0]), strOf(args[1])) }
	x["strings.Count"] = func(fr *frame, args []value) value { return strings.Count(strOf(args[0]), strOf(args[1])) }
	x["strings.Repeat"] = func(fr *frame, args []value) value { return strings.Repeat(strOf(args[0]), args[1].(int)) }
	x["strings.Split"] = func(fr *frame, args []value) value { return valList(strings.Split(strOf(args[0]), strOf(args[1]))) }
	x["strings.SplitN"] = func(fr *frame, args []value) value {
		return valList(strings.SplitN(strOf(args[0]), strOf(args[1]), args[2].(int)))
	}
	x["strings.Fields"] = func(fr *frame, args []value) value { return valList(strings.Fields(strOf(args[0]))) }
	x["strings.Join"] = func(fr *frame, args []value) value { return strings.Join(strList(args[0]), strOf(args[1])) }
	x["strings.ReplaceAll"] = func(fr *frame, args []value) value {
		return strings.ReplaceAll(strOf(args[0]), strOf(args[1]), strOf(args[2]))
	}
	x["strings.Replace"] = func(fr *frame, args []value) value {
		return strings.Replace(strOf(args[0]), strOf(args[1]), strOf(args[2]), args[3].(int))
	}
	// strings.Builder on its real struct layout {addr *Builder; buf []byte}
	bld := func(args []value) structure { return (*args[0].(*value)).(structure) }
	x["(*strings.Builder).WriteString"] = func(fr *frame, args []value) value {
		b := bld(args)
		buf, _ := b[1].([]value)
		b[1] = append(buf, strBytes(args[1])...)
		return tuple{len(strBytes(args[1])), iface{}}
	}
	x["(*strings.Builder).WriteByte"] = func(fr *frame, args []value) value {
		b := bld(args)
		buf, _ := b[1].([]value)
		b[1] = append(buf, args[1])
		return iface{}
	}
	x["(*strings.Builder).WriteRune"] = func(fr *frame, args []value) value {
		b := bld(args)
		buf, _ := b[1].([]value)
		s := string(args[1].(rune))
		b[1] = append(buf, strBytes(s)...)
		return tuple{len(s), iface{}}
	}
	x["(*strings.Builder).Write"] = func(fr *frame, args []value) value {
		b := bld(args)
		buf, _ := b[1].([]value)
		b[1] = append(buf, args[1].([]value)...)
		return tuple{len(args[1].([]value)), iface{}}
	}
	x["(*strings.Builder).String"] = func(fr *frame, args []value) value {
		buf, _ := bld(args)[1].([]value)
		for _, c := range buf {
			if _, ok := c.(uint8); !ok {
				return SymString{append([]value{}, buf...)}
			}
		}
		return string(bytesOf(buf))
	}
	x["(*strings.Builder).Len"] = func(fr *frame, args []value) value {
		buf, _ := bld(args)[1].([]value)
		return len(buf)
	}
	x["(*strings.Builder).Grow"] = nop
	x["(*strings.Builder).Reset"] = func(fr *frame, args []value) value { bld(args)[1] = []value(nil); return nil }

	// ---- strconv ----
	x["strconv.FormatInt"] = func(fr *frame, args []value) value {
		if s, ok := args[0].(SymInt); ok {
			return "<sym " + s.T.String() + ">"
		}
		return strconv.FormatInt(args[0].(int64), args[1].(int))
	}
	x["strconv.FormatUint"] = func(fr *frame, args []value) value {
		if s, ok := args[0].(SymInt); ok {
			return "<sym " + s.T.String() + ">"
		}
		return strconv.FormatUint(args[0].(uint64), args[1].(int))
	}
	x["strconv.Itoa"] = func(fr *frame, args []value) value {
		if s, ok := args[0].(SymInt); ok {
			return "<sym " + s.T.String() + ">"
		}
		return strconv.Itoa(args[0].(int))
	}
	x["strconv.ParseUint"] = func(fr *frame, args []value) value {
		v, err := strconv.ParseUint(strOf(args[0]), args[1].(int), args[2].(int))
		if err != nil {
			return tuple{uint64(0), errVal(fr, err.Error())}
		}
		return tuple{v, iface{}}
	}
	x["strconv.ParseInt"] = func(fr *frame, args []value) value {
		v, err := strconv.ParseInt(strOf(args[0]), args[1].(int), args[2].(int))
		if err != nil {
			return tuple{int64(0), errVal(fr, err.Error())}
		}
		return tuple{v, iface{}}
	}
	x["strconv.ParseBool"] = func(fr *frame, args []value) value {
		v, err := strconv.ParseBool(strOf(args[0]))
		if err != nil {
			return tuple{false, errVal(fr, err.Error())}
		}
		return tuple{v, iface{}}
	}
	x["strconv.Quote"] = func(fr *frame, args []value) value { return strconv.Quote(strOf(args[0])) }

	// ---- bytes ----
	x["bytes.Equal"] = func(fr *frame, args []value) value {
		a, b := args[0].([]value), args[1].([]value)
		if len(a) != len(b) {
			return false
		}
		return symBytesEq(a, b)
	}
	x["bytes.HasPrefix"] = func(fr *frame, args []value) value {
		a, b := args[0].([]value), args[1].([]value)
		if len(b) > len(a) {
			return false
		}
		return symBytesEq(a[:len(b)], b)
	}
	x["bytes.Compare"] = func(fr *frame, args []value) value {
		a, b := byteTerms(args[0]), byteTerms(args[1])
		if len(a) == len(b) {
			a, b = groupBE(a, b)
		} else if len(a) > len(b) {
			pa, pb := groupBE(a[:len(b)], b)
			if len(pa) < len(b) { // groups found in the common prefix: keep lengths ordered as before
				a, b = append(pa, a[len(b):]...), pb
			}
		} else {
			pb, pa := groupBE(b[:len(a)], a)
			if len(pa) < len(a) {
				a, b = pa, append(pb, b[len(a):]...)
			}
		}
		n := len(a)
		if len(b) < n {
			n = len(b)
		}
		var tail *Term
		switch {
		case len(a) < len(b):
			tail = KI(-1)
		case len(a) > len(b):
			tail = KI(1)
		default:
			tail = KI(0)
		}
		for i := n - 1; i >= 0; i-- {
			tail = Ite(Cmp("<", a[i], b[i]), KI(-1), Ite(Cmp(">", a[i], b[i]), KI(1), tail))
		}
		return concretize(tail, types.Int)
	}
	x["(encoding/binary.bigEndian).PutUint64"] = func(fr *frame, args []value) value {
		b := args[1].([]value)
		if len(b) < 8 {
			panic(targetPanic{"runtime error: index out of range"})
		}
		switch v := args[2].(type) {
		case uint64:
			for i := 0; i < 8; i++ {
				b[i] = byte(v >> uint(8*(7-i)))
			}
		case SymInt:
			for i := 0; i < 8; i++ {
				b[i] = SymInt{&Term{Op: "be8", Args: []*Term{v.T}, Val: big.NewInt(int64(i))}, types.Uint8}
			}
		}
		return nil
	}
	x["(encoding/binary.bigEndian).Uint64"] = func(fr *frame, args []value) value {
		b := byteTerms(args[1])
		if len(b) < 8 {
			panic(targetPanic{"runtime error: index out of range"})
		}
		if g, ok := be8Group(b[:8]); ok {
			return concretize(g, types.Uint64)
		}
		sum := KI(0)
		for i := 0; i < 8; i++ {
			p := new(big.Int).Lsh(big.NewInt(1), uint(8*(7-i)))
			sum = Add(sum, Mul(b[i], K(p)))
		}
		return concretize(sum, types.Uint64)
	}
	x["crypto/sha256.Sum256"] = func(fr *frame, args []value) value {
		h := sha256.Sum256(bytesOf(args[0]))
		out := make(array, 32)
		for i := range out {
			out[i] = h[i]
		}
		return out
	}
	x["encoding/hex.EncodeToString"] = func(fr *frame, args []value) value { return hex.EncodeToString(bytesOf(args[0])) }
	x["encoding/json.Marshal"] = func(fr *frame, args []value) value { return tuple{[]value{}, iface{}} }

	// ---- sort (reflection-based entry points) ----
	sortSlice := func(fr *frame, args []value) value {
		s := args[0].(iface).v.([]value)
		less := args[1]
		// insertion sort (stable), comparisons through the target's closure
		for i := 1; i < len(s); i++ {
			for j := i; j > 0; j-- {
				r := call(fr.i, fr, token.NoPos, less, []value{j, j - 1})
				var lt bool
				switch c := r.(type) {
				case bool:
					lt = c
				case SymBool:
					lt = fr.i.eng.decide(c.T)
				}
				if !lt {
					break
				}
				s[j], s[j-1] = s[j-1], s[j]
			}
		}
		return nil
	}
	x["sort.Slice"] = sortSlice
	x["sort.SliceStable"] = sortSlice
	x["sort.Strings"] = func(fr *frame, args []value) value {
		s := args[0].([]value)
		sort.Slice(s, func(i, j int) bool { return strOf(s[i]) < strOf(s[j]) })
		return nil
	}

	// ---- sync ----
	for _, n := range []string{"(*sync.Mutex).Lock", "(*sync.Mutex).Unlock", "(*sync.RWMutex).Lock", "(*sync.RWMutex).Unlock",
		"(*sync.RWMutex).RLock", "(*sync.RWMutex).RUnlock", "(*sync.WaitGroup).Add", "(*sync.WaitGroup).Done", "(*sync.WaitGroup).Wait"} {
		x[n] = nop
	}
	x["(*sync.Mutex).TryLock"] = func(fr *frame, args []value) value { return true }
	x["(*sync.Once).Do"] = func(fr *frame, args []value) value {
		st := (*args[0].(*value)).(structure)
		d := st[0].(structure)
		if d[len(d)-1].(uint32) == 0 {
			d[len(d)-1] = uint32(1)
			call(fr.i, fr, token.NoPos, args[1], nil)
		}
		return nil
	}

	// ---- cosmos-sdk value helpers ----
	T := "github.com/cosmos/cosmos-sdk/types."
	x[T+"ValidateDenom"] = func(fr *frame, args []value) value {
		if s, ok := args[0].(string); ok && !reDenom.MatchString(s) {
			return errVal(fr, "invalid denom: "+s)
		}
		return iface{}
	}
	for _, n := range []string{"(" + T + "Coins).String", "(" + T + "Coin).String", "(" + T + "DecCoins).String", "(" + T + "DecCoin).String"} {
		x[n] = func(fr *frame, args []value) value { return "<coins>" }
	}
	addrString := func(fr *frame, args []value) value {
		if len(args[0].([]value)) == 0 {
			return ""
		}
		return "addr:" + hex.EncodeToString(bytesOf(args[0]))
	}
	x["("+T+"AccAddress).String"] = addrString
	x["("+T+"ValAddress).String"] = addrString
	fromBech := func(s string) ([]byte, bool) {
		if !strings.HasPrefix(s, "addr:") {
			return nil, false
		}
		b, err := hex.DecodeString(strings.TrimPrefix(s, "addr:"))
		if err != nil || len(b) == 0 {
			return nil, false
		}
		return b, true
	}
	x[T+"MustAccAddressFromBech32"] = func(fr *frame, args []value) value {
		b, ok := fromBech(strOf(args[0]))
		if !ok {
			panic(targetPanic{"decoding bech32 failed: " + strOf(args[0])})
		}
		return toVals(b)
	}
	x[T+"AccAddressFromBech32"] = func(fr *frame, args []value) value {
		b, ok := fromBech(strOf(args[0]))
		if !ok {
			return tuple{[]value(nil), errVal(fr, "decoding bech32 failed: "+strOf(args[0]))}
		}
		return tuple{toVals(b), iface{}}
	}
	x[T+"ValAddressFromBech32"] = x[T+"AccAddressFromBech32"]
	x["("+T+"AccAddress).Equals"] = func(fr *frame, args []value) value {
		o := args[1].(iface)
		if o.t == nil {
			return len(args[0].([]value)) == 0
		}
		ob, ok := o.v.([]value)
		if !ok {
			return false
		}
		return bytes.Equal(bytesOf(args[0]), bytesOf(ob))
	}
	x["("+T+"AccAddress).Empty"] = func(fr *frame, args []value) value { return len(args[0].([]value)) == 0 }
	x["github.com/cosmos/cosmos-sdk/x/auth/types.NewModuleAddress"] = func(fr *frame, args []value) value {
		return toVals(moduleAddr(strOf(args[0])))
	}
	x["github.com/cosmos/cosmos-sdk/types/address.Module"] = func(fr *frame, args []value) value {
		var keys [][]byte
		for _, k := range args[1].([]value) {
			keys = append(keys, bytesOf(k))
		}
		return toVals(moduleAddr(strOf(args[0]), keys...))
	}
	for _, n := range []string{"EmitEvent", "EmitEvents"} {
		x["(*"+T+"EventManager)."+n] = nop
	}
	x["(*"+T+"EventManager).EmitTypedEvent"] = func(fr *frame, args []value) value { return iface{} }
	x["(*"+T+"EventManager).EmitTypedEvents"] = func(fr *frame, args []value) value { return iface{} }
	x[T+"NewEvent"] = func(fr *frame, args []value) value { return zero(fr.fn.Signature.Results().At(0).Type()) }
	x[T+"NewAttribute"] = func(fr *frame, args []value) value { return zero(fr.fn.Signature.Results().At(0).Type()) }

	// ---- sdk.Context accessors -> world model written in Go (package zzvrf) ----
	C := "(" + T + "Context)."
	kv := func(fr *frame, args []value) value {
		key := args[1].(iface)
		m := fr.i.prog.LookupMethod(key.t, nil, "Name")
		name := call(fr.i, fr, token.NoPos, m, []value{key.v})
		return call(fr.i, fr, token.NoPos, fr.i.eng.vrfFunc("KVStoreOf"), []value{args[0], name})
	}
	x[C+"KVStore"] = kv
	x[C+"TransientStore"] = kv
	x[C+"CacheContext"] = func(fr *frame, args []value) value {
		return call(fr.i, fr, token.NoPos, fr.i.eng.vrfFunc("CacheContextOf"), []value{args[0]})
	}
	x[C+"BlockHeight"] = func(fr *frame, args []value) value {
		return call(fr.i, fr, token.NoPos, fr.i.eng.vrfFunc("HeightOf"), []value{args[0]})
	}
	x[C+"BlockTime"] = func(fr *frame, args []value) value {
		sec := call(fr.i, fr, token.NoPos, fr.i.eng.vrfFunc("UnixOf"), []value{args[0]})
		return mkTime(fr, sec)
	}
	x[C+"EventManager"] = func(fr *frame, args []value) value {
		return call(fr.i, fr, token.NoPos, fr.i.eng.vrfFunc("EventManagerOf"), []value{args[0]})
	}
	x[C+"GasMeter"] = func(fr *frame, args []value) value {
		f := fr.i.prog.ImportedPackage("cosmossdk.io/store/types").Func("NewInfiniteGasMeter")
		return call(fr.i, fr, token.NoPos, f, nil)
	}
	x[C+"Logger"] = func(fr *frame, args []value) value {
		return call(fr.i, fr, token.NoPos, fr.i.eng.vrfFunc("LoggerOf"), []value{args[0]})
	}
	x[C+"WithEventManager"] = func(fr *frame, args []value) value { return args[0] }
	x[C+"WithGasMeter"] = func(fr *frame, args []value) value { return args[0] }
	x[C+"WithBlockHeight"] = func(fr *frame, args []value) value {
		return call(fr.i, fr, token.NoPos, fr.i.eng.vrfFunc("WithHeightOf"), []value{args[0], args[1]})
	}
	x[C+"ChainID"] = func(fr *frame, args []value) value { return "elys-verif" }
	x[C+"IsCheckTx"] = func(fr *frame, args []value) value { return false }
	x[C+"IsReCheckTx"] = func(fr *frame, args []value) value { return false }
	x[C+"TxBytes"] = func(fr *frame, args []value) value { return []value(nil) }
	x[C+"Value"] = func(fr *frame, args []value) value { return iface{} }
	x[C+"Done"] = func(fr *frame, args []value) value { return zero(fr.fn.Signature.Results().At(0).Type()) }
	x[C+"Err"] = func(fr *frame, args []value) value { return iface{} }
	x[T+"UnwrapSDKContext"] = func(fr *frame, args []value) value {
		it := args[0].(iface)
		if _, ok := it.v.(structure); ok {
			return it.v
		}
		panic(pathAbort{"UnwrapSDKContext of a non-sdk context"})
	}
	x[T+"WrapSDKContext"] = func(fr *frame, args []value) value {
		return iface{t: fr.fn.Signature.Params().At(0).Type(), v: args[0]}
	}

	// ---- time: a Time value is {wall:0, ext:unix seconds, loc:nil} ----
	x["time.Now"] = func(fr *frame, args []value) value {
		e := fr.i.eng
		return structure{uint64(0), SymInt{e.freshVar("wallclock"), types.Int64}, localZone}
	}
	x["time.Since"] = func(fr *frame, args []value) value {
		return SymInt{fr.i.eng.freshVar("elapsed"), types.Int64}
	}
	// time.Unix and time.Now return times in the host's local zone (time.Local): their calendar fields and formatted
	// text depend on the machine the node runs on until .UTC() / .In(loc) is applied (C19, see hostZone)
	x["time.Unix"] = func(fr *frame, args []value) value { return structure{uint64(0), args[0], localZone} }
	x["(time.Time).Unix"] = func(fr *frame, args []value) value { return timeSec(args[0]) }
	x["(time.Time).UTC"] = func(fr *frame, args []value) value { return mkTime(fr, timeSec(args[0])) }
	x["(time.Time).In"] = func(fr *frame, args []value) value { return mkTime(fr, timeSec(args[0])) }
	x["(time.Time).Local"] = func(fr *frame, args []value) value { return structure{uint64(0), timeSec(args[0]), localZone} }
	x["(time.Time).UnixNano"] = func(fr *frame, args []value) value {
		return binop(fr.i.eng, token.MUL, types.Typ[types.Int64], timeSec(args[0]), int64(1000000000))
	}
	x["(time.Time).UnixMilli"] = func(fr *frame, args []value) value {
		return binop(fr.i.eng, token.MUL, types.Typ[types.Int64], timeSec(args[0]), int64(1000))
	}
	tcmp := func(op token.Token) externalFn {
		return func(fr *frame, args []value) value {
			return binop(fr.i.eng, op, types.Typ[types.Int64], timeSec(args[0]), timeSec(args[1]))
		}
	}
	x["(time.Time).After"] = tcmp(token.GTR)
	x["(time.Time).Before"] = tcmp(token.LSS)
	x["(time.Time).Equal"] = tcmp(token.EQL)
	x["(time.Time).IsZero"] = func(fr *frame, args []value) value {
		return binop(fr.i.eng, token.EQL, types.Typ[types.Int64], timeSec(args[0]), int64(0))
	}
	x["(time.Time).Add"] = func(fr *frame, args []value) value {
		d, ok := args[1].(int64)
		if !ok || d%1000000000 != 0 {
			panic(pathAbort{"time.Add with a symbolic or sub-second duration"})
		}
		return mkTimeLike(args[0], binop(fr.i.eng, token.ADD, types.Typ[types.Int64], timeSec(args[0]), d/1000000000))
	}
	x["(time.Time).Sub"] = func(fr *frame, args []value) value {
		d := binop(fr.i.eng, token.SUB, types.Typ[types.Int64], timeSec(args[0]), timeSec(args[1]))
		return binop(fr.i.eng, token.MUL, types.Typ[types.Int64], d, int64(1000000000))
	}
	// Format: real formatting for concrete times; for symbolic times an opaque token that is a function of
	// the time term (equal terms give equal strings; calendar arithmetic on symbolic times is not modelled)
	x["(time.Time).Format"] = func(fr *frame, args []value) value {
		hostZone(fr, args[0], "Format")
		switch s := timeSec(args[0]).(type) {
		case int64:
			return time.Unix(s, 0).UTC().Format(strOf(args[1]))
		case SymInt:
			return "t:" + s.T.String()
		}
		return "t:?"
	}
	x["(time.Time).AddDate"] = func(fr *frame, args []value) value {
		y, m, d := args[1].(int), args[2].(int), args[3].(int)
		if s, ok := timeSec(args[0]).(int64); ok {
			return mkTimeLike(args[0], time.Unix(s, 0).UTC().AddDate(y, m, d).Unix())
		}
		if y != 0 || m != 0 {
			panic(pathAbort{"time.AddDate with years/months on a symbolic time"})
		}
		return mkTimeLike(args[0], binop(fr.i.eng, token.ADD, types.Typ[types.Int64], timeSec(args[0]), int64(d)*86400))
	}
	// calendar functions: concrete times only (real Go semantics, UTC)
	conc := func(fr *frame, v value, what string) time.Time {
		hostZone(fr, v, what)
		s, ok := timeSec(v).(int64)
		if !ok {
			panic(pathAbort{"calendar function time." + what + " on a symbolic time (called from " + chainOf(fr.caller, 2) + ")"})
		}
		return time.Unix(s, 0).UTC()
	}
	x["(time.Time).Date"] = func(fr *frame, args []value) value {
		y, m, d := conc(fr, args[0], "Date").Date()
		return tuple{y, int(m), d}
	}
	x["(time.Time).Year"] = func(fr *frame, args []value) value { return conc(fr, args[0], "Year").Year() }
	x["(time.Time).Month"] = func(fr *frame, args []value) value { return int(conc(fr, args[0], "Month").Month()) }
	x["(time.Time).Day"] = func(fr *frame, args []value) value { return conc(fr, args[0], "Day").Day() }
	x["(time.Time).Hour"] = func(fr *frame, args []value) value { return conc(fr, args[0], "Hour").Hour() }
	x["(time.Time).YearDay"] = func(fr *frame, args []value) value { return conc(fr, args[0], "YearDay").YearDay() }
	x["(time.Time).Weekday"] = func(fr *frame, args []value) value { return int(conc(fr, args[0], "Weekday").Weekday()) }
	x["(time.Time).Location"] = func(fr *frame, args []value) value { return (*value)(nil) }
	x["time.Date"] = func(fr *frame, args []value) value {
		t := time.Date(args[0].(int), time.Month(args[1].(int)), args[2].(int), args[3].(int), args[4].(int), args[5].(int), args[6].(int), time.UTC)
		return mkTime(fr, t.Unix())
	}
	x["(time.Time).String"] = func(fr *frame, args []value) value { return "<time>" }
	x["(time.Duration).Seconds"] = func(fr *frame, args []value) value {
		d, ok := args[0].(int64)
		if !ok {
			panic(pathAbort{"symbolic Duration.Seconds (float)"})
		}
		return float64(d) / 1e9
	}
	x["(time.Duration).String"] = func(fr *frame, args []value) value { return "<duration>" }
	x["(time.Duration).Milliseconds"] = func(fr *frame, args []value) value {
		return binop(fr.i.eng, token.QUO, types.Typ[types.Int64], args[0], int64(1000000))
	}
}

func mkTime(fr *frame, sec value) value {
	return structure{uint64(0), sec, (*value)(nil)}
}

// localZone marks a Time whose location is the host's time.Local
var localZone = new(value)

// mkTimeLike: a time derived from t (same location)
func mkTimeLike(t value, sec value) value {
	return structure{uint64(0), sec, t.(structure)[2]}
}

// hostZone records that a calendar field or formatted text of a time in the host's local zone was computed
func hostZone(fr *frame, t value, what string) {
	if st, ok := t.(structure); ok && len(st) == 3 {
		if p, ok := st[2].(*value); ok && p == localZone && fr.i.eng != nil {
			fr.i.eng.noteHostDep("time." + what + " of a time in the host's local zone (time.Unix / time.Now without .UTC()) in " + chainOf(fr.caller, 2))
		}
	}
}

func timeSec(v value) value {
	return v.(structure)[1]
}

func byteTerms(v value) []*Term {
	s := v.([]value)
	out := make([]*Term, len(s))
	for i := range s {
		out[i] = termOfInt(s[i])
	}
	return out
}

// be8Group recognises the 8-byte big-endian encoding of one term (or of a constant).
func be8Group(b []*Term) (*Term, bool) {
	if len(b) != 8 {
		return nil, false
	}
	if b[0].Op == "be8" {
		x := b[0].Args[0]
		for i := 0; i < 8; i++ {
			if b[i].Op != "be8" || b[i].Args[0] != x || b[i].Val.Int64() != int64(i) {
				return nil, false
			}
		}
		return x, true
	}
	v := new(big.Int)
	for i := 0; i < 8; i++ {
		if !b[i].IsK() {
			return nil, false
		}
		v.Lsh(v, 8)
		v.Or(v, b[i].Val)
	}
	return K(v), true
}

// groupBE rewrites two equal-length byte-term sequences so that aligned 8-byte
// big-endian groups become single unsigned 64-bit terms (order-preserving).
func groupBE(a, b []*Term) ([]*Term, []*Term) {
	var oa, ob []*Term
	for i := 0; i < len(a); {
		if i+8 <= len(a) && i+8 <= len(b) && (a[i].Op == "be8" || b[i].Op == "be8") {
			ga, oka := be8Group(a[i : i+8])
			gb, okb := be8Group(b[i : i+8])
			if oka && okb {
				oa, ob = append(oa, ga), append(ob, gb)
				i += 8
				continue
			}
		}
		if i < len(b) {
			oa, ob = append(oa, a[i]), append(ob, b[i])
		} else {
			oa = append(oa, a[i])
		}
		i++
	}
	return oa, ob
}

func symBytesEq(a, b []value) value {
	ta, tb := byteTerms(a), byteTerms(b)
	ta, tb = groupBE(ta, tb)
	acc := TBool(true)
	for i := range ta {
		c := Cmp("=", ta[i], tb[i])
		if c.Op == "false" {
			return false
		}
		acc = And(acc, c)
	}
	return sb(acc)
}

func symBytesEqOld(a, b []value) value {
	acc := TBool(true)
	for i := range a {
		c := Cmp("=", termOfInt(a[i]), termOfInt(b[i]))
		if c.Op == "false" {
			return false
		}
		acc = And(acc, c)
	}
	return sb(acc)
}
