// Copyright 2013 The Go Authors. All rights reserved.
// Use of this source code is governed by a BSD-style
// license that can be found in the LICENSE file.

package symx

// Custom hashtable atop map.
// For use when the key's equivalence relation is not consistent with ==.

// The Go specification doesn't address the atomicity of map operations.
// The FAQ states that an implementation is permitted to crash on
// concurrent map access.

import (
	"go/types"
)

type hashable interface {
	hash(t types.Type) int
	eq(t types.Type, x interface{}) bool
}

type entry struct {
	key   hashable
	value value
	next  *entry
}

// A hashtable atop the built-in map.  Since each bucket contains
// exactly one hash value, there's no need to perform hash-equality
// tests when walking the linked list.  Rehashing is done by the
// underlying map.
type hashmap struct {
	keyType types.Type
	table   map[int]*entry
	length  int // number of entries in map
}

// makeMap returns an empty initialized map of key type kt,
// preallocating space for reserve elements.
func makeMap(kt types.Type, reserve int64) value {
	if usesBuiltinMap(kt) {
		return make(map[value]value, reserve)
	}
	return &hashmap{keyType: kt, table: make(map[int]*entry, reserve)}
}

// delete removes the association for key k, if any.
func (m *hashmap) delete(k hashable) {
	if m != nil {
		hash := k.hash(m.keyType)
		head := m.table[hash]
		if head != nil {
			if k.eq(m.keyType, head.key) {
				m.table[hash] = head.next
				m.length--
				return
			}
			prev := head
			for e := head.next; e != nil; e = e.next {
				if k.eq(m.keyType, e.key) {
					prev.next = e.next
					m.length--
					return
				}
				prev = e
			}
		}
	}
}

// lookup returns the value associated with key k, if present, or
// value(nil) otherwise.
func (m *hashmap) lookup(k hashable) value {
	if m != nil {
		hash := k.hash(m.keyType)
		for e := m.table[hash]; e != nil; e = e.next {
			if k.eq(m.keyType, e.key) {
				return e.value
			}
		}
	}
	return nil
}

// insert updates the map to associate key k with value v.  If there
// was already an association for an eq() (though not necessarily ==)
// k, the previous key remains in the map and its associated value is
// updated.
func (m *hashmap) insert(k hashable, v value) {
	hash := k.hash(m.keyType)
	head := m.table[hash]
	for e := head; e != nil; e = e.next {
		if k.eq(m.keyType, e.key) {
			e.value = v
			return
		}
	}
	m.table[hash] = &entry{
		key:   k,
		value: v,
		next:  head,
	}
	m.length++
}

// len returns the number of key/value associations in the map.
func (m *hashmap) len() int {
	if m != nil {
		return m.length
	}
	return 0
}

// entries returns a rangeable map of entries.
func (m *hashmap) entries() map[int]*entry {
	if m != nil {
		return m.table
	}
	return nil
}
