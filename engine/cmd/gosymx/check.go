package main

import (
	"bufio"
	"crypto/sha256"
	"encoding/hex"
	"fmt"
	"go/ast"
	"go/token"
	"go/types"
	"math/big"
	"os"
	"os/exec"
	"path/filepath"
	"runtime"
	"sort"
	"strconv"
	"strings"
	"time"

	"golang.org/x/tools/go/packages"
	"golang.org/x/tools/go/ssa"
	"golang.org/x/tools/go/ssa/ssautil"

	"gosymx/symx"
)

const elys = "github.com/elys-network/elys"

type Config struct {
	Repo, Verif string
	Prop, Tier  string
	Only        string
	Workers     int
	Solver      string
	NoReplay    bool
	Verbose     bool
	Seed        int
	genDir      string
	generated   []c17Handler
	scenarios   []metaScenario
}

func defaultConfig() *Config {
	c := &Config{Repo: "/repo", Verif: "/verif", Workers: runtime.NumCPU(), Solver: "z3-new"}
	if v := os.Getenv("VERIF_REPO"); v != "" {
		c.Repo = v
	}
	if v := os.Getenv("VERIF_DIR"); v != "" {
		c.Verif = v
	}
	if v := os.Getenv("VERIF_SEED"); v != "" {
		c.Seed, _ = strconv.Atoi(v)
	}
	if v := os.Getenv("VERIF_SOLVER"); v != "" {
		c.Solver = v
	}
	if c.Workers > 16 {
		c.Workers = 16
	}
	return c
}

func (c *Config) harnessDir() string {
	return filepath.Join(c.Verif, "harness", "h_"+strings.ToLower(c.Prop))
}
func (c *Config) harnessPkg() string { return elys + "/zzvrf/h_" + strings.ToLower(c.Prop) }

// overlay maps virtual files under <repo>/zzvrf to the real files under /verif.
func (c *Config) overlayFiles() (map[string]string, error) {
	ov := map[string]string{}
	add := func(srcDir, dstDir string) error {
		ents, err := os.ReadDir(srcDir)
		if err != nil {
			return err
		}
		for _, e := range ents {
			if strings.HasSuffix(e.Name(), ".go") {
				ov[filepath.Join(dstDir, e.Name())] = filepath.Join(srcDir, e.Name())
			}
		}
		return nil
	}
	if err := add(filepath.Join(c.Verif, "zzvrf"), filepath.Join(c.Repo, "zzvrf")); err != nil {
		return nil, err
	}
	if err := add(filepath.Join(c.Verif, "zzvrf", "wire"), filepath.Join(c.Repo, "zzvrf", "wire")); err != nil {
		return nil, err
	}
	if err := add(c.harnessDir(), filepath.Join(c.Repo, "zzvrf", "h_"+strings.ToLower(c.Prop))); err != nil {
		return nil, err
	}
	// every other harness package is available too (meta-checks reuse their scenarios)
	if ents, err := os.ReadDir(filepath.Join(c.Verif, "harness")); err == nil {
		for _, e := range ents {
			if e.IsDir() && strings.HasPrefix(e.Name(), "h_") && e.Name() != "h_"+strings.ToLower(c.Prop) {
				add(filepath.Join(c.Verif, "harness", e.Name()), filepath.Join(c.Repo, "zzvrf", e.Name()))
			}
		}
	}
	if c.Prop == "C15" || c.Prop == "C19" {
		if c.genDir == "" {
			d, err := os.MkdirTemp("", "gosymx-gen-")
			if err != nil {
				return nil, err
			}
			c.genDir = d
			scs, err := generateMeta(c.Prop, c.Verif, filepath.Join(d, "zz_gen.go"))
			if err != nil {
				return nil, err
			}
			c.scenarios = scs
		}
		ov[filepath.Join(c.Repo, "zzvrf", "h_"+strings.ToLower(c.Prop), "zz_gen.go")] = filepath.Join(c.genDir, "zz_gen.go")
	}
	if c.Prop == "C17" {
		// governance-gated handlers are enumerated from /repo's current source and their harnesses generated
		if c.genDir == "" {
			d, err := os.MkdirTemp("", "gosymx-gen-")
			if err != nil {
				return nil, err
			}
			c.genDir = d
			hs, err := generateC17(c.Repo, filepath.Join(d, "zz_gen.go"))
			if err != nil {
				return nil, err
			}
			c.generated = hs
		}
		ov[filepath.Join(c.Repo, "zzvrf", "h_c17", "zz_gen.go")] = filepath.Join(c.genDir, "zz_gen.go")
	}
	return ov, nil
}

type harnessDecl struct {
	Name         string
	Mode         string
	Tier         string
	Summaries    map[string]string
	Covers       []string
	AllowAbort   []string
	AssertMs     int
	ExactMs      int
	BranchMs     int
	FullFeasMs   int
	Unwind       int
	MaxSteps     int64
	MaxPaths     int
	Witnesses    int
	witnessesSet bool
	OptSummary   map[string]bool
	RerunReal    map[string]bool
	Product      bool
	AssertPrefix string
	Doc          string
	Bounds       []string
	Assumes      []string
}

func parseDirectives(fd *ast.FuncDecl) *harnessDecl {
	h := &harnessDecl{Name: fd.Name.Name, Mode: "rel", Tier: "quick", Summaries: map[string]string{}, OptSummary: map[string]bool{}, RerunReal: map[string]bool{}, Witnesses: 2}
	if fd.Doc == nil {
		return h
	}
	for _, cm := range fd.Doc.List {
		t := strings.TrimSpace(strings.TrimPrefix(cm.Text, "//"))
		if !strings.HasPrefix(t, "vrf:") {
			h.Doc += t + " "
			continue
		}
		t = strings.TrimPrefix(t, "vrf:")
		f := strings.Fields(t)
		if len(f) == 0 {
			continue
		}
		rest := strings.TrimSpace(strings.TrimPrefix(t, f[0]))
		atoi := func() int { n, _ := strconv.Atoi(rest); return n }
		switch f[0] {
		case "mode":
			h.Mode = rest
		case "tier":
			h.Tier = rest
		case "summary", "summary-opt", "summary-rr":
			p := strings.SplitN(rest, "=>", 2)
			if len(p) == 2 {
				h.Summaries[strings.TrimSpace(p[0])] = strings.TrimSpace(p[1])
				if f[0] != "summary" {
					// concrete re-executions of solver models run the real callee instead of the contract
					h.RerunReal[strings.TrimSpace(p[0])] = true
				}
				if f[0] == "summary-opt" {
					// a contract for a callee the unchanged tree does not reach from this harness: absent target is not an error
					h.OptSummary[strings.TrimSpace(p[0])] = true
				}
			}
		case "cover":
			h.Covers = append(h.Covers, f[1:]...)
		case "allow-abort":
			h.AllowAbort = append(h.AllowAbort, rest)
		case "assert-ms":
			h.AssertMs = atoi()
		case "exact-ms":
			h.ExactMs = atoi()
		case "branch-ms":
			h.BranchMs = atoi()
		case "full-feas-ms":
			h.FullFeasMs = atoi()
		case "unwind":
			h.Unwind = atoi()
		case "max-steps":
			h.MaxSteps = int64(atoi())
		case "max-paths":
			h.MaxPaths = atoi()
		case "witnesses":
			h.Witnesses = atoi()
			h.witnessesSet = true
		case "product":
			h.Product = true
		case "assert-prefix":
			// a scenario of another property's package re-run here: only the assertions labelled with this prefix are evaluated
			h.AssertPrefix = rest
		case "bound":
			h.Bounds = append(h.Bounds, rest)
		case "assume":
			h.Assumes = append(h.Assumes, rest)
		}
	}
	return h
}

type loaded struct {
	prog   *ssa.Program
	hpkg   *ssa.Package
	decls  []*harnessDecl
	loadS  float64
	srcSum map[string]string // function -> sha256 of its source file
}

func load(c *Config) (*loaded, error) {
	t0 := time.Now()
	ovf, err := c.overlayFiles()
	if err != nil {
		return nil, err
	}
	ov := map[string][]byte{}
	for v, r := range ovf {
		b, err := os.ReadFile(r)
		if err != nil {
			return nil, err
		}
		ov[v] = b
	}
	pc := &packages.Config{Mode: packages.LoadAllSyntax, Dir: c.Repo,
		Env:        append(os.Environ(), "GOFLAGS=-mod=mod", "GOPROXY=off", "GOSUMDB=off", "GOTOOLCHAIN=local"),
		BuildFlags: []string{"-tags=gosymx"},
		Overlay:    ov}
	pkgs, err := packages.Load(pc, "./zzvrf/h_"+strings.ToLower(c.Prop))
	if err != nil {
		return nil, err
	}
	nerr := 0
	packages.Visit(pkgs, nil, func(p *packages.Package) {
		for _, e := range p.Errors {
			if nerr < 20 {
				fmt.Fprintln(os.Stderr, "LOAD ERROR:", e)
			}
			nerr++
		}
	})
	if nerr > 0 {
		return nil, fmt.Errorf("%d load errors (the tree does not type-check with the harness overlay)", nerr)
	}
	prog, spkgs := ssautil.AllPackages(pkgs, ssa.InstantiateGenerics)
	prog.Build()
	l := &loaded{prog: prog, hpkg: spkgs[0]}
	for _, f := range pkgs[0].Syntax {
		for _, d := range f.Decls {
			if fd, ok := d.(*ast.FuncDecl); ok && fd.Recv == nil && strings.HasPrefix(fd.Name.Name, "H_") {
				l.decls = append(l.decls, parseDirectives(fd))
			}
		}
	}
	sort.Slice(l.decls, func(i, j int) bool { return l.decls[i].Name < l.decls[j].Name })
	l.loadS = time.Since(t0).Seconds()
	return l, nil
}

func initAllow(path string) bool {
	if strings.HasPrefix(path, elys+"/") || path == elys {
		return true
	}
	switch path {
	case "cosmossdk.io/store/types", "cosmossdk.io/store/prefix", "cosmossdk.io/errors",
		"github.com/cosmos/cosmos-sdk/types/errors", "cosmossdk.io/core/store", "context", "io",
		"github.com/cosmos/cosmos-sdk/types/kv", "github.com/cosmos/cosmos-sdk/x/gov/types":
		return true
	}
	return false
}

func (c *Config) makeSpecs(l *loaded, findings map[string]bool) ([]*symx.HarnessSpec, map[string]*harnessDecl, error) {
	var specs []*symx.HarnessSpec
	decls := map[string]*harnessDecl{}
	for _, d := range l.decls {
		if c.Only != "" && d.Name != c.Only {
			continue
		}
		if d.Tier == "thorough" && c.Tier != "thorough" {
			continue
		}
		if d.Tier == "quick-only" && c.Tier != "quick" {
			continue
		}
		fn := l.hpkg.Func(d.Name)
		if fn == nil {
			return nil, nil, fmt.Errorf("harness %s not found in SSA", d.Name)
		}
		s := &symx.HarnessSpec{Name: d.Name, Fn: fn, Relational: d.Mode != "exact", Findings: findings, Tier: c.Tier,
			AssertMs: 60000, ExactMs: 60000, BranchMs: 2000, MaxSteps: 30_000_000, Unwind: 8, MaxPaths: 20000, Witnesses: d.Witnesses}
		if c.Tier == "thorough" {
			s.AssertMs, s.ExactMs = 600000, 600000
		}
		if d.AssertMs > 0 {
			s.AssertMs = d.AssertMs
		}
		if d.ExactMs > 0 {
			s.ExactMs = d.ExactMs
		}
		if d.BranchMs > 0 {
			s.BranchMs = d.BranchMs
		}
		s.FullFeasMs = 300
		if d.FullFeasMs != 0 {
			s.FullFeasMs = d.FullFeasMs
		}
		if c.Prop == "C15" || c.Prop == "C19" {
			s.AssertPrefix = c.Prop
		} else if d.AssertPrefix != "" {
			s.AssertPrefix = d.AssertPrefix
		}
		if c.Prop == "C19" {
			s.CheckGlobals = elys + "/x/"
			s.GlobalsRead = globalsRead
		}
		if d.Unwind > 0 {
			s.Unwind = d.Unwind
		}
		if d.MaxSteps > 0 {
			s.MaxSteps = d.MaxSteps
		}
		if d.MaxPaths > 0 {
			s.MaxPaths = d.MaxPaths
		}
		s.Summaries = map[string]*ssa.Function{}
		for target, sub := range d.Summaries {
			sf := l.hpkg.Func(sub)
			if i := strings.Index(sub, "."); i > 0 {
				// contract in another harness package: h_cNN.fn
				for _, p := range l.prog.AllPackages() {
					if strings.HasSuffix(p.Pkg.Path(), "/zzvrf/"+sub[:i]) {
						sf = p.Func(sub[i+1:])
					}
				}
			}
			if sf == nil {
				return nil, nil, fmt.Errorf("%s: summary function %s not found", d.Name, sub)
			}
			if !functionExists(l.prog, target) && d.OptSummary[target] {
				continue
			}
			if !functionExists(l.prog, target) {
				return nil, nil, fmt.Errorf("%s: summarised function %q does not exist in the current tree", d.Name, target)
			}
			s.Summaries[target] = sf
			if d.RerunReal[target] {
				if s.RerunReal == nil {
					s.RerunReal = map[string]bool{}
				}
				s.RerunReal[target] = true
				if strings.HasPrefix(target, "(*") {
					s.RerunReal["("+target[2:]] = true
				} else if strings.HasPrefix(target, "(") {
					s.RerunReal["(*"+target[1:]] = true
				}
			}
			// the value- and pointer-receiver forms of a method are the same source function: SSA calls
			// whichever the call site needs, so both names are replaced (the contract must not use the receiver)
			if strings.HasPrefix(target, "(*") {
				if alt := "(" + target[2:]; functionExists(l.prog, alt) {
					s.Summaries[alt] = sf
				}
			} else if strings.HasPrefix(target, "(") {
				if alt := "(*" + target[1:]; functionExists(l.prog, alt) {
					s.Summaries[alt] = sf
				}
			}
		}
		specs = append(specs, s)
		decls[d.Name] = d
		if d.Product {
			s.KeepObs = true
			s2 := *s
			s2.Name = d.Name + "#rev"
			s2.MapOrder = 1
			specs = append(specs, &s2)
			decls[s2.Name] = d
		}
	}
	return specs, decls, nil
}

var fnIndex map[string]bool

func functionExists(prog *ssa.Program, name string) bool {
	if fnIndex == nil {
		fnIndex = map[string]bool{}
		for f := range ssautil.AllFunctions(prog) {
			fnIndex[f.String()] = true
		}
	}
	if strings.Contains(name, "[") {
		// a method of an instantiated generic type: go/ssa creates the instance on demand, so it is not in the
		// inventory; the summary is matched by name when (and if) the instance is called
		return true
	}
	return fnIndex[name]
}

// ------------------------------------------------------------------ findings

type finding struct {
	Kind string // finding | fixed
	Prop string
	ID   string
	Text string
}

func loadFindings(c *Config) []finding {
	var out []finding
	f, err := os.Open(filepath.Join(c.Verif, "known_findings.txt"))
	if err != nil {
		return nil
	}
	defer f.Close()
	sc := bufio.NewScanner(f)
	for sc.Scan() {
		line := strings.TrimSpace(sc.Text())
		if line == "" || strings.HasPrefix(line, "#") {
			continue
		}
		var fd finding
		switch {
		case strings.HasPrefix(line, "finding:"):
			fd.Kind = "finding"
			line = strings.TrimSpace(strings.TrimPrefix(line, "finding:"))
		case strings.HasPrefix(line, "fixed:"):
			fd.Kind = "fixed"
			line = strings.TrimSpace(strings.TrimPrefix(line, "fixed:"))
		default:
			continue
		}
		fs := strings.Fields(line)
		var rest []string
		for _, w := range fs {
			switch {
			case strings.HasPrefix(w, "property="):
				fd.Prop = strings.TrimPrefix(w, "property=")
			case strings.HasPrefix(w, "id=") && fd.ID == "":
				fd.ID = strings.TrimPrefix(w, "id=")
			default:
				rest = append(rest, w)
			}
		}
		fd.Text = strings.Join(rest, " ")
		out = append(out, fd)
	}
	return out
}

// ------------------------------------------------------------------ check

func runCheck(c *Config) int {
	t0 := time.Now()
	defer func() {
		if c.genDir != "" {
			os.RemoveAll(c.genDir)
		}
	}()
	evPath := filepath.Join(c.Verif, "evidence", c.Prop+".json")
	outDir := filepath.Join(c.Verif, "out")
	if v := os.Getenv("VERIF_OUT"); v != "" {
		// scratch runs (seeded changes on a copy of the tree): evidence and replay files go elsewhere
		outDir = v
		evPath = filepath.Join(v, c.Prop+".evidence.json")
	}
	os.MkdirAll(filepath.Dir(evPath), 0o755)
	os.Remove(evPath)
	fail := func(code int, msg string) int {
		fmt.Printf("CHECK %s: %s\n", c.Prop, msg)
		return code
	}
	if _, err := os.Stat(c.harnessDir()); err != nil {
		return fail(2, "no harness directory "+c.harnessDir())
	}
	l, err := load(c)
	if err != nil {
		return fail(2, "INCONCLUSIVE load failed: "+err.Error())
	}
	fmt.Printf("loaded %s in %.1fs (%d harnesses)\n", c.harnessPkg(), l.loadS, len(l.decls))

	all := loadFindings(c)
	active := map[string]bool{}
	ftext := map[string]string{}
	for _, f := range all {
		if f.Kind == "finding" && f.Prop == c.Prop && f.ID != "" {
			active[f.ID] = true
			ftext[f.ID] = f.Text
		}
	}
	collectSites(c, l)
	specs, decls, err := c.makeSpecs(l, active)
	if err != nil {
		return fail(2, "INCONCLUSIVE "+err.Error())
	}
	if len(specs) == 0 {
		return fail(2, "no harness selected")
	}
	symx.RegisterIntrinsics(elys + "/zzvrf")
	P := symx.NewProgram(l.prog, elys+"/zzvrf", initAllow)
	mk := func() (*symx.Engine, error) {
		e := symx.NewEngine(P, c.Solver)
		if err := e.InitPackages(l.hpkg); err != nil {
			return nil, err
		}
		return e, nil
	}
	nw := c.Workers
	results, err := symx.RunAll(specs, nw, mk, nil)
	if err != nil {
		return fail(2, "INCONCLUSIVE engine: "+err.Error())
	}
	// undecided assertion queries get a second, sequential attempt with twice the time
	retried, reclosed := 0, 0
	for _, r := range results {
		retried += len(r.Retry)
		reclosed += r.RetryUnknowns(func() *symx.Solver { return symx.NewSolver(c.Solver) })
	}
	exploreS := time.Since(t0).Seconds() - l.loadS

	// ---- product-mode comparison (C19) ----
	var productViol []symx.Violation
	var pst symx.ProductStats
	productPairs := 0
	byName := map[string]*symx.HarnessResult{}
	for _, r := range results {
		byName[r.Spec.Name] = r
	}
	for _, r := range results {
		if rev, ok := byName[r.Spec.Name+"#rev"]; ok {
			st, viol := symx.Product(func() *symx.Solver { return symx.NewSolver(c.Solver) }, nw, r, rev)
			pst.Pairs += st.Pairs
			pst.Contradictory += st.Contradictory
			pst.Identical += st.Identical
			pst.Unsat += st.Unsat
			pst.Sat += st.Sat
			pst.Unknown += st.Unknown
			productViol = append(productViol, viol...)
		}
	}
	productPairs = pst.Pairs

	// ---- native replay of witnesses and counter-examples ----
	rp := &replayer{c: c, l: l}
	defer rp.cleanup()
	validated, mismatches := 0, 0
	var witnessOut []symx.Witness
	var confirmed, unconfirmed []symx.Violation
	var notes []string
	for _, r := range results {
		d := decls[r.Spec.Name]
		onlyRR := true
		for k := range r.Summarised {
			if !r.Spec.RerunReal[k] {
				onlyRR = false
			}
		}
		// summaries declared but never applied do not change the run; contracts marked "real on re-run" are replaced by the real callee natively anyway
		native := (len(d.Summaries) == 0 || len(r.Summarised) == 0 || onlyRR) && !c.NoReplay
		for _, w := range r.Witnesses {
			if !native {
				continue
			}
			cw, ok := concreteWitness(P, c, r.Spec, w.Model)
			if !ok {
				notes = append(notes, fmt.Sprintf("witness of %s could not be re-executed concretely", r.Spec.Name))
				continue
			}
			cw.Model = w.Model
			if strings.Join(cw.Covers, ",") != strings.Join(w.Covers, ",") {
				notes = append(notes, fmt.Sprintf("witness of %s: concrete run covers %v, symbolic path %v (rounding tie in the relational model)", r.Spec.Name, cw.Covers, w.Covers))
			}
			w = cw
			witnessOut = append(witnessOut, w)
			out, err := rp.run(strings.TrimSuffix(r.Spec.Name, "#rev"), w.Model)
			if err != nil {
				notes = append(notes, "replay build/run failed: "+err.Error())
				mismatches++
				continue
			}
			ok, why := compareWitness(w, out)
			if ok {
				validated++
			} else if strings.Contains(why, "native run panicked") && (strings.Contains(why, "out of bound") || strings.Contains(why, "overflow")) {
				// the solver picked a witness beyond sdkmath's 256 / 315-bit range (the engine's integers are unbounded;
				// bit-length overflow panics are outside every claim): the witness is not usable for validating the models,
				// which is not a disagreement between engine and implementation
				notes = append(notes, fmt.Sprintf("witness of %s lies outside sdkmath's bit-length range natively (%s): not used for validation", r.Spec.Name, why))
			} else {
				mismatches++
				notes = append(notes, fmt.Sprintf("witness mismatch in %s: %s", r.Spec.Name, why))
			}
		}
		for _, v := range r.Violations {
			v := v
			// first: concrete re-execution inside the interpreter with the model (exact semantics)
			cr := concreteRerun(P, c, r.Spec, v)
			if cr == "held" {
				notes = append(notes, fmt.Sprintf("%s/%s: solver model does not violate under concrete re-execution (rounding tie or inexact model); discarded", v.Harness, v.Label))
				if !v.Exact {
					unconfirmed = append(unconfirmed, v)
				}
				continue
			}
			if native && !strings.HasPrefix(v.Label, "C19 restart") && !strings.HasPrefix(v.Label, "C19 determinism: time.") { // engine-side observations have no native twin
				out, err := rp.run(strings.TrimSuffix(r.Spec.Name, "#rev"), v.Model)
				if err != nil {
					notes = append(notes, "replay failed: "+err.Error())
					unconfirmed = append(unconfirmed, v)
					continue
				}
				if strings.Contains(out, "REPRODUCED "+v.Label) {
					v.Detail = "reproduced natively against the compiled tree"
					confirmed = append(confirmed, v)
					validated++
				} else {
					notes = append(notes, fmt.Sprintf("%s/%s: model did not reproduce natively: %s", v.Harness, v.Label, lastLines(out, 3)))
					unconfirmed = append(unconfirmed, v)
					mismatches++
				}
			} else {
				if cr == "violated" {
					v.Detail = "confirmed by concrete re-execution of the real SSA with the summaries of the harness (native replay not possible under summaries)"
					confirmed = append(confirmed, v)
				} else {
					unconfirmed = append(unconfirmed, v)
				}
			}
		}
	}
	for _, v := range productViol {
		// confirm by concrete re-execution of both runs with the model's inputs
		ra, rb := byName[v.Harness], byName[v.Harness+"#rev"]
		wa, oka := concreteWitness(P, c, ra.Spec, v.Model)
		wb, okb := concreteWitness(P, c, rb.Spec, v.Model)
		if oka && okb {
			diff := ""
			for k, x := range wa.Obs {
				if y, ok := wb.Obs[k]; !ok || x != y {
					diff = fmt.Sprintf("%s: %s vs %q", k, x, y)
					break
				}
			}
			if diff == "" && len(wa.Obs) != len(wb.Obs) {
				diff = "different sets of state entries"
			}
			if diff == "" {
				notes = append(notes, fmt.Sprintf("%s: product model does not differ under concrete re-execution (wall-clock dependence or inexact model)", v.Harness))
				unconfirmed = append(unconfirmed, v)
				continue
			}
			v.Detail += "; concrete re-execution of both runs differs at " + diff
		}
		// native: the compiled tree run repeatedly with the same inputs (Go randomises map iteration per run)
		if len(decls[v.Harness].Summaries) == 0 && !c.NoReplay {
			first := ""
			for i := 0; i < 24; i++ {
				out, err := rp.run(v.Harness, v.Model)
				if err != nil {
					break
				}
				o := obsLines(out)
				if first == "" {
					first = o
				} else if o != first {
					v.Detail += fmt.Sprintf("; reproduced natively: run %d of the compiled tree left different state than run 1 with the same inputs", i+1)
					validated++
					break
				}
			}
		}
		confirmed = append(confirmed, v)
	}

	// ---- verdict ----
	var problems []string
	paths, queries, decisions, asserts, discharged, unknowns, assumes := 0, 0, 0, 0, 0, 0, 0
	var solverS float64
	funcs := map[string]int{}
	summarised := map[string]int{}
	coverReached := map[string]int{}
	knownHit := map[string]int{}
	var harnessRows []map[string]interface{}
	// product pairs are obligations too: a pair is discharged when its path conditions contradict, its
	// observation terms are identical, or the solver refutes "both reachable and some observation differs"
	asserts += pst.Pairs
	discharged += pst.Contradictory + pst.Identical + pst.Unsat
	if pst.Unknown > 0 {
		unknowns += pst.Unknown
		problems = append(problems, fmt.Sprintf("inconclusive: %d product pair quer(ies) returned unknown/timeout", pst.Unknown))
	}
	if c.Prop == "C19" && pst.Pairs == 0 {
		problems = append(problems, "vacuity: no product pair was compared")
	}
	for _, r := range results {
		d := decls[r.Spec.Name]
		paths += r.Paths
		queries += r.Queries
		decisions += int(r.Decisions)
		unknowns += r.Unknowns
		assumes += r.Assumes
		solverS += r.SolverTime.Seconds()
		for f, n := range r.Funcs {
			funcs[f] += n
		}
		for f, n := range r.Summarised {
			summarised[f] += n
		}
		for k, n := range r.KnownHits {
			knownHit[k] += n
		}
		na, nd := 0, 0
		for _, st := range r.Asserts {
			na += st.Checked
			nd += st.Trivial + st.Unsat
		}
		asserts += na
		discharged += nd
		for _, cv := range d.Covers {
			coverReached[r.Spec.Name+"/"+cv] = r.Covers[cv]
			if r.Covers[cv] == 0 {
				problems = append(problems, fmt.Sprintf("vacuity: harness %s never reached cover point %q", r.Spec.Name, cv))
			}
		}
		for reason, n := range r.Aborts {
			allowed := false
			for _, a := range d.AllowAbort {
				if strings.Contains(reason, a) {
					allowed = true
				}
			}
			if !allowed {
				problems = append(problems, fmt.Sprintf("inconclusive: %d path(s) of %s aborted: %s", n, r.Spec.Name, reason))
			}
		}
		if r.Unknowns > 0 {
			problems = append(problems, fmt.Sprintf("inconclusive: %d assertion quer(ies) of %s returned unknown/timeout", r.Unknowns, r.Spec.Name))
		}
		if r.Paths > 0 && r.Completed == 0 && len(d.Covers) == 0 {
			problems = append(problems, fmt.Sprintf("vacuity: no path of %s ran to completion", r.Spec.Name))
		}
		row := map[string]interface{}{"harness": r.Spec.Name, "paths": r.Paths, "completed": r.Completed, "queries": r.Queries,
			"assert_instances": na, "discharged": nd, "covers": r.Covers, "aborts": r.Aborts, "panics_escaping": r.Panics,
			"solver_s": round2(r.SolverTime.Seconds()), "mode": d.Mode, "bounds": d.Bounds, "assumes": d.Assumes, "doc": strings.TrimSpace(d.Doc)}
		harnessRows = append(harnessRows, row)
		if c.Verbose && len(r.ForkSites) > 0 {
			type kv struct {
				k string
				v int
			}
			var l []kv
			for k, v := range r.ForkSites {
				l = append(l, kv{k, v})
			}
			sort.Slice(l, func(i, j int) bool { return l[i].v > l[j].v })
			for i, e := range l {
				if i < 12 {
					fmt.Printf("      forks %6d  %s\n", e.v, e.k)
				}
			}
		}
		if c.Verbose {
			fmt.Printf("  %-40s paths=%d completed=%d asserts=%d/%d queries=%d solver=%.1fs aborts=%v panics=%v covers=%v\n", r.Spec.Name, r.Paths, r.Completed, nd, na, r.Queries, r.SolverTime.Seconds(), r.Aborts, r.Panics, r.Covers)
		}
	}
	if mismatches > 0 {
		problems = append(problems, fmt.Sprintf("broken: %d native replay(s) disagreed with the engine", mismatches))
	}
	for _, v := range unconfirmed {
		problems = append(problems, fmt.Sprintf("unconfirmed: %s/%s has a solver model that could not be confirmed", v.Harness, v.Label))
	}

	// ---- replay files + output ----
	exit := 0
	os.MkdirAll(filepath.Join(outDir, "replay"), 0o755)
	seen := map[string]bool{}
	nviol := 0
	for i, v := range confirmed {
		key := v.Harness + "/" + v.Label
		if seen[key] {
			continue
		}
		seen[key] = true
		nviol++
		p := filepath.Join(outDir, "replay", fmt.Sprintf("%s_%d.json", c.Prop, i))
		writeJSON(p, map[string]interface{}{"property": c.Prop, "harness": v.Harness, "label": v.Label, "kind": v.Kind, "model": v.Model, "detail": v.Detail})
		fmt.Printf("VIOLATION property=%s replay=%s\n", c.Prop, p)
		fmt.Printf("  harness=%s assertion=%q model=%s\n", v.Harness, v.Label, compactModel(v.Model))
		exit = 1
	}
	var knownLines []string
	ids := make([]string, 0, len(knownHit))
	for id := range knownHit {
		ids = append(ids, id)
	}
	sort.Strings(ids)
	for _, id := range ids {
		line := fmt.Sprintf("KNOWN-FINDING: property=%s id=%s %s", c.Prop, id, ftext[id])
		fmt.Println(line)
		knownLines = append(knownLines, line)
	}
	if exit == 0 && len(problems) > 0 {
		exit = 2
	}
	for _, p := range problems {
		fmt.Println("PROBLEM:", p)
	}
	for _, n := range notes {
		fmt.Println("NOTE:", n)
	}

	// ---- evidence ----
	var fnList []string
	for f := range funcs {
		fnList = append(fnList, f)
	}
	sort.Strings(fnList)
	var samples []interface{}
	{
		for _, w := range witnessOut {
			if len(samples) < 6 {
				samples = append(samples, map[string]interface{}{"kind": "reachability witness (pre-state assignment, replayed natively)", "harness": w.Harness, "covers": w.Covers, "model": w.Model, "observed": w.Obs})
			}
		}
	}
	for _, r := range results {
		for label, st := range r.Asserts {
			if len(samples) < 10 {
				samples = append(samples, map[string]interface{}{"kind": "obligation", "harness": r.Spec.Name, "assertion": label, "instances": st.Checked, "unsat": st.Unsat, "trivially_true": st.Trivial, "sat": st.Sat, "unknown": st.Unknown})
			}
		}
	}
	if len(samples) == 0 {
		samples = append(samples, map[string]interface{}{"kind": "none", "note": "no obligation was reached"})
	}
	if paths < 1 {
		paths = 1
	}
	trans := decisions
	if trans < 1 {
		trans = queries
	}
	if trans < 1 {
		trans = 1
	}
	ev := map[string]interface{}{
		"property_id": c.Prop,
		"tier":        c.Tier,
		"seed":        c.Seed,
		"level":       "model_checking",
		"wall_s":      round2(time.Since(t0).Seconds()),
		"violations":  nviol,
		"coverage": map[string]interface{}{
			"states":                        paths,
			"transitions":                   trans,
			"traces_validated_against_impl": validated,
			"samples":                       samples,
			"obligations":                   asserts,
			"discharged":                    discharged,
			"inconclusive":                  unknowns,
			"queries":                       queries,
			"solver":                        c.Solver,
			"solver_time_s":                 round2(solverS),
			"load_and_ssa_build_s":          round2(l.loadS),
			"explore_s":                     round2(exploreS),
			"functions_encoded":             fnList,
			"functions_encoded_count":       len(fnList),
			"summaries":                     summarised,
			"cover_points":                  coverReached,
			"harnesses":                     harnessRows,
			"product_pairs":                 productPairs,
			"product":                       map[string]int{"pairs": pst.Pairs, "contradictory_path_conditions": pst.Contradictory, "identical_observation_terms": pst.Identical, "unsat": pst.Unsat, "sat": pst.Sat, "unknown": pst.Unknown},
			"known_findings_applied":        knownLines,
			"problems":                      problems,
			"notes":                         notes,
			"source_tree_digest":            treeDigest(c, fnList, l),
			"entry_points_enumerated":       c.generated,
			"scenarios_wrapped":             len(c.scenarios),
			"assertion_queries_retried":     map[string]int{"retried": retried, "closed_on_retry": reclosed},
			"site_inventory":                siteInventory(c, l, fnList),
			"explanation":                   "bounded symbolic execution of the real Go SSA of /repo; every assertion instance is an SMT query (path condition AND NOT assertion) decided by " + c.Solver + "; states = symbolic paths, transitions = symbolic branch decisions",
		},
		"assumptions": assumptionsFor(decls),
	}
	if err := writeJSON(evPath, ev); err != nil {
		fmt.Println("cannot write evidence:", err)
		return 2
	}
	fmt.Printf("CHECK %s tier=%s: harnesses=%d paths=%d obligations=%d discharged=%d queries=%d solver=%.1fs replayed=%d wall=%.1fs exit=%d\n",
		c.Prop, c.Tier, len(results), paths, asserts, discharged, queries, solverS, validated, time.Since(t0).Seconds(), exit)
	return exit
}

func round2(f float64) float64 { return float64(int64(f*100)) / 100 }

func compactModel(m map[string]string) string {
	keys := make([]string, 0, len(m))
	for k := range m {
		keys = append(keys, k)
	}
	sort.Strings(keys)
	var sb strings.Builder
	for i, k := range keys {
		if i > 0 {
			sb.WriteString(" ")
		}
		fmt.Fprintf(&sb, "%s=%s", k, m[k])
	}
	return sb.String()
}

func lastLines(s string, n int) string {
	ls := strings.Split(strings.TrimSpace(s), "\n")
	if len(ls) > n {
		ls = ls[len(ls)-n:]
	}
	return strings.Join(ls, " | ")
}

func assumptionsFor(decls map[string]*harnessDecl) []string {
	out := []string{
		"go/ssa construction, the interpreter fork and the SMT definitions of cosmossdk.io/math are trusted (validated by native replay of witness models)",
		"store, bank and codec are Go models (package zzvrf): protobuf encode/decode is the identity, gas is infinite, no vesting/blocked accounts",
		"sdkmath 256/315-bit overflow panics are outside the claim",
		"events are not modelled; ante handlers, signatures and baseapp roll-back are SDK-owned and outside the claim",
	}
	seen := map[string]bool{}
	for _, d := range decls {
		for _, a := range d.Assumes {
			if !seen[a] {
				seen[a] = true
				out = append(out, d.Name+": "+a)
			}
		}
		for t, s := range d.Summaries {
			k := "summary: " + t + " replaced by contract " + s
			if !seen[k] {
				seen[k] = true
				out = append(out, k)
			}
		}
	}
	sort.Strings(out[4:])
	return out
}

func treeDigest(c *Config, fns []string, l *loaded) string {
	h := sha256.New()
	files := map[string]bool{}
	l.prog.Fset.Iterate(func(f *token.File) bool {
		if strings.HasPrefix(f.Name(), filepath.Join(c.Repo, "x")+"/") {
			files[f.Name()] = true
		}
		return true
	})
	var fl []string
	for f := range files {
		fl = append(fl, f)
	}
	sort.Strings(fl)
	for _, f := range fl {
		b, err := os.ReadFile(f)
		if err == nil {
			h.Write([]byte(f))
			h.Write(b)
		}
	}
	return hex.EncodeToString(h.Sum(nil))[:16] + fmt.Sprintf(" (%d source files under x/ in the loaded closure)", len(fl))
}

// concreteWitness runs the harness concretely on the model's named inputs and
// returns the cover points and observations the engine's exact semantics produce.
func concreteWitness(P *symx.Program, c *Config, spec *symx.HarnessSpec, model map[string]string) (symx.Witness, bool) {
	s2 := *spec
	s2.Concrete = map[string]*big.Int{}
	for k, val := range model {
		if b, ok := new(big.Int).SetString(val, 10); ok {
			s2.Concrete[k] = b
		}
	}
	if len(spec.RerunReal) > 0 {
		s2.Summaries = map[string]*ssa.Function{}
		for k, v := range spec.Summaries {
			if !spec.RerunReal[k] {
				s2.Summaries[k] = v
			}
		}
	}
	s2.Relational = false
	s2.Findings = nil
	e := symx.NewEngine(P, c.Solver)
	defer e.Close()
	if err := e.InitPackages(spec.Fn.Pkg); err != nil {
		return symx.Witness{}, false
	}
	res := symx.NewHarnessResult(&s2)
	alts := e.RunPath(&s2, res, nil)
	if len(alts) > 0 || len(res.Witnesses) != 1 {
		return symx.Witness{}, false
	}
	return res.Witnesses[0], true
}

// concreteRerun re-executes the harness inside the interpreter with the model's
// values (no solver involvement on the data path): "violated", "held" or "unknown".
func concreteRerun(P *symx.Program, c *Config, spec *symx.HarnessSpec, v symx.Violation) string {
	if v.Kind != "assert" {
		return "unknown"
	}
	s2 := *spec
	s2.Concrete = map[string]*big.Int{}
	for k, val := range v.Model {
		if b, ok := new(big.Int).SetString(val, 10); ok {
			s2.Concrete[k] = b
		}
	}
	if len(spec.RerunReal) > 0 {
		s2.Summaries = map[string]*ssa.Function{}
		for k, v := range spec.Summaries {
			if !spec.RerunReal[k] {
				s2.Summaries[k] = v
			}
		}
	}
	s2.Relational = false
	s2.Findings = nil
	s2.Witnesses = 0
	e := symx.NewEngine(P, c.Solver)
	defer e.Close()
	if err := e.InitPackages(spec.Fn.Pkg); err != nil {
		return "unknown"
	}
	res := symx.NewHarnessResult(&s2)
	work := [][]bool{nil}
	for len(work) > 0 && res.Paths < 64 {
		p := work[len(work)-1]
		work = work[:len(work)-1]
		work = append(work, e.RunPath(&s2, res, p)...)
	}
	st := res.Asserts[v.Label]
	if st == nil {
		return "unknown"
	}
	if st.Sat > 0 {
		return "violated"
	}
	if st.Unknown > 0 || len(res.Aborts) > 0 {
		return "unknown"
	}
	return "held"
}

// ------------------------------------------------------------------ native replay

type replayer struct {
	c      *Config
	l      *loaded
	dir    string
	bin    string
	failed error
}

func (r *replayer) cleanup() {
	if r.dir != "" {
		os.RemoveAll(r.dir)
	}
}

func (r *replayer) build() error {
	if r.bin != "" || r.failed != nil {
		return r.failed
	}
	dir, err := os.MkdirTemp("", "gosymx-replay-")
	if err != nil {
		r.failed = err
		return err
	}
	r.dir = dir
	ovf, _ := r.c.overlayFiles()
	low := strings.ToLower(r.c.Prop)
	var sb strings.Builder
	fmt.Fprintf(&sb, "package main\n\nimport (\n\t\"fmt\"\n\t\"os\"\n\n\th \"%s\"\n\t\"%s/zzvrf\"\n)\n\nvar table = map[string]func(){\n", r.c.harnessPkg(), elys)
	for _, d := range r.l.decls {
		fmt.Fprintf(&sb, "\t%q: h.%s,\n", d.Name, d.Name)
	}
	sb.WriteString("}\n\nfunc main() {\n\tf, ok := table[os.Args[1]]\n\tif !ok {\n\t\tfmt.Println(\"no such harness\")\n\t\tos.Exit(2)\n\t}\n\tzzvrf.LoadModel()\n\tzzvrf.RunHarness(os.Args[1], f)\n}\n")
	mainFile := filepath.Join(dir, "main.go")
	os.WriteFile(mainFile, []byte(sb.String()), 0o644)
	ovf[filepath.Join(r.c.Repo, "zzvrf", "rp_"+low, "main.go")] = mainFile
	ovJSON := filepath.Join(dir, "overlay.json")
	writeJSON(ovJSON, map[string]interface{}{"Replace": ovf})
	r.bin = filepath.Join(dir, "replay.bin")
	cmd := exec.Command("go", "build", "-overlay", ovJSON, "-o", r.bin, "./zzvrf/rp_"+low)
	cmd.Dir = r.c.Repo
	cmd.Env = append(os.Environ(), "GOFLAGS=-mod=mod", "GOPROXY=off", "GOSUMDB=off", "GOTOOLCHAIN=local")
	out, err := cmd.CombinedOutput()
	if err != nil {
		r.failed = fmt.Errorf("native build failed: %v: %s", err, lastLines(string(out), 8))
		r.bin = ""
		return r.failed
	}
	return nil
}

func (r *replayer) run(harness string, model map[string]string) (string, error) {
	if err := r.build(); err != nil {
		return "", err
	}
	mf := filepath.Join(r.dir, "model.json")
	writeJSON(mf, map[string]interface{}{"model": model})
	cmd := exec.Command("timeout", "120", r.bin, harness)
	cmd.Env = append(os.Environ(), "VRF_MODEL="+mf)
	out, err := cmd.CombinedOutput()
	if err != nil {
		return string(out), fmt.Errorf("native run failed: %v: %s", err, lastLines(string(out), 5))
	}
	return string(out), nil
}

func obsLines(out string) string {
	var ls []string
	for _, line := range strings.Split(out, "\n") {
		if strings.HasPrefix(line, "OBS ") {
			ls = append(ls, line)
		}
	}
	sort.Strings(ls)
	return strings.Join(ls, "\n")
}

func compareWitness(w symx.Witness, out string) (bool, string) {
	if strings.Contains(out, "ENDPATH") {
		return false, "native run rejected the model at an assumption: " + lastLines(out, 2)
	}
	if strings.Contains(out, "PANIC") {
		return false, "native run panicked: " + lastLines(out, 2)
	}
	for _, cv := range w.Covers {
		if !strings.Contains(out, "COVER "+cv+"\n") {
			return false, "cover point " + cv + " not reached natively"
		}
	}
	obs := map[string]string{}
	for _, line := range strings.Split(out, "\n") {
		f := strings.Fields(line)
		if len(f) == 3 && f[0] == "OBS" {
			obs[f[1]] = f[2]
		}
	}
	for k, v := range w.Obs {
		if nv, ok := obs[k]; !ok || nv != v {
			return false, fmt.Sprintf("observation %s: engine %s, native %q", k, v, nv)
		}
	}
	return true, ""
}

func runReplay(c *Config, file string) int {
	b, err := os.ReadFile(file)
	if err != nil {
		fmt.Println("cannot read replay file:", err)
		return 2
	}
	var rf struct {
		Property string            `json:"property"`
		Harness  string            `json:"harness"`
		Label    string            `json:"label"`
		Model    map[string]string `json:"model"`
	}
	if err := jsonUnmarshal(b, &rf); err != nil {
		fmt.Println("bad replay file:", err)
		return 2
	}
	c.Prop = rf.Property
	l, err := load(c)
	if err != nil {
		fmt.Println("load failed:", err)
		return 2
	}
	var decl *harnessDecl
	for _, d := range l.decls {
		if d.Name == strings.TrimSuffix(rf.Harness, "#rev") {
			decl = d
		}
	}
	if decl == nil {
		fmt.Println("no such harness", rf.Harness)
		return 2
	}
	c.Only = decl.Name
	c.Tier = "thorough" // a replay file may name a harness of either tier
	specs, _, err := c.makeSpecs(l, nil)
	if err != nil || len(specs) == 0 {
		fmt.Println("cannot build spec:", err)
		return 2
	}
	symx.RegisterIntrinsics(elys + "/zzvrf")
	P := symx.NewProgram(l.prog, elys+"/zzvrf", initAllow)
	cr := concreteRerun(P, c, specs[0], symx.Violation{Label: rf.Label, Model: rf.Model, Kind: "assert"})
	fmt.Printf("concrete re-execution on the current tree (real SSA, harness summaries applied): %s\n", cr)
	if w, ok := concreteWitness(P, c, specs[0], rf.Model); ok {
		fmt.Printf("  covers=%v observations=%v\n", w.Covers, w.Obs)
	}
	res := cr
	if len(decl.Summaries) == 0 {
		rp := &replayer{c: c, l: l}
		defer rp.cleanup()
		out, err := rp.run(decl.Name, rf.Model)
		if err != nil {
			fmt.Println("native replay failed:", err)
		} else {
			fmt.Print(out)
			if strings.Contains(out, "REPRODUCED "+rf.Label) {
				res = "violated"
			} else {
				res = "held"
			}
		}
	}
	if res == "violated" {
		fmt.Printf("REPRODUCED property=%s harness=%s assertion=%q\n", rf.Property, rf.Harness, rf.Label)
		return 1
	}
	fmt.Printf("NOT REPRODUCED property=%s harness=%s assertion=%q (%s)\n", rf.Property, rf.Harness, rf.Label, res)
	return 0
}

func listFuncs(c *Config, pat string) int {
	l, err := load(c)
	if err != nil {
		fmt.Println(err)
		return 2
	}
	var names []string
	for f := range ssautil.AllFunctions(l.prog) {
		if strings.Contains(f.String(), pat) {
			names = append(names, f.String()+"  "+f.Signature.String())
		}
	}
	sort.Strings(names)
	for _, n := range names {
		fmt.Println(n)
	}
	return 0
}

// ndSource is a source of replica divergence found in the SSA of the Elys packages.
type ndSource struct {
	Kind string `json:"kind"`
	Func string `json:"function"`
	Pos  string `json:"pos"`
}

// ndSources enumerates, from the SSA of every non-test Elys package in the loaded
// closure, the constructs whose result may differ between replicas: range over a
// map, time.Now, math/rand, os.Getenv, go statements, select.
func ndSources(c *Config, l *loaded) []ndSource {
	var out []ndSource
	for f := range ssautil.AllFunctions(l.prog) {
		pk := f.Pkg
		if pk == nil && f.Origin() != nil {
			pk = f.Origin().Pkg
		}
		if pk == nil || !strings.HasPrefix(pk.Pkg.Path(), elys+"/x/") {
			continue
		}
		file := l.prog.Fset.Position(f.Pos()).Filename
		if strings.HasSuffix(file, ".pb.go") || strings.HasSuffix(file, ".pb.gw.go") || strings.HasSuffix(file, "_test.go") ||
			strings.Contains(file, "/client/") || strings.Contains(file, "/simulation/") || strings.Contains(file, "/migrations/") {
			continue
		}
		for _, b := range f.Blocks {
			for _, in := range b.Instrs {
				add := func(kind string) {
					out = append(out, ndSource{kind, f.String(), strings.TrimPrefix(l.prog.Fset.Position(in.Pos()).String(), c.Repo+"/")})
				}
				switch in := in.(type) {
				case *ssa.Store:
					if g := rootGlobal(in.Addr); g != nil && f.Name() != "init" && !strings.HasPrefix(f.Name(), "init#") {
						add("write to package-level variable " + g.Name() + " (in-memory state)")
					}
				case *ssa.MapUpdate:
					if g := rootGlobal(in.Map); g != nil && f.Name() != "init" && !strings.HasPrefix(f.Name(), "init#") {
						add("write to package-level map " + g.Name() + " (in-memory state)")
					}
				case *ssa.Range:
					if _, ok := in.X.Type().Underlying().(*types.Map); ok {
						add("range over map")
					}
				case *ssa.Go:
					add("go statement")
				case *ssa.Select:
					add("select")
				case ssa.CallInstruction:
					if cf := in.Common().StaticCallee(); cf != nil {
						switch n := cf.String(); {
						case n == "time.Now" || n == "time.Since":
							add("wall clock (" + n + ")")
						case strings.HasPrefix(n, "math/rand.") || strings.HasPrefix(n, "crypto/rand."):
							add("randomness (" + n + ")")
						case n == "os.Getenv" || n == "os.LookupEnv":
							add("environment (" + n + ")")
						}
					}
				}
			}
		}
	}
	sort.Slice(out, func(i, j int) bool { return out[i].Pos < out[j].Pos })
	return out
}

// siteInventory (meta-checks): the static inventory of the constructs the property is about, each marked
// with whether a scenario of this run executed its function.
var siteSrc []ndSource

// globalsRead: package-level variables of the Elys modules whose value is used by a non-init function for
// anything but updating the same variable (a write-only counter cannot influence the state transition).
var globalsRead map[string]bool

func collectGlobalsRead(l *loaded) {
	globalsRead = map[string]bool{}
	for f := range ssautil.AllFunctions(l.prog) {
		pk := f.Pkg
		if pk == nil && f.Origin() != nil {
			pk = f.Origin().Pkg
		}
		if pk == nil || !strings.HasPrefix(pk.Pkg.Path(), elys+"/x/") || f.Name() == "init" || strings.HasPrefix(f.Name(), "init#") {
			continue
		}
		for _, b := range f.Blocks {
			for _, in := range b.Instrs {
				// any use of the global's address other than a direct store target / load-for-self-update counts as a read
				var g *ssa.Global
				var val ssa.Value
				switch x := in.(type) {
				case *ssa.UnOp:
					if x.Op == token.MUL {
						g, val = rootGlobal(x.X), x
					}
				case *ssa.Lookup:
					g, val = rootGlobal(x.X), x
				case *ssa.Range:
					g, val = rootGlobal(x.X), x
				case ssa.CallInstruction:
					for _, a := range x.Common().Args {
						if ga := rootGlobal(a); ga != nil && ga.Pkg != nil && strings.HasPrefix(ga.Pkg.Pkg.Path(), elys+"/x/") {
							globalsRead[ga.Pkg.Pkg.Path()+"."+ga.Name()] = true // address escapes into a call
						}
					}
				}
				if g == nil || g.Pkg == nil || !strings.HasPrefix(g.Pkg.Pkg.Path(), elys+"/x/") {
					continue
				}
				if usedBeyondSelfUpdate(val, g, 0) {
					globalsRead[g.Pkg.Pkg.Path()+"."+g.Name()] = true
				}
			}
		}
	}
}

func usedBeyondSelfUpdate(v ssa.Value, g *ssa.Global, depth int) bool {
	if depth > 6 || v.Referrers() == nil {
		return true
	}
	for _, r := range *v.Referrers() {
		switch x := r.(type) {
		case *ssa.Store:
			if x.Val == v && rootGlobal(x.Addr) == g {
				continue
			}
			return true
		case *ssa.MapUpdate:
			if rootGlobal(x.Map) == g && x.Map != v {
				continue
			}
			if x.Map == v {
				continue // writing into the map itself is not a read
			}
			return true
		case *ssa.BinOp:
			if usedBeyondSelfUpdate(x, g, depth+1) {
				return true
			}
		case *ssa.Convert:
			if usedBeyondSelfUpdate(x, g, depth+1) {
				return true
			}
		case *ssa.ChangeType:
			if usedBeyondSelfUpdate(x, g, depth+1) {
				return true
			}
		case *ssa.DebugRef:
			continue
		default:
			return true
		}
	}
	return false
}

// collectSites must run before symx.NewProgram (which patches reflect for the interpreter)
func collectSites(c *Config, l *loaded) {
	if c.Prop == "C19" {
		collectGlobalsRead(l)
	}
	switch c.Prop {
	case "C15":
		siteSrc = supplySites(c, l)
	case "C19":
		siteSrc = ndSources(c, l)
	}
}

func siteInventory(c *Config, l *loaded, fnList []string) interface{} {
	src := siteSrc
	if src == nil {
		return nil
	}
	ran := map[string]bool{}
	for _, f := range fnList {
		ran[f] = true
	}
	var rows []map[string]interface{}
	for _, s := range src {
		rows = append(rows, map[string]interface{}{"kind": s.Kind, "function": s.Func, "pos": s.Pos, "function_executed_by_a_scenario": ran[s.Func]})
	}
	return rows
}

// supplySites enumerates every call of a MintCoins / BurnCoins method in the non-test Elys packages.
func supplySites(c *Config, l *loaded) []ndSource {
	var out []ndSource
	for f := range ssautil.AllFunctions(l.prog) {
		pk := f.Pkg
		if pk == nil && f.Origin() != nil {
			pk = f.Origin().Pkg
		}
		if pk == nil || !strings.HasPrefix(pk.Pkg.Path(), elys+"/x/") {
			continue
		}
		file := l.prog.Fset.Position(f.Pos()).Filename
		if strings.HasSuffix(file, ".pb.go") || strings.HasSuffix(file, "_test.go") || strings.Contains(file, "/mocks/") || strings.Contains(file, "/testutil/") || f.Synthetic != "" {
			continue
		}
		for _, b := range f.Blocks {
			for _, in := range b.Instrs {
				ci, ok := in.(ssa.CallInstruction)
				if !ok {
					continue
				}
				name := ""
				if m := ci.Common().Method; m != nil {
					name = m.Name()
				} else if cf := ci.Common().StaticCallee(); cf != nil {
					name = cf.Name()
				}
				if name == "MintCoins" || name == "BurnCoins" {
					out = append(out, ndSource{name, f.String(), strings.TrimPrefix(l.prog.Fset.Position(in.Pos()).String(), c.Repo+"/")})
				}
			}
		}
	}
	sort.Slice(out, func(i, j int) bool { return out[i].Pos < out[j].Pos })
	return out
}

// rootGlobal: the package-level variable an address / loaded value is rooted at, if any.
func rootGlobal(v ssa.Value) *ssa.Global {
	for i := 0; i < 8; i++ {
		switch x := v.(type) {
		case *ssa.Global:
			return x
		case *ssa.FieldAddr:
			v = x.X
		case *ssa.IndexAddr:
			v = x.X
		case *ssa.UnOp:
			if x.Op != token.MUL {
				return nil
			}
			v = x.X
		default:
			return nil
		}
	}
	return nil
}

func listSources(c *Config) int {
	l, err := load(c)
	if err != nil {
		fmt.Println(err)
		return 2
	}
	for _, s := range ndSources(c, l) {
		fmt.Printf("%-28s %-90s %s\n", s.Kind, s.Func, s.Pos)
	}
	return 0
}

// runSelftest: differential conformance of the sdkmath model. The harness
// h_selftest.H_MathConformance is executed concretely inside the interpreter and
// natively on a table of boundary and pseudo-random inputs; all observations must agree.
func runSelftest(c *Config) int {
	c.Prop = "SELFTEST"
	l, err := load(c)
	if err != nil {
		fmt.Println("selftest: load failed:", err)
		return 2
	}
	c.Only = "H_MathConformance"
	specs, _, err := c.makeSpecs(l, nil)
	if err != nil || len(specs) != 1 {
		fmt.Println("selftest: no harness:", err)
		return 2
	}
	symx.RegisterIntrinsics(elys + "/zzvrf")
	P := symx.NewProgram(l.prog, elys+"/zzvrf", initAllow)
	rp := &replayer{c: c, l: l}
	defer rp.cleanup()
	e18 := "1000000000000000000"
	vals := []string{"0", "1", "-1", "2", "3", "7", "-7", "10", "499999999999999999", "500000000000000000", "500000000000000001", "-500000000000000000",
		"1500000000000000000", "2500000000000000000", "-1500000000000000000", "-2500000000000000000", e18, "-" + e18, "999999999999999999", "1000000000000000001",
		"123456789012345678901234567890", "-98765432109876543210987654321", "340282366920938463463374607431768211455", "3", "333333333333333333", "666666666666666667"}
	// deterministic pseudo-random additions
	seed := uint64(c.Seed)*6364136223846793005 + 1442695040888963407
	for i := 0; i < 14; i++ {
		seed = seed*6364136223846793005 + 1442695040888963407
		v := new(big.Int).SetUint64(seed >> 3)
		if i%3 == 0 {
			v.Mul(v, new(big.Int).SetUint64(seed>>17))
		}
		if i%2 == 1 {
			v.Neg(v)
		}
		vals = append(vals, v.String())
	}
	n, bad := 0, 0
	for i := 0; i < len(vals); i++ {
		model := map[string]string{"a": vals[i], "b": vals[(i*7+3)%len(vals)], "x": vals[(i*5+1)%len(vals)], "y": vals[(i*11+2)%len(vals)]}
		w, ok := concreteWitness(P, c, specs[0], model)
		if !ok {
			fmt.Println("selftest: interpreter run failed for", model)
			bad++
			continue
		}
		out, err := rp.run("H_MathConformance", model)
		if err != nil {
			fmt.Println("selftest: native run failed:", err)
			return 2
		}
		w.Model = model
		if okc, why := compareWitness(w, out); !okc {
			fmt.Printf("selftest: MISMATCH for %v: %s\n", model, why)
			bad++
		}
		n++
	}
	fmt.Printf("selftest: sdkmath model vs real library: %d input vectors x %d observed operations, %d mismatches\n", n, 55, bad)
	if bad > 0 {
		return 1
	}
	return 0
}
