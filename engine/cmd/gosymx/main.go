// gosymx: driver of the solver-based checks of /verif.
//
//	gosymx check <ID> [--tier quick|thorough] [--only H_name] [--workers N]
//	gosymx replay <ID> <replay.json>
//
// It loads /repo's current working tree (go/packages + go/ssa) with the
// overlay packages zzvrf (models, intrinsics) and zzvrf/h_<id> (harnesses),
// executes every harness symbolically, replays solver models natively, applies
// /verif/known_findings.txt and writes /verif/evidence/<ID>.json.
package main

import (
	"encoding/json"
	"fmt"
	"os"
	"strings"
)

func main() {
	if len(os.Args) == 2 && os.Args[1] == "selftest" {
		os.Exit(runSelftest(defaultConfig()))
	}
	if len(os.Args) < 3 {
		fmt.Fprintln(os.Stderr, "usage: gosymx check <ID> [--tier quick|thorough] | gosymx replay <ID> <file>")
		os.Exit(2)
	}
	cfg := defaultConfig()
	switch os.Args[1] {
	case "check":
		cfg.Prop = strings.ToUpper(os.Args[2])
		args := os.Args[3:]
		for i := 0; i < len(args); i++ {
			switch args[i] {
			case "--tier":
				i++
				cfg.Tier = args[i]
			case "--only":
				i++
				cfg.Only = args[i]
			case "--workers":
				i++
				fmt.Sscan(args[i], &cfg.Workers)
			case "--replay":
				i++
				os.Exit(runReplay(cfg, args[i]))
			case "--no-replay":
				cfg.NoReplay = true
			case "--verbose":
				cfg.Verbose = true
			default:
				fmt.Fprintln(os.Stderr, "unknown argument", args[i])
				os.Exit(2)
			}
		}
		if t := os.Getenv("VERIF_TIER"); t != "" && cfg.Tier == "" {
			cfg.Tier = t
		}
		if cfg.Tier == "" {
			cfg.Tier = "quick"
		}
		os.Exit(runCheck(cfg))
	case "funcs":
		cfg.Prop = strings.ToUpper(os.Args[2])
		os.Exit(listFuncs(cfg, os.Args[3]))
	case "sources":
		cfg.Prop = strings.ToUpper(os.Args[2])
		os.Exit(listSources(cfg))
	case "selftest":
		os.Exit(runSelftest(cfg))
	case "replay":
		cfg.Prop = strings.ToUpper(os.Args[2])
		os.Exit(runReplay(cfg, os.Args[3]))
	default:
		fmt.Fprintln(os.Stderr, "unknown command", os.Args[1])
		os.Exit(2)
	}
}

func writeJSON(path string, v interface{}) error {
	b, err := json.MarshalIndent(v, "", " ")
	if err != nil {
		return err
	}
	return os.WriteFile(path, append(b, '\n'), 0o644)
}

func jsonUnmarshal(b []byte, v interface{}) error { return json.Unmarshal(b, v) }
