package main

// Generator of the C17 harnesses. On every run the governance-gated message
// handlers are enumerated from /repo's current source (every method of every
// x/<module>/keeper.msgServer whose request type carries an Authority field, or
// whose body mentions the keeper's authority), and one harness per handler is
// emitted: a message with arbitrary field values (type-directed generator,
// numeric leaves symbolic) whose authority/creator is NOT the governance
// authority must be refused with the world (all stores, bank) untouched.

import (
	"fmt"
	"go/ast"
	"go/parser"
	"go/token"
	"os"
	"path/filepath"
	"regexp"
	"sort"
	"strings"
)

var reAuthCmp = regexp.MustCompile(`authority\s*!=\s*msg\.(\w+)|msg\.(\w+)\s*!=\s*k\.authority`)

var c17Modules = map[string]string{ // module dir -> wire.Env field
	"accountedpool": "Acc", "amm": "Amm", "assetprofile": "Aprof", "burner": "Burner", "commitment": "Comm",
	"estaking": "Estaking", "leveragelp": "Lev", "masterchef": "Mc", "oracle": "Oracle", "parameter": "Param",
	"perpetual": "Perp", "stablestake": "Stable", "tier": "Tier", "tokenomics": "Tokenomics", "tradeshield": "Ts",
}

type c17Handler struct {
	Module, Method, Req string
	SenderField         string
	Why                 string
}

type c17Gen struct {
	repo    string
	structs map[string]map[string]*ast.StructType // module -> type name -> struct
	aliases map[string]map[string]string          // module -> file alias -> import path (merged over files)
	n       int
}

func (g *c17Gen) parseTypes(mod string) error {
	dir := filepath.Join(g.repo, "x", mod, "types")
	fset := token.NewFileSet()
	pkgs, err := parser.ParseDir(fset, dir, func(fi os.FileInfo) bool { return !strings.HasSuffix(fi.Name(), "_test.go") }, 0)
	if err != nil {
		return err
	}
	g.structs[mod] = map[string]*ast.StructType{}
	g.aliases[mod] = map[string]string{}
	for _, p := range pkgs {
		for _, f := range p.Files {
			for _, im := range f.Imports {
				path := strings.Trim(im.Path.Value, "\"")
				name := filepath.Base(path)
				if im.Name != nil {
					name = im.Name.Name
				}
				g.aliases[mod][name] = path
			}
			for _, d := range f.Decls {
				gd, ok := d.(*ast.GenDecl)
				if !ok {
					continue
				}
				for _, sp := range gd.Specs {
					if ts, ok := sp.(*ast.TypeSpec); ok {
						if st, ok := ts.Type.(*ast.StructType); ok {
							g.structs[mod][ts.Name.Name] = st
						}
					}
				}
			}
		}
	}
	return nil
}

// handlers of one module: msgServer methods in x/<mod>/keeper
func (g *c17Gen) handlers(mod string) ([]c17Handler, error) {
	dir := filepath.Join(g.repo, "x", mod, "keeper")
	fset := token.NewFileSet()
	pkgs, err := parser.ParseDir(fset, dir, func(fi os.FileInfo) bool { return !strings.HasSuffix(fi.Name(), "_test.go") }, 0)
	if err != nil {
		return nil, err
	}
	var out []c17Handler
	for _, p := range pkgs {
		for fname, f := range p.Files {
			src, _ := os.ReadFile(fname)
			for _, d := range f.Decls {
				fd, ok := d.(*ast.FuncDecl)
				if !ok || fd.Recv == nil || len(fd.Recv.List) != 1 || fd.Body == nil || !fd.Name.IsExported() {
					continue
				}
				rt := fd.Recv.List[0].Type
				if st, ok := rt.(*ast.StarExpr); ok {
					rt = st.X
				}
				if id, ok := rt.(*ast.Ident); !ok || id.Name != "msgServer" {
					continue
				}
				if fd.Type.Params == nil || len(fd.Type.Params.List) != 2 {
					continue
				}
				pt, ok := fd.Type.Params.List[1].Type.(*ast.StarExpr)
				if !ok {
					continue
				}
				sel, ok := pt.X.(*ast.SelectorExpr)
				if !ok {
					continue
				}
				req := sel.Sel.Name
				st := g.structs[mod][req]
				if st == nil {
					continue
				}
				h := c17Handler{Module: mod, Method: fd.Name.Name, Req: req}
				for _, fl := range st.Fields.List {
					for _, n := range fl.Names {
						if n.Name == "Authority" {
							h.SenderField, h.Why = "Authority", "request carries an Authority field"
						}
					}
				}
				if h.SenderField == "" {
					body := string(src[fset.Position(fd.Body.Pos()).Offset:fset.Position(fd.Body.End()).Offset])
					// the handler compares the keeper's authority with a field of the message
					if m := reAuthCmp.FindStringSubmatch(body); m != nil {
						f := m[1]
						if f == "" {
							f = m[2]
						}
						h.SenderField, h.Why = f, "handler compares the keeper's authority with msg."+f
					}
				}
				if h.SenderField != "" {
					out = append(out, h)
				}
			}
		}
	}
	sort.Slice(out, func(i, j int) bool { return out[i].Method < out[j].Method })
	return out, nil
}

func (g *c17Gen) fresh(prefix string) string {
	g.n++
	return fmt.Sprintf("%s%d", prefix, g.n)
}

// value emits a Go expression of the given (syntactic) type for module mod.
func (g *c17Gen) value(mod string, t ast.Expr, field string, depth int) string {
	tp := mod + "types."
	switch x := t.(type) {
	case *ast.Ident:
		switch x.Name {
		case "string":
			switch {
			case strings.Contains(strings.ToLower(field), "denom"):
				return `"uusdc"`
			case strings.Contains(strings.ToLower(field), "address") || field == "Creator" || field == "Sender" || field == "Feeder" || field == "Provider":
				return "someone"
			}
			return `"x"`
		case "bool":
			return fmt.Sprintf("vrf.Bool(%q)", g.fresh("b"))
		case "uint64":
			if depth == 0 && (field == "PoolId" || field == "AmmPoolId") {
				return "1" // the pool the adversarial pre-state creates (pool addresses are hashes of the id)
			}
			return fmt.Sprintf("vrf.U64(%q, 0, 1<<40)", g.fresh("u"))
		case "int64":
			return fmt.Sprintf("vrf.I64(%q, 0, 1<<40)", g.fresh("i"))
		case "uint32":
			return fmt.Sprintf("uint32(vrf.U64(%q, 0, 1000))", g.fresh("u"))
		case "int32":
			return fmt.Sprintf("int32(vrf.I64(%q, 0, 1000))", g.fresh("i"))
		case "byte", "uint8":
			return "0"
		}
		if st := g.structs[mod][x.Name]; st != nil && depth < 4 {
			return tp + x.Name + g.structLit(mod, st, depth+1)
		}
		return "" // enum or unknown: zero value
	case *ast.StarExpr:
		if id, ok := x.X.(*ast.Ident); ok {
			if st := g.structs[mod][id.Name]; st != nil && depth < 4 {
				return "&" + tp + id.Name + g.structLit(mod, st, depth+1)
			}
		}
		return ""
	case *ast.ArrayType:
		if x.Len != nil {
			return ""
		}
		if id, ok := x.Elt.(*ast.Ident); ok && (id.Name == "byte" || id.Name == "uint8") {
			return ""
		}
		el := g.value(mod, x.Elt, field, depth+1)
		if el == "" {
			return ""
		}
		return "[]" + g.typeString(mod, x.Elt) + "{" + el + "}"
	case *ast.SelectorExpr:
		pkg, _ := x.X.(*ast.Ident)
		path := ""
		if pkg != nil {
			path = g.aliases[mod][pkg.Name]
		}
		switch {
		case path == "cosmossdk.io/math" && x.Sel.Name == "Int":
			return fmt.Sprintf("vrf.Int(%q)", g.fresh("n"))
		case path == "cosmossdk.io/math" && x.Sel.Name == "LegacyDec":
			return fmt.Sprintf("vrf.Dec(%q)", g.fresh("d"))
		case path == "github.com/cosmos/cosmos-sdk/types" && x.Sel.Name == "Coin":
			return fmt.Sprintf(`sdk.Coin{Denom: "uusdc", Amount: vrf.Int(%q)}`, g.fresh("n"))
		case path == "github.com/cosmos/cosmos-sdk/types" && x.Sel.Name == "Coins":
			return fmt.Sprintf(`sdk.Coins{sdk.Coin{Denom: "uusdc", Amount: vrf.Int(%q)}}`, g.fresh("n"))
		}
		return ""
	}
	return ""
}

func (g *c17Gen) typeString(mod string, t ast.Expr) string {
	switch x := t.(type) {
	case *ast.Ident:
		if g.structs[mod][x.Name] != nil {
			return mod + "types." + x.Name
		}
		return x.Name
	case *ast.StarExpr:
		return "*" + g.typeString(mod, x.X)
	case *ast.SelectorExpr:
		pkg, _ := x.X.(*ast.Ident)
		path := ""
		if pkg != nil {
			path = g.aliases[mod][pkg.Name]
		}
		switch path {
		case "cosmossdk.io/math":
			return "sdkmath." + x.Sel.Name
		case "github.com/cosmos/cosmos-sdk/types":
			return "sdk." + x.Sel.Name
		}
	}
	return "interface{}"
}

func (g *c17Gen) structLit(mod string, st *ast.StructType, depth int) string {
	var sb strings.Builder
	sb.WriteString("{")
	first := true
	for _, fl := range st.Fields.List {
		for _, n := range fl.Names {
			if !n.IsExported() || strings.HasPrefix(n.Name, "XXX_") {
				continue
			}
			v := g.value(mod, fl.Type, n.Name, depth)
			if v == "" {
				continue
			}
			if !first {
				sb.WriteString(", ")
			}
			first = false
			sb.WriteString(n.Name + ": " + v)
		}
	}
	sb.WriteString("}")
	return sb.String()
}

// generateC17 writes the harness source and returns the handlers found.
func generateC17(repo, outFile string) ([]c17Handler, error) {
	g := &c17Gen{repo: repo, structs: map[string]map[string]*ast.StructType{}, aliases: map[string]map[string]string{}}
	mods := make([]string, 0, len(c17Modules))
	for m := range c17Modules {
		mods = append(mods, m)
	}
	sort.Strings(mods)
	var all []c17Handler
	var body strings.Builder
	used := map[string]bool{}
	for _, m := range mods {
		if err := g.parseTypes(m); err != nil {
			continue
		}
		hs, err := g.handlers(m)
		if err != nil {
			continue
		}
		for _, h := range hs {
			used[m] = true
			all = append(all, h)
			g.n = 0
			st := g.structs[m][h.Req]
			lit := g.structLit(m, st, 0)
			fmt.Fprintf(&body, "\n// %s.%s: %s\n//vrf:cover refused\n//vrf:bound every field of %s arbitrary (numeric leaves symbolic, slices of length 1); sender != governance authority\nfunc H_Gov_%s_%s() {\n",
				m, h.Method, h.Why, h.Req, m, h.Method)
			fmt.Fprintf(&body, "\tenv := wire.New(wire.Opts{})\n\tmsg := &%stypes.%s%s\n\tmsg.%s = someone\n", m, h.Req, lit, h.SenderField)
			fmt.Fprintf(&body, "\tadversarialState(env, msg, someone)\n")
			fmt.Fprintf(&body, "\tsrv := %skeeper.NewMsgServerImpl(*env.%s)\n\tbefore := env.W.TotalWrites()\n", m, c17Modules[m])
			fmt.Fprintf(&body, "\t_, err := srv.%s(env.Ctx, msg)\n", h.Method)
			fmt.Fprintf(&body, "\tvrf.Assert(err != nil, \"C17: %s.%s refuses a sender that is not the governance authority\")\n", m, h.Method)
			fmt.Fprintf(&body, "\tvrf.Assert(env.W.TotalWrites() == before, \"C17: %s.%s leaves the state untouched when it refuses\")\n", m, h.Method)
			fmt.Fprintf(&body, "\tif err != nil {\n\t\tvrf.Cover(\"refused\")\n\t}\n}\n")
		}
	}
	var src strings.Builder
	src.WriteString("// Code generated by gosymx (gen17.go) from /repo's current source. DO NOT EDIT.\n\npackage h_c17\n\nimport (\n")
	src.WriteString("\tsdkmath \"cosmossdk.io/math\"\n\tsdk \"github.com/cosmos/cosmos-sdk/types\"\n\tvrf \"github.com/elys-network/elys/zzvrf\"\n\t\"github.com/elys-network/elys/zzvrf/wire\"\n")
	for _, m := range mods {
		if used[m] {
			fmt.Fprintf(&src, "\t%skeeper \"github.com/elys-network/elys/x/%s/keeper\"\n\t%stypes \"github.com/elys-network/elys/x/%s/types\"\n", m, m, m, m)
		}
	}
	src.WriteString(")\n\nvar _ = sdkmath.ZeroInt\nvar _ sdk.Coin\n\n// someone is a valid account address that is not the governance authority\nvar someone = sdk.AccAddress([]byte(\"not_the_gov_account_\")).String()\n")
	src.WriteString(body.String())
	if err := os.WriteFile(outFile, []byte(src.String()), 0o644); err != nil {
		return nil, err
	}
	return all, nil
}
